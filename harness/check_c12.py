"""C12 - saving and loading a configuration graph loses nothing."""
import json
import os
from concurrent.futures import ThreadPoolExecutor

from vcommon import Check, main_wrapper, run_impl, gnat, glist, gopt, gbool, gbytes
import identgen

HEADER = ("From Coq Require Import ZArith NArith List Bool.\n"
          "From XV Require Import core.Value model.Hash model.Serial corr.SerialCorr.\nImport ListNotations.\n")


def cls_index(export, module, qualname):
    """classes are identified by module AND qualified name (two modules may define classes of the same name)"""
    for i, c in enumerate(export["classes"]):
        if c["py"] == qualname and c.get("pymod") == module:
            return i
    return 999


def g_def(export, d):
    fields = glist(f"({gbytes(k)}%N, {identgen.g_value(v)})" for k, v in d["fields"])
    return (f"{{| d_id := {gnat(d['id'])}; d_cls := {gnat(cls_index(export, d['pymod'], d['pytype']))}; "
            f"d_fields := {fields}; d_pre := {glist(gnat(p) for p in d['pre'])}; "
            f"d_init := {glist(gnat(p) for p in d['init'])}; d_meta := {gopt(d['meta'], gbool)}; "
            f"d_task := {gopt(d['task'], gnat)} |}}")


def g_rnode(export, x):
    fields = glist(f"({gbytes(k)}%N, {identgen.g_value(v)})" for k, v in x["fields"])
    return (f"{{| n_cls := {gnat(cls_index(export, x['pymod'], x['pycls']))}; n_fields := {fields}; n_meta := {gopt(x['meta'], gbool)}; "
            f"n_task := {gopt(x['task'], gnat)}; n_pre := {glist(gnat(p) for p in x['pre'])}; "
            f"n_init := {glist(gnat(p) for p in x['init'])} |}}")


def g_ccase(k):
    e = k["export"]
    rel = glist(f"({gnat(i)}, {g_rnode(e, x)})" for i, x in enumerate(k["reloaded"]) if x is not None)
    return (f"{{| cc_classes := {identgen.g_classes(e['classes'])}; cc_heap := {identgen.g_heap(e['nodes'])}; "
            f"cc_root := {gnat(k['root'])}; cc_defs := {glist(g_def(e, d) for d in k['defs'])}; cc_reloaded := {rel} |}}")


def values_ok(v):
    if v["t"] in ("unknown", "baddict"):
        return False
    if v["t"] == "list":
        return all(values_ok(x) for x in v["v"])
    if v["t"] == "dict":
        return all(values_ok(x) for _, x in v["v"])
    return True


def as_map(fields):
    return {bytes(k).decode(): v for k, v in fields}


def marks_own_parameter(e):
    """some task's task_outputs marked one of the task's own (transitive) parameters as its output"""
    nodes = e["nodes"]

    def refs(v, acc):
        if v["t"] == "ref":
            acc.append(v["n"])
        elif v["t"] == "list":
            for x in v["v"]:
                refs(x, acc)
        elif v["t"] == "dict":
            for _, x in v["v"]:
                refs(x, acc)

    for i, x in enumerate(nodes):
        t = x["task"]
        if t is None or t == i or t >= len(nodes):
            continue
        seen, todo = set(), [t]
        while todo:
            n = todo.pop()
            if n in seen or n >= len(nodes):
                continue
            seen.add(n)
            acc = []
            for _, v in nodes[n]["fields"]:
                refs(v, acc)
            todo.extend(acc)
        if i in seen:
            return True
    return False


def oracle(c, case, r):
    e = r["export"]
    desc = case["desc"]
    own = identgen.SELFMARK if marks_own_parameter(e) and identgen.remarked(desc) else ""
    acts = desc.get("actions", [])
    failed_submit = any(ai < len(acts) and (acts[ai]["a"] == "submit" or (acts[ai]["a"] == "set" and acts[ai]["v"].get("t") == "out"))
                        for ai, _ in (r.get("build_errors") or []))
    for d in r["defs"]:
        i = d["id"]
        orig = e["nodes"][i]
        rel = r["reloaded"][i]
        ctx = dict(desc=desc, root=case["root"], node=i)
        if rel is None:
            c.violation("C12:node-not-reloaded", "a saved configuration has no reloaded counterpart", ctx)
            continue
        if (e["classes"][orig["cls"]]["py"], e["classes"][orig["cls"]].get("pymod")) != (rel["pycls"], rel.get("pymod")):
            c.violation("C12:class-changed", "class differs after reload", dict(ctx, got=rel["pycls"]))
        mo, mr = as_map(orig["fields"]), as_map(rel["fields"])
        if mo != mr:
            diff = sorted(k for k in set(mo) | set(mr) if mo.get(k) != mr.get(k))
            c.violation("C12:value-changed", "a parameter value differs after reload",
                        dict(ctx, params=diff, before={k: mo.get(k) for k in diff}, after={k: mr.get(k) for k in diff}))
        if orig["meta"] != rel["meta"]:
            key = "C12:meta-false-lost" if orig["meta"] is False and rel["meta"] is None else "C12:meta-changed"
            c.violation(key, "the meta flag differs after reload", dict(ctx, before=orig["meta"], after=rel["meta"]))
        # a submitted task is its own task after reload (mark), an output keeps its producer
        ot = orig["task"]
        if ot != rel["task"]:
            c.violation("C12:task-changed", "the producing task differs after reload", dict(ctx, before=ot, after=rel["task"]))
        if orig["pre"] != rel["pre"]:
            c.violation("C12:pre-tasks-changed", "pre-tasks differ after reload", dict(ctx, before=orig["pre"], after=rel["pre"]))
        if orig["init"] != rel["init"]:
            key = "C12:init-tasks-lost" if rel["init"] == [] else "C12:init-tasks-changed"
            c.violation(key, "init tasks differ after reload", dict(ctx, before=orig["init"], after=rel["init"]))
        b, a = r["ids_before"].get(str(i)), r["ids_after"].get(str(i))
        if b != a and failed_submit:
            # a submit() of the build raised half-way (e.g. RecursionError on init tasks referring to each other): the
            # ORIGINAL graph then holds identifiers cached before the aborted submit changed it (that is C14/C15's
            # subject: a rejected submit must change nothing); what a reload recomputes cannot be compared with them
            c.count("identifier-comparison-skipped:failed-submit-in-build")
        elif b != a:
            cause = (identgen.SELFMARK[1:] if own else
                     "meta-false" if any(e["nodes"][j["id"]]["meta"] is False for j in r["defs"]) else
                     "init-tasks" if any(e["nodes"][j["id"]]["init"] for j in r["defs"]) else "other")
            c.violation(f"C12:identifier-changed-after-reload:{cause}",
                        "the identifier recomputed on the reloaded graph differs from the original",
                        dict(ctx, before=b, after=a))
        # as-instance view: the task code observes the configured values
        inst = r["instance"]
        if isinstance(inst, dict) and str(i) in inst:
            mi = as_map(inst[str(i)])
            saved = as_map(d["fields"])
            if mi != saved:
                diff = sorted(k for k in set(mi) | set(saved) if mi.get(k) != saved.get(k))
                c.violation("C12:instance-value-differs", "a runtime object observes another value than configured",
                            dict(ctx, params=diff))
        elif isinstance(inst, str):
            c.count("instance:" + inst.split(":")[1])
    rootid = r["ids_before"].get(str(case["root"]))
    for path in ("id_state_dict", "id_save_load"):
        if r[path] != rootid and r["ids_after"].get(str(case["root"])) == rootid:
            c.violation("C12:path-differs:" + path + own, "another save/load path gives another identifier",
                        dict(desc=desc, root=case["root"], got=r[path], want=rootid))
    # the state loaded by a later version of the code (changed constant, class extended with defaulted parameters)
    if r.get("later_code_changed"):
        c.count("later-code-reload")
        if "later_code_error" in r:
            c.violation("C12:later-code-reload-raises", "loading a state into the later version of a class raised: "
                        + r["later_code_error"][:80], dict(desc=desc, root=case["root"]))
        elif r.get("id_later_code") != r["id_state_dict"]:
            c.violation("C12:later-code-reload-changes-identifier" + own,
                        "a state loaded by a later version of the code (other constant / added defaulted parameters) "
                        "does not keep its identifier", dict(desc=desc, root=case["root"], got=r.get("id_later_code"),
                                                             want=r["id_state_dict"]))
    for path in ("raw_state_dict", "raw_save_load"):
        if r.get(path) != r.get("raw_root_before"):
            c.violation("C12:raw-identifier-differs:" + path + own, "the raw identifier of a reloaded configuration differs from the original",
                        dict(desc=desc, root=case["root"], got=r.get(path), want=r.get("raw_root_before")))
    if r.get("embed_before") != r.get("embed_state_dict"):
        c.violation("C12:embedding-identifier-differs" + own, "a configuration embedding a reloaded one is identified differently",
                    dict(desc=desc, root=case["root"], got=r.get("embed_state_dict"), want=r.get("embed_before")))
    if r["defs_state_dict"] != r["defs"] or r["defs_save"] != r["defs"]:
        c.violation("C12:paths-write-different-definitions", "state_dict / save write other definitions than __get_objects__",
                    dict(desc=desc, root=case["root"]))
    # the job folder prepared a second time for the same identifier with other tags holds the LAST parameters
    if r.get("prep_same_folder"):
        c.count("prepared-twice")
        if r["prep_tags_written"] != r["prep_tags"]:
            c.violation("C12:parameter-file-not-rewritten", "a job folder prepared again (same identifier, other tags) keeps the "
                        "earlier parameter file: the job process would observe the earlier tags",
                        dict(desc=desc, root=case["root"], written=r["prep_tags_written"], configured=r["prep_tags"]))
    elif "prep_error" in r:
        c.count("prepared-twice:error:" + r["prep_error"].split(":")[0])
    # the parameter file of a job (what run.py reads): same definitions, and exactly the configured tags
    if "params_error" in r:
        c.violation("C12:parameter-file-raises", "writing the parameter file raised: " + r["params_error"][:80],
                    dict(desc=desc, root=case["root"]))
    elif "defs_params" in r:
        c.count("params-file:tags=%d" % len(r["tags"]))
        if any(v in (0, "", False, 0.0) for v in r["tags"].values()):
            c.count("params-file:falsy-tag")
        if r["defs_params"] != r["defs"]:
            c.violation("C12:parameter-file-definitions-differ", "the parameter file holds other definitions than __get_objects__",
                        dict(desc=desc, root=case["root"]))
        if r["params_tags"] != r["tags"] or [type(v).__name__ for _, v in sorted(r["params_tags"].items())] != \
                [type(v).__name__ for _, v in sorted(r["tags"].items())]:
            c.violation("C12:parameter-file-tags-differ", "the tags written to the parameter file are not the configured tags",
                        dict(desc=desc, root=case["root"], written=r["params_tags"], configured=r["tags"]))


def run(c: Check):
    c.rule = ("random configuration graphs over all supported parameter types (scalars, paths, enums, lists, dicts, "
              "optionals, nested/shared/cyclic configurations, task outputs, meta flags True/False, pre-tasks and init "
              "tasks), a random root; saved by __get_objects__, state_dict and save, reloaded by load_objects / "
              "from_state_dict / load in configuration mode and as instances; non-trivial = at least 3 definitions "
              "written; distinct by (graph, root)")
    c.build()
    c.props()
    ncases = 150 if c.quick else 4000
    g = identgen.Gen(c.rng)
    cases = []
    if c.replay:
        rp = json.load(open(c.replay))["replay"]
        if "desc" in rp:
            cases.append(dict(desc=rp["desc"], root=rp["root"]))
        ncases = 0
    for _ in range(ncases):
        d = g.graph(p_cycle=0.3, p_meta=0.5, p_pre=0.4, p_init=0.7)
        n = len(d["nodes"])
        subs = [a["n"] for a in d["actions"] if a["a"] == "submit"]
        root = c.rng.choice(subs) if subs and c.rng.random() < 0.4 else (n - 1 if c.rng.random() < 0.6 else c.rng.randrange(n))
        if c.rng.random() < 0.06:
            # a dict parameter whose value has a key named "type" (the saved form uses {"type": ...} for typed values)
            d["nodes"].append(dict(cls="Bag", kw=[c.rng.choice([
                ["ds", {"t": "dict", "v": [["type", {"t": "str", "v": "path"}], ["value", {"t": "str", "v": "some/thing"}]]}],
                ["di", {"t": "dict", "v": [["type", {"t": "int", "v": 1}]]}],
                ["ds", {"t": "dict", "v": [["type", {"t": "str", "v": "x"}]]}]])]))
            root = len(d["nodes"]) - 1
        elif c.rng.random() < 0.06:
            # a plain dictionary that has a key named "value" (the wrapped form of a dictionary is {"type": "dict", "value": ...})
            d["nodes"].append(dict(cls="Bag", kw=[c.rng.choice([
                ["dd", {"t": "dict", "v": [["value", {"t": "dict", "v": [["lr", {"t": "int", "v": 1}]]}]]}],
                ["di", {"t": "dict", "v": [["value", {"t": "int", "v": 5}], ["gamma", {"t": "int", "v": 9}]]}],
                ["ds", {"t": "dict", "v": [["value", {"t": "str", "v": "x"}]]}]])]))
            root = len(d["nodes"]) - 1
        elif c.rng.random() < 0.08:
            # a configuration that took over the task mark of an output through copy_dependencies, held by the root
            k0 = len(d["nodes"])
            d["nodes"] += [dict(cls="TaskOut", kw=[["x", {"t": "int", "v": c.rng.choice([1, 2, 3])}]]),
                           dict(cls="Leaf", kw=[["i", {"t": "int", "v": 4}]]),
                           dict(cls="Inner", kw=[["c", {"t": "ref", "n": k0 + 1}]])]
            d["actions"].append(dict(a="copydeps", n=k0 + 1, out=k0))
            root = k0 + 2
        cases.append(dict(desc=d, root=root))
    chunks = [cases[i::16] for i in range(16)]

    def drive(chunk):
        if not chunk:
            return []
        return run_impl("drive_c12.py", dict(cases=chunk), timeout=1500)

    with ThreadPoolExecutor(max_workers=16) as ex:
        results = list(ex.map(drive, chunks))
    coq_cases = []
    for ch, res in zip(chunks, results):
        for x, r in zip(ch, res):
            if "error" in r:
                c.count("error:" + r["error"].split(":")[0])
                continue
            c.evaluations += 1
            tk = '"type"' in json.dumps([nd_["kw"] for nd_ in x["desc"]["nodes"]]) and \
                any(k_ == "type" for nd_ in x["desc"]["nodes"] for _, v_ in nd_["kw"] if v_["t"] == "dict" for k_, _ in v_["v"])
            if tk:
                # recorded finding: such a dictionary is read back as a typed value; one key for the whole family
                c.count("dict-with-type-key")
                nv = len(c.violations)
                if "load_error" not in r:
                    oracle(c, x, r)
                if "load_error" in r or len(c.violations) > nv:
                    del c.violations[nv:]
                    c.violation("C12:dict-value-with-type-key", "a Dict parameter whose value has a key named \"type\" does not survive "
                                "saving and loading (taken for a typed value: load raises, or another value is observed)",
                                dict(desc=x["desc"], root=x["root"], error=r.get("load_error")))
                continue
            if "load_error" in r:
                kind = "enum-scalar" if any(e2 in r["load_error"] for e2 in ("Level", "Mode")) else r["load_error"].split(":")[0]
                c.violation(f"C12:load-raises:{kind}", "loading back what was just saved raises",
                            dict(desc=x["desc"], root=x["root"], error=r["load_error"]))
                continue
            c.count(f"definitions={min(len(r['defs']), 8)}")
            if len(r["defs"]) >= 3:
                c.nontrivial.add(json.dumps([x["desc"], x["root"]], sort_keys=True))
            oracle(c, x, r)
            ok = identgen.in_model(r["export"]) and all(values_ok(v) for d in r["defs"] for _, v in d["fields"]) and \
                all(values_ok(v) for y in r["reloaded"] if y for _, v in y["fields"]) and \
                all(d["id"] >= 0 for d in r["defs"])
            if ok:
                coq_cases.append(dict(export=r["export"], root=x["root"], defs=r["defs"], reloaded=r["reloaded"], desc=x["desc"],
                                      executed=r.get("executed"), executed_error=r.get("executed_error"), returned=r.get("returned_tasks")))
            else:
                c.count("outside-model")
    c.samples = [dict(desc=x["desc"], root=x["root"]) for x in cases[:2]]
    checker = os.environ.get("VERIF_C12_CHECKER", "check_ccase true true")
    bad = c.corr_shards("corr", HEADER, coq_cases, g_ccase, checker, shard=50)
    c.extra["disagreeing_cases"] = [dict(desc=coq_cases[i]["desc"], root=coq_cases[i]["root"]) for i in bad[:5]]
    # the lightweight tasks executed by the job process = exec_plan of the model on the saved definitions
    plans = c.nat_shards("plan", HEADER, coq_cases, g_ccase, "plan_ccase true", shard=50)
    for k, plan in zip(coq_cases, plans):
        if plan is None:
            continue
        c.count("executed-tasks=%d" % min(len(plan), 4))
        if k["executed_error"]:
            c.violation("C12:job-process-load-raises", "loading the saved graph as the job process does raised: " + k["executed_error"][:80],
                        dict(desc=k["desc"], root=k["root"]))
        elif k["executed"] != plan:
            c.violation("C12:executed-tasks-differ", "the job process executes other pre/init tasks (or in another order) than the "
                        "model's exec_plan: pre-tasks of every saved configuration once, then the init tasks of the task that runs",
                        dict(desc=k["desc"], root=k["root"], executed=k["executed"], plan=plan))
    for k, plan in zip(coq_cases, plans):
        if plan is not None and k["returned"] is not None and k["returned"] != plan:
            c.violation("C12:returned-tasks-differ", "fromParameters(return_tasks=True) does not return the configuration with the "
                        "pre/init tasks of the model's exec_plan", dict(desc=k["desc"], root=k["root"], returned=k["returned"], plan=plan))
    # directed probe outside the model: DataPath parameters (data files copied at save time)
    prd = run_impl("drive_c12data.py", {}, timeout=300)
    c.count("probe:datapath")
    for path, key in (("save_load", "C12:datapath:save-load"), ("serialize_deserialize", "C12:datapath:data-files-collide"),
                      ("instance", "C12:datapath:job-process")):
        if prd.get(path) != prd["want"]:
            c.violation(key, f"DataPath parameters, {path}: each configuration must read back the content of its own data file; "
                        f"got {prd.get(path)}", dict(desc=dict(nodes=[], actions=[]), root=0, probe="harness/drive_c12data.py", got=prd))
    if prd.get("save_list") != ["content-0", "content-1"] or prd.get("sources_intact") != prd["want"]:
        c.violation("C12:datapath:save-over-earlier-copy", "save([a, b], dir) then save([b, a], dir): each loaded configuration must "
                    f"read its own data and the ORIGINAL data files must be intact; got {prd.get('save_list')} / sources "
                    f"{prd.get('sources_intact')}", dict(desc=dict(nodes=[], actions=[]), root=0, probe="harness/drive_c12data.py", got=prd))
    if prd.get("instance_types") not in (["PosixPath"], None):
        c.violation("C12:datapath:job-process-observes-str", "the job process observes a DataPath parameter as "
                    + str(prd.get("instance_types")) + " where a Path was configured",
                    dict(desc=dict(nodes=[], actions=[]), root=0, probe="harness/drive_c12data.py", got=prd))
    c.level_assumptions = [
        "object identity is abstract: definitions and reloaded nodes are aligned on heap positions through the python ids the implementation itself wrote",
        "json.dump/json.load are trusted to round-trip ints, floats (incl. nan/inf/-0.0), strings and nested lists/dicts",
        "DataPath serialisation (copying data files) is outside the model: a directed probe (harness/drive_c12data.py) covers it",
        "the job-process path (params.json read by experimaestro run) is exercised in-process through load_objects(as_instance=True)",
    ]


if __name__ == "__main__":
    main_wrapper("C12", run)
