"""Prints the DESIGN.md table of seeded changes from seeded/*/meta.json (+ seeded/<name>/summary.txt if present)."""
import json
from pathlib import Path

ROOT = Path(__file__).resolve().parent.parent
print("| seeded change | what it changes / what it needs | demo clean / changed | repo suite with the change | caught by (quick tier) | how |")
print("|---|---|---|---|---|---|")
for d in sorted((ROOT / "seeded").iterdir()):
    mf = d / "meta.json"
    if not mf.exists():
        continue
    m = json.load(open(mf))
    summ = (d / "summary.txt").read_text().strip() if (d / "summary.txt").exists() else ""
    suite = "not run"
    if "suite_stable_missing" in m:
        miss = m["suite_stable_missing"]
        if not miss:
            suite = "all stable tests pass"
        elif m.get("suite_missing_rerun_ok"):
            suite = f"{len(miss)} timing test(s) failed in the full run, pass when re-run alone"
        else:
            suite = "still failing: " + ", ".join(x.split("::")[-1] for x in m.get("suite_still_missing_after_rerun", miss))
    elif "suite_note" in m:
        suite = m["suite_note"][:60]
    how = []
    for c, v in m.get("verdicts", {}).items():
        vl = [l for l in v["lines"] if l.startswith("VIOLATION")]
        if vl:
            how.append(c + (": correspondence/obligation only (no-failing-input-found)" if all("no-failing-input-found" in l for l in vl)
                            else ": oracle violation with replay"))
    hist = m.get("history", "")
    prevs = m.get("previous_runs", [])
    if prevs and not hist:
        first = prevs[0]
        fc = first.get("caught_by") or []
        weak = all("no-failing-input-found" in l for v_ in first.get("verdicts", {}).values() for l in v_.get("lines", []) if l.startswith("VIOLATION"))
        if not fc:
            hist = "first run: MISSED by " + ", ".join(first.get("verdicts", {})) + "; caught after the check was strengthened"
        elif weak and fc:
            hist = "first run: only a correspondence disagreement (no-failing-input-found); oracle strengthened"
    reg = m.get("regression")
    if reg:
        if reg.get("neutralised_on_head"):
            hist += (" — " if hist else "") + "final pass: no longer observable on HEAD (" + reg["neutralised_on_head"][:200] + ")"
        elif "still_caught" in reg:
            hist += (" — " if hist else "") + ("final pass on " + reg.get("repo_head", "HEAD") + ": still caught"
                                               if reg["still_caught"] else "final pass on " + reg.get("repo_head", "HEAD") + ": NOT caught")
    print(f"| {m['name']} | {summ} | {m.get('demo_clean_exit')} / {m.get('demo_changed_exit')} | {suite} | "
          f"{', '.join(m.get('caught_by', [])) or 'MISSED'} | {'; '.join(how)}{(' — ' + hist) if hist else ''} |")
