"""C05 - a task configuration is executed at most once per successful result.

(a) submission histories (duplicates at random positions, re-submission after a failure) executed by a
    real `with experiment(...)` process: identity of the returned objects, which submissions were
    scheduled, size of Scheduler.jobs - against the property and against run_reg (model/JobDir.v);
(b) workspaces whose success marker exists (made by hand, with a stale pid file / failed marker, or
    made by a real first experiment): later experiments must not launch the job;
(c) two or three real experiment processes with different experiment names on one workspace submit the
    same job at random offsets (one of them sometimes killed and started again): the begin/end lines
    that the job body appends to a log never overlap, and there is no begin after a successful end.
(b) and (c) are also validated as traces against model/JobDir.v inside coqc (corr/JobDirCorr.v).
"""
import json
import os
import time

from vcommon import Check, InternalError, REPO, main_wrapper, run_impl
from vpk_jobdir import cases, replay


# ------------------------------------------------------------------ (a) histories
def gen_history(rng, n):
    ops, live, done = [], {}, set()
    tags = [1, 2, 3][: rng.choice([1, 2, 2, 3])]
    for _ in range(n):
        t = rng.choice(tags)
        if t in live and rng.random() < 0.4:
            ok = rng.random() < 0.45
            ops.append(["finish", t, ok])
            del live[t]
            if ok:
                done.add(t)
        else:
            ops.append(["submit", t])
            if t not in done:
                live[t] = True
    for t in sorted(live):
        ops.append(["finish", t, True])
    return ops


def history_expect(ops):
    """the property restated: per submission, (index of the submission whose output must be returned,
    must a job be scheduled)"""
    live, out, k = {}, [], 0
    failed_before = {}
    for op in ops:
        if op[0] == "submit":
            t = op[1]
            if live.get(t) is not None:
                out.append(dict(ret=live[t], scheduled=False, after_failure=failed_before.get(t, False)))
            else:
                out.append(dict(ret=k, scheduled=True, after_failure=failed_before.get(t, False)))
                live[t] = k
            k += 1
        elif op[0] == "finish":
            if not op[2]:
                live[op[1]] = None
                failed_before[op[1]] = True
    return out


def history_case(ops, res):
    """Gallina case: (events, observed (job number, scheduled) per submission)"""
    subs = res["subs"]
    fins = list(res.get("finishes", []))
    jobnum, sched_of_tag, events, obs = [], {}, [], []
    nsched = 0
    k = 0
    fi = 0
    for op in ops:
        if op[0] == "submit":
            s = subs[k]
            if s["scheduled"]:
                jobnum.append(nsched)
                sched_of_tag.setdefault(op[1], []).append([nsched, False])
                nsched += 1
            else:
                jobnum.append(jobnum[s["ret"]] if s["ret"] < len(jobnum) else 999)
            obs.append((jobnum[-1], s["scheduled"]))
            events.append(f"RSubmit {op[1]}")
            k += 1
        elif op[0] == "finish":
            f = fins[fi]
            fi += 1
            for (entry, st) in zip(sched_of_tag.get(op[1], []), f["states"]):
                if not entry[1]:
                    entry[1] = True
                    events.append(f"RState {entry[0]} {'JDone' if st == 'DONE' else 'JError'}")
    return ("([" + "; ".join(events) + "], [" + "; ".join(f"({j}, {'true' if s else 'false'})" for j, s in obs) + "])")


def oracle_history(c, sc, out):
    res = out["results"].get("S0.0")
    ops = sc["meta"]["ops"]
    data = dict(scenario=sc, result=res, log=cases.short_log(out, 60))
    if not cases.usable(out) or not res or "subs" not in res:
        return "inconclusive"
    exp = history_expect(ops)
    if len(exp) != len(res["subs"]):
        return "inconclusive"
    verdict = "ok"
    prev_njobs = 0
    for k, (e, s) in enumerate(zip(exp, res["subs"])):
        if e["scheduled"] != s["scheduled"] or e["ret"] != s["ret"] or (not e["scheduled"] and s["njobs"] != prev_njobs):
            if not e["scheduled"]:
                key = "C05:resubmit-after-error-duplicate" if e["after_failure"] else "C05:duplicate-submission-new-job"
                what = (f"submission #{k} is identical to submission #{e['ret']}, which is not failed, but "
                        + ("a new job was scheduled" if s["scheduled"] else f"the output of submission #{s['ret']} was returned"))
            else:
                key = "C05:first-submission-not-scheduled"
                what = f"submission #{k} has no earlier non-failed twin but was not scheduled (returned #{s['ret']})"
            c.violation(key, what, data)
            verdict = "violation"
        prev_njobs = s["njobs"]
    rows = replay.parse_log(out["log"])
    for t in sc["tags"]:
        overlap, rerun = cases.intervals_ok(rows, t)
        if overlap:
            c.violation("C05:body-overlap", f"two bodies of job {t} ran at the same time", data)
            verdict = "violation"
        if rerun:
            c.violation("C05:rerun-after-success", f"the body of job {t} began again after it had succeeded", data)
            verdict = "violation"
    return verdict


def oracle_threaddup(c, sc, out):
    res = out["results"].get("S0.0")
    data = dict(scenario=sc, result=res, log=cases.short_log(out, 40), stderr=out.get("stderr"))
    if not cases.usable(out) or not res or "thread_subs" not in res:
        return "inconclusive"
    verdict = "ok"
    for t in res["thread_subs"]:
        if t["name"] == "first":
            continue
        if t.get("error") or not t["is_first"]:
            c.violation("C05:duplicate-from-thread-not-first-output", f"a duplicate submitted from another thread while the "
                        f"first submission was still inside submit() got {t['type'] if not t.get('error') else t['error']} "
                        "instead of the first submission's output", data)
            verdict = "violation"
    if res.get("njobs") != 1:
        c.violation("C05:duplicate-from-thread-new-job", f"{res.get('njobs')} jobs registered for one configuration", data)
        verdict = "violation"
    rows = replay.parse_log(out["log"])
    if cases.count_begins(rows, 1) != 1:
        c.violation("C05:body-count", f"the body ran {cases.count_begins(rows, 1)} times", data)
        verdict = "violation"
    return verdict


def oracle_renamed_or_seed(c, sc, out):
    """renamed task + `deprecated list --fix`, or the same job submitted from processes with different hash seeds:
    one job, one body"""
    m = sc["meta"]
    rows = replay.parse_log(out["log"])
    data = dict(scenario=sc, exit=out["exit"], results=out["results"], log=cases.short_log(out, 60))
    if not cases.usable(out):
        return "inconclusive"
    verdict = "ok"
    overlap, rerun = cases.intervals_ok(rows, 1)
    nb = cases.count_begins(rows, 1)
    if m["family"] == "renamed":
        if overlap or (m["running"] and nb != 1):
            c.violation("C05:renamed-task-running-launched-again", "a task renamed in the code (deprecated alias, `deprecated list "
                        "--fix` done) that was still running under its former name was launched again under its new name: "
                        f"{nb} bodies" + (", two of them at the same time, in the same folder" if overlap else ""), data)
            verdict = "violation"
        elif nb != 1 or rerun:
            c.violation("C05:renamed-task-rerun-after-fix", f"the body of a renamed task whose folder was linked by `deprecated list "
                        f"--fix` ran {nb} times (the later experiment did not find its success marker under the new name)", data)
            verdict = "violation"
    else:
        ids = {v.get("identifier") for v in out["results"].values() if v and v.get("identifier")}
        if len(ids) > 1 or nb != 1:
            c.violation("C05:identifier-depends-on-process", f"the same configuration (job with {m['npre']} pre-tasks) submitted from "
                        f"processes with hash seeds {m['seeds']} got identifiers {sorted(x[:10] for x in ids)}; the body ran {nb} times", data)
            verdict = "violation"
    for r in sc["runs"]:
        js = (out["results"].get(f"{r['sid']}.{r['run']}") or {}).get("jobs", [])
        if not js or js[0]["state"] != "DONE":
            c.violation("C05:renamed-or-reseeded-not-done", f"{r['sid']} reports {js}", data)
            verdict = "violation"
    return verdict


# ------------------------------------------------------------------ (b), (c)
def oracle_files(c, sc, out):
    m = sc["meta"]
    rows = replay.parse_log(out["log"])
    data = dict(scenario=sc, exit=out["exit"], snapshot=out["snapshot"], log=cases.short_log(out, 80))
    if not cases.usable(out):
        return "inconclusive"
    verdict = "ok"
    overlap, rerun = cases.intervals_ok(rows, 1)
    if overlap:
        c.violation("C05:body-overlap", "two bodies of the job ran at the same time", data)
        verdict = "violation"
    if rerun:
        c.violation("C05:rerun-after-success", "the body of the job began again after it had succeeded", data)
        verdict = "violation"
    if out.get("lock_changes"):
        c.violation("C05:lock-file-replaced", "the file that carries the run lock of the job was removed or replaced while the "
                    f"job directory was in use (launches that hold / wait for the old file no longer exclude new ones): {out['lock_changes']}", data)
        verdict = "violation"
    nb = cases.count_begins(rows, 1)
    if not sc.get("pre") and not m.get("real_first"):
        # no marker before the scenario: nobody may report DONE before a body has ended successfully
        first_ok = next((r["i"] for r in cases.body_rows(rows, 1) if r["kind"] == "end" and r["res"] == "ok"), None)
        for r in rows:
            if r["who"] != "P" and r["kind"] == "R" and r["rest"][:2] == ["aio_submit", "1"] and r["rest"][-1] == "ret=DONE":
                if first_ok is None or r["i"] < first_ok:
                    key = ("C05:done-without-marker-truncated-script" if m.get("truncated") else "C05:done-before-success")
                    c.violation(key, f"{r['who']} reported the job DONE before any body had ended successfully "
                                "(its job process exited 0 without running)", data)
                    verdict = "violation"
    # a launch when the marker exists: a scheduler cannot hold the job lock while a body ends successfully, so a Popen
    # logged after a successful end was decided without looking at the marker under the lock (it truncates .out/.err)
    first_okk = next((r["i"] for r in cases.body_rows(rows, 1) if r["kind"] == "end" and r["res"] == "ok"), None)
    late_launch = [r["who"] for r in rows if r["who"] != "P" and r["kind"] == "R" and r["rest"][:2] == ["aio_run", "1"]
                   and first_okk is not None and r["i"] > first_okk]
    if late_launch and not m.get("exit0"):
        c.violation("C05:launch-after-marker", f"{late_launch} launched a process for the job after its body had ended "
                    "successfully (marker present): the launch does nothing but truncate the output files of the successful "
                    f"run (<name>.out now: {out['snapshot']['1'].get('out')!r})", data)
        verdict = "violation"
    if m["family"] == "done-marker":
        want = 1 if m["real_first"] else 0
        later = [r for r in sc["runs"] if r["sid"] != "S9"]
        launched = [r["sid"] for r in later if any(j.get("launched") for j in (out["results"].get(f"{r['sid']}.0") or {}).get("jobs", []))]
        if nb != want or launched:
            c.violation("C05:launched-despite-done", f"the success marker existed, yet the body ran {nb} time(s) "
                        f"(expected {want}); experiments that started a process: {launched}", data)
            verdict = "violation"
        for r in later:
            js = (out["results"].get(f"{r['sid']}.0") or {}).get("jobs", [])
            if not js or js[0]["state"] != "DONE":
                c.violation("C05:done-marker-not-done", f"the success marker existed but {r['sid']} reports {js}", data)
                verdict = "violation"
    elif not m.get("fail_first"):
        if nb != 1:
            c.violation("C05:body-count", f"no run failed but the body ran {nb} times", data)
            verdict = "violation"
    if any(r["kind"] == "end" and r["res"] == "ok" for r in cases.body_rows(rows, 1)) and not out["snapshot"]["1"]["done"]:
        c.violation("C05:success-without-marker", "a body ended successfully but the marker is missing", data)
        verdict = "violation"
    return verdict


def gen_scenarios(c, nref, n_spawn, n_lock):
    rng = c.rng
    scs = []
    n_hist, n_done, n_comp = (10, 5, 14) if c.quick else (80, 30, 210)
    for i in range(n_hist):
        scs.append(cases.sc_history(f"h{i:04d}", gen_history(rng, rng.randrange(4, 11))))
    # a renamed task (deprecated alias + `deprecated list --fix` between / during the experiments); one job submitted
    # from processes with different hash seeds
    scs.append(cases.sc_renamed("r0000", False))
    scs.append(cases.sc_renamed("r0001", True))
    scs.append(cases.sc_hashseed("z0000", [rng.randrange(1, 1000) for _ in range(3)], npre=3))
    if not c.quick:
        for i in range(4):
            scs.append(cases.sc_renamed(f"r{i + 2:04d}", i % 2 == 1))
            scs.append(cases.sc_hashseed(f"z{i + 1:04d}", [rng.randrange(1, 10 ** 6) for _ in range(rng.choice([2, 3, 4]))],
                                         npre=rng.choice([2, 3, 4])))
    # duplicates from other threads, inside / after the window in which the first submission computes its output
    for i in range(2 if c.quick else 12):
        scs.append(cases.sc_threaddup(f"u{i:04d}", sorted(round(rng.uniform(0.05, 1.0), 2) for _ in range(rng.choice([1, 2, 3]))),
                                      delay=rng.choice([0.5, 0.8])))
        if i == 0:
            scs[-1]["runs"][0]["workload"]["offsets"][0] = 0.2
            scs[-1]["meta"]["offsets"][0] = 0.2
    pres = [dict(done=True, failed=False, stalepid=False), dict(done=True, failed=True, stalepid=False),
            dict(done=True, failed=False, stalepid=True), dict(done=True, failed=True, stalepid=True)]
    for i in range(n_done):
        real = rng.random() < 0.35 or i == 0
        # i == 0: a real first run whose body leaves through sys.exit(0), then later experiments
        scs.append(cases.sc_done_marker(f"d{i:04d}", None if real else pres[i % 4], rng.choice([1, 2, 3]), rng.random() < 0.5, real,
                                        exit0=(i == 0 or (real and rng.random() < 0.5))))
    for i in range(n_comp):
        ns = rng.choice([2, 2, 3])
        delays = [round(rng.choice([0.0, 0.0, 0.0, rng.uniform(0, 0.01), rng.uniform(0, 0.05), rng.uniform(0, 0.5)]), 3)
                  for _ in range(ns)]
        kill = None
        if rng.random() < 0.3:
            kill = (rng.randrange(ns), rng.randrange(1, nref + 25))
        scs.append(cases.sc_compete(f"c{i:04d}", ns, delays, round(rng.choice([0.0, 0.05, 0.2, 0.5]), 2), rng.random() < 0.25, kill,
                                    latch_at=rng.choice([None, None, round(rng.uniform(0.3, 2.0), 2)]),
                                    barrier=rng.random() < 0.8))
        if rng.random() < 0.3:
            scs[-1]["files"]["exit0.all"] = ""
            scs[-1]["meta"]["exit0"] = True
    # forced double launch: every scheduler passed its look-up before any of them wrote a pid file
    if n_lock:
        for i in range(3 if c.quick else 30):
            scs.append(cases.sc_double(f"w{i:04d}", n_lock, rng.choice([2, 2, 3]), rng.choice([0.0, 0.1, 0.3]), rng.random() < 0.25))
    # three launches, the first one failing: the lock must still exclude the second and the third
    if n_lock:
        for i in range(1 if c.quick else 5):
            scs.append(cases.sc_triple(f"3{i:04d}", n_lock, hold=rng.choice([2.0, 2.5, 3.0])))
    # a job process reads its script while another scheduler is writing it
    if n_lock:
        for i in range(1 if c.quick else 6):
            scs.append(cases.sc_truncated(f"t{i:04d}", n_lock, n_spawn))
    # a scheduler killed right after Popen (before / while / after the pid file is written), then others arrive
    for i in range(4 if c.quick else 40):
        scs.append(cases.sc_orphan(f"o{i:04d}", n_spawn + (i % 4), rng.choice([1, 1, 2]), round(rng.uniform(0.2, 1.0), 2),
                                   rng.choice([0.0, 0.1])))
    fam_rank = lambda sc: 0 if (sc["meta"]["family"] in ("renamed", "hashseed") or sc["meta"].get("double") or sc["meta"].get("orphan") or sc["meta"].get("truncated")  # noqa
                                or sc["meta"].get("triple") or sc["meta"].get("exit0")) else 1
    if not c.quick:
        rng.shuffle(scs)
    scs.sort(key=fam_rank)
    return scs


def run(c: Check):
    c.rule = ("(a) random submission histories over 1-3 identifiers (duplicates anywhere, finish ok / finish failing, "
              "re-submission) in one real experiment; (b) workspaces with an existing success marker (+ failed marker, stale "
              "pid file, or made by a real first run) submitted to by 1-3 later experiments; (c) 2-3 real experiment "
              "processes with different names racing for one job (random offsets, body durations, first body failing, one "
              "scheduler killed at a random executed line and restarted); non-trivial = the history contains a duplicate or a "
              "re-submission / more than one experiment touched the job; distinct by generated parameters")
    if os.environ.get("VERIF_SKIP_BUILD"):
        c.gate()
    else:
        c.build()
    c.props()
    markers = replay.load_markers(REPO)
    c.extra["source_markers_found"] = markers is not None
    base = str(c.scratch())
    t_budget = time.time() + (65 if c.quick else 12 * 60)
    scs = []
    if c.replay:
        rp = json.load(open(c.replay))["replay"]
        if "scenario" in rp:
            scs = [dict(rp["scenario"], id=f"replay{i}") for i in range(2)]
    else:
        try:
            gold = json.load(open(os.path.join(os.path.dirname(__file__), "..", "golden", "c05.json")))
        except FileNotFoundError:
            gold = []
        for i, g in enumerate(gold):
            scs.append(dict(g, id=f"gold{i}"))
        # an undisturbed traced run tells at which executed line the process exists
        ref = cases.sc_reference("one")
        ro = run_impl("drive_c05.py", dict(scenarios=[ref], base=base, workers=1), timeout=200)[0]
        if ro is None or not cases.usable(ro):
            raise InternalError("reference run did not complete: " + json.dumps(ro)[:1500])
        k = n_spawn = nref = n_lock = 0
        for r in replay.parse_log(ro["log"]):
            if r["who"] != "P" and r["kind"] == "L" and r["rest"][0] in cases.KILLFUNCS + ["aio_submit"]:
                k += 1
                if not n_lock and markers and markers.get((r["rest"][0], int(r["rest"][1]))) == "LOCK":
                    n_lock = k
                if not n_spawn and r["rest"][0] == "aio_run" and any(x.startswith("pid=") for x in r["rest"][3:]):
                    n_spawn = k
                if r["rest"][0] in cases.KILLFUNCS:
                    nref = k
        c.extra["reference"] = dict(lines=nref, first_line_with_process=n_spawn, lock_line=n_lock)
        scs += gen_scenarios(c, nref, n_spawn or 60, n_lock)
    outs = run_impl("drive_c05.py", dict(scenarios=scs, base=base, workers=6, deadline=t_budget),
                    timeout=(240 if c.quick else 1500)) if scs else []
    reg_cases, corr = [], []
    skipped = inconclusive = 0
    for sc, o in zip(scs, outs):
        if o is None:
            skipped += 1
            continue
        c.evaluations += 1
        m = sc["meta"]
        fam = m["family"]
        c.count("family:" + fam)
        if fam in ("renamed", "hashseed"):
            v = oracle_renamed_or_seed(c, sc, o)
            c.nontrivial.add(json.dumps(m, sort_keys=True))
        elif fam == "threaddup":
            v = oracle_threaddup(c, sc, o)
            c.count(f"threaddup:duplicates={len(m['offsets'])}")
            if any(off < m["delay"] for off in m["offsets"]):
                c.nontrivial.add(json.dumps(m, sort_keys=True))
        elif fam == "history":
            v = oracle_history(c, sc, o)
            ops = m["ops"]
            c.count("history:ops", len(ops))
            for op in ops:
                c.count("op:" + op[0] + (":fail" if op[0] == "finish" and not op[2] else ""))
            exp = history_expect(ops)
            if any(not e["scheduled"] for e in exp) or any(e["after_failure"] for e in exp):
                c.nontrivial.add(json.dumps(ops))
            if v != "inconclusive":
                reg_cases.append(dict(id=sc["id"], ops=ops, g=history_case(ops, o["results"]["S0.0"])))
        else:
            v = oracle_files(c, sc, o)
            if fam == "compete":
                c.count(f"compete:nsched={m['nsched']}")
                c.count("compete:" + ("fail-first" if m["fail_first"] else "no-failure"))
                c.count("compete:" + ("kill+restart" if m["kill"] else "no-kill"))
                if m.get("triple"):
                    c.count("compete:three-launches-first-fails")
            else:
                if m.get("exit0"):
                    c.count("body-ends-with-sys.exit(0)")
                c.count("done-marker:" + ("real-first-run" if m["real_first"] else "hand-made:" +
                                          "+".join(k for k, x in sorted(m["pre"].items()) if x)))
            if len(sc["runs"]) > 1:
                c.nontrivial.add(json.dumps(m, sort_keys=True))
            if v == "ok":
                case, why = cases.build_case(sc, o, markers)
                if case is None:
                    c.count("trace:not-validated:" + why)
                else:
                    c.count("trace:witness-" + ("found" if case["found"] else "not-found"))
                    case.update(id=sc["id"], meta=m, log=cases.short_log(o, 60))
                    corr.append(case)
        c.count("oracle:" + v)
        if v == "inconclusive":
            inconclusive += 1
            c.extra.setdefault("inconclusive", []).append(dict(id=sc["id"], meta=m, timed_out=o["timed_out"], leftover=o["leftover"],
                                                               problems=o["problems"], unfired=o["unfired"], exit=o["exit"],
                                                               stderr=o["stderr"]))
        if len(c.samples) < 6 and fam in ("history", "compete", "threaddup") and len([s for s in c.samples if s["family"] == fam]) < 3:
            c.samples.append(dict(family=fam, scenario=m, results=o["results"], log=cases.short_log(o, 20)))
    c.extra["skipped_for_time"] = skipped
    c.extra["inconclusive_scenarios"] = inconclusive
    if c.evaluations and inconclusive > max(3, 0.3 * c.evaluations):
        raise InternalError(f"{inconclusive} of {c.evaluations} scenarios did not end cleanly (machine overloaded?): "
                            + json.dumps(c.extra.get("inconclusive", [])[:3])[:1500])
    bad = c.corr_shards("registry", cases.CORR_HEADER, reg_cases, lambda x: x["g"], "check_reg", shard=100) if reg_cases else []
    c.extra["disagreeing_histories"] = [dict(id=reg_cases[i]["id"], ops=reg_cases[i]["ops"], case=reg_cases[i]["g"]) for i in bad[:5]]
    bad2 = c.corr_shards("traces", cases.CORR_HEADER, corr, cases.g_case, "check_case", shard=40) if corr else []
    c.extra["disagreeing_traces"] = [dict(id=corr[i]["id"], meta=corr[i]["meta"], why=corr[i]["why"], log=corr[i]["log"]) for i in bad2[:5]]
    c.level_assumptions = [
        "OS: the fcntl lock on <name>.lock is exclusive between processes and released when its holder dies (the shape of the "
        "Lock/Unlock/Crash/Kill transitions of the model; probed by the racing real processes, not proved)",
        "schedulers in different processes; two jobs of one scheduler process do not exclude each other through fcntl, which "
        "is why part (a) (one job per identifier inside a process) matters",
        "final job states are absorbing inside a scheduler (C06) - the environment of the registry model",
    ]


if __name__ == "__main__":
    main_wrapper("C05", run)
