"""Regenerates /verif/MANIFEST.json from the table below (run by hand after adding a check)."""
import json
from pathlib import Path

ROOT = Path(__file__).resolve().parent.parent
TITLES = {json.loads(l)["id"]: json.loads(l)["title"] for l in open(ROOT / "properties.jsonl")}

BASE_TB = ("Coq 8.16.1 kernel (vm_compute, no native_compute), no axioms (Print Assumptions captured per run); "
           "hand-written Gallina model tied to /repo by the differential correspondence run; harness generators, "
           "drivers and the Gallina literal printer")

# one JSON file per claimed property: harness/manifest.d/Cxx.json
# {property_id, text, note_extra, technique, design_ref}
CHECKS = {}
# only the checks integrated by the lead (file ENABLED, one id per line) are claimed
ENABLED = set((ROOT / "harness" / "manifest.d" / "ENABLED").read_text().split())
for f in sorted((ROOT / "harness" / "manifest.d").glob("C*.json")):
    if f.stem not in ENABLED:
        continue
    e = json.loads(f.read_text())
    CHECKS[e["property_id"]] = (e["text"], BASE_TB + "; " + e["note_extra"], e["technique"], e["design_ref"])

PENDING_REASON = "check not built yet in this revision (planned, see DESIGN.md section 10); not claimed"


def main():
    checks = []
    for pid, (text, note, tech, ref) in sorted(CHECKS.items()):
        checks.append(dict(
            property_id=pid,
            quick_cmd=f"./check {pid} --tier quick",
            thorough_cmd=f"./check {pid} --tier thorough",
            evidence_file=f"/verif/evidence/{pid}.json",
            replay_cmd_template=f"./check {pid} --replay {{path}}",
            engine="coq-model+correspondence",
            level_claimed=dict(category="proof", text=text, design_ref=ref),
            level_note=note,
            technique=tech,
        ))
    na = [dict(property_id=p, reason=PENDING_REASON) for p in sorted(TITLES) if p not in CHECKS]
    m = dict(
        version=1,
        setup_cmd="cd coq && coq_makefile -f _CoqProject -o Makefile && make -j16",
        hooks=dict(guard="EXPERIMAESTRO_PYTHON_VERIF", enable="no source hooks: instrumentation is applied from the harness at run time (env EXPERIMAESTRO_PYTHON_VERIF=1 is set for drivers, unused by /repo)",
                   baseline_off_cmd="cd /repo && /venv/bin/python -m pytest -ra -q -p no:cacheprovider --timeout=900 --continue-on-collection-errors",
                   source_commits=[], add_only=True),
        engines=[dict(name="coq-model+correspondence", path="/verif/coq + /verif/harness",
                      serves_properties=sorted(CHECKS),
                      kind_free_text="Coq 8.16 theorems on executable Gallina models; models run inside coqc (vm_compute) against the real implementation on generated inputs/schedules/histories")],
        checks=checks,
        notes="fix: commits in /repo: see known_findings.json (status fixed).",
        not_applicable=na,
    )
    (ROOT / "MANIFEST.json").write_text(json.dumps(m, indent=1))


if __name__ == "__main__":
    main()
