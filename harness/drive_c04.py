"""Driver for C04: the scheduler checks share one controlled driver (drive_c06.py / loopctl.py)."""
import runpy
import os
runpy.run_path(os.path.join(os.path.dirname(os.path.abspath(__file__)), "drive_c06.py"), run_name="__main__")
