"""Directed probes on the implementation for configuration-valued defaults (a family outside the Coq identifier
model).  Output: one JSON document on the last line."""
import json
import shutil
import sys
import tempfile

from experimaestro import experiment
from experimaestro.scheduler.workspace import RunMode


def main():
    json.load(sys.stdin)
    from vpk import cfgdefault as m
    out = {}
    wd = tempfile.mkdtemp(prefix="xpmverif-cfgdef-")
    try:
        with experiment(wd, "cfgdef", port=-1, run_mode=RunMode.DRY_RUN):
            fid = lambda c: c.__xpm__.full_identifier.all.hex()
            # C02: a Meta parameter of a sub-configuration that otherwise equals the (configuration-valued) default
            out["c02_default"] = fid(m.Holder())
            out["c02_same_as_default"] = fid(m.Holder(sub=m.A(x=1)))
            out["c02_meta_param_differs"] = fid(m.Holder(sub=m.A(x=1, verbose=True)))
            # C03: a task output equal to the default: the producing task is signature relevant
            out["c03_output_of_e1"] = fid(m.Holder(sub=m.Prod(e=1).submit(run_mode=RunMode.DRY_RUN)))
            out["c03_output_of_e2"] = fid(m.Holder(sub=m.Prod(e=2).submit(run_mode=RunMode.DRY_RUN)))
            # C14 / C17: the identifier before and after sealing, and where the generated paths go
            t = m.TD()
            out["c14_before"] = fid(t)
            t.submit(run_mode=RunMode.DRY_RUN)
            job = t.__xpm__.job
            out["c14_after"] = fid(t)
            out["c14_jobdir"] = job.path.name
            out["c17_nested_path_jobdir"] = t.a.p.relative_to(job.path.parent).parts[0] if job.path.parent in t.a.p.parents else "?"
    finally:
        shutil.rmtree(wd, ignore_errors=True)
    sys.stderr = open("/dev/null", "w")
    print(json.dumps(out))


if __name__ == "__main__":
    main()
