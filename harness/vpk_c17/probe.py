"""Directed scenarios for C17 (not part of the generated schema).

A task parameter whose DEFAULT VALUE is a configuration that has a generated path: the identifier skips a
parameter equal to its default, and that comparison looks at the generated value once it is set, so the
task's identifier - hence the job directory - changes while the task is being sealed (known finding on the
identifier side; the generator of check_c17 never produces configuration-valued defaults)."""
from pathlib import Path

from experimaestro import Config, Meta, Param, PathGenerator, Task, field


class DLeaf(Config):
    x: Param[int] = 0
    p: Meta[Path] = field(default_factory=PathGenerator("p.txt"))


class TDefault(Task):
    a: Param[DLeaf] = DLeaf(x=1)
    out: Meta[Path] = field(default_factory=PathGenerator("out.txt"))

    def execute(self):
        pass


class TDefault2(Task):
    """two jobs of one class, both leaving `a` to its default: each instance must hold its own copy of the default
    configuration (TypeConfig.__init__ clones defaults); a shared object would be sealed by the first submit, under
    the first job's directory"""
    y: Param[int] = 0
    a: Param[DLeaf] = DLeaf(x=1)
    out: Meta[Path] = field(default_factory=PathGenerator("out.txt"))

    def execute(self):
        pass


# ---- what the identifier ignores but the Sealer follows (open findings, directed probes) --------------
from typing import Optional  # noqa: E402

from experimaestro import Annotated, LightweightTask, pathgenerator  # noqa: E402


class PLeaf(Config):
    x: Param[int]
    path: Annotated[Path, pathgenerator("f.txt")]


class TIgnored(Task):
    """m is ignored by the identifier (Meta) and declared before p: a configuration held by both is placed
    under out/m"""
    m: Meta[Optional[PLeaf]] = None
    p: Param[PLeaf]

    def execute(self):
        pass


class PHolder(Config):
    y: Param[int]


class PState(LightweightTask):
    v: Param[int] = 0
    state: Annotated[Path, pathgenerator("state.pt")]

    def execute(self):
        pass


class TAttach(Task):
    """the full identifier hashes the set of the pre-tasks of the whole graph: it does not say whether a or b
    carries the pre-task"""
    a: Param[PHolder]
    b: Param[PHolder]

    def execute(self):
        pass


# ---- the job identifier changing after the paths were generated (mark_output), a failed first submit ------
class PModel(Config):
    n: Param[int]


class TLearn(Task):
    """returns dep(self.model): given the output of another TLearn, marking overwrites the model's task link"""
    model: Param[PModel]
    epochs: Param[int]
    log: Meta[Path] = field(default_factory=PathGenerator("log.txt"))

    def task_outputs(self, dep):
        return dep(self.model)

    def execute(self):
        pass


class PLoader(LightweightTask):
    model: Param[PModel]
    cache: Annotated[Path, pathgenerator("cache.bin")]

    def execute(self):
        pass


class TLearnSub(Task):
    """no generated parameter of its own; a pre-task / init task holds the model it returns"""
    sub: Param[PLeaf]
    model: Param[PModel]

    def task_outputs(self, dep):
        return dep(self.model)

    def execute(self):
        pass


def _named(context, config):
    return config.name + ".txt"


class TNamed(Task):
    """the generator raises while name is None: the first submit fails after `sub` was sealed"""
    sub: Param[PLeaf]
    name: Param[Optional[str]] = None
    out: Annotated[Path, pathgenerator(_named)]

    def execute(self):
        pass
