"""Schema library for C17: classes with pathgenerator parameters at every position."""
from pathlib import Path
from typing import Dict, List, Optional

from experimaestro import Annotated, Config, LightweightTask, Param, Task, pathgenerator


class Leaf(Config):
    v: Param[int] = 0
    p: Annotated[Path, pathgenerator("o.txt")]


class Two(Config):
    """two distinct names, and one name used twice (same path twice, by design)"""
    v: Param[int] = 0
    c: Param[Optional[Config]] = None
    p1: Annotated[Path, pathgenerator("a.txt")]
    p2: Annotated[Path, pathgenerator("b.txt")]
    p3: Annotated[Path, pathgenerator("a.txt")]


def _fn_name(context, config):
    return "fn.bin"


class FnGen(Config):
    """file name given by a function"""
    v: Param[int] = 0
    p: Annotated[Path, pathgenerator(_fn_name)]


class NoGen(Config):
    v: Param[int] = 0
    c: Param[Optional[Config]] = None
    l: Param[List[Config]] = []


class Node(Config):
    v: Param[int] = 0
    c: Param[Optional[Config]] = None
    c2: Param[Optional[Config]] = None
    l: Param[List[Config]] = []
    d: Param[Dict[str, Config]] = {}
    ll: Param[List[List[Config]]] = []
    dl: Param[Dict[str, List[Config]]] = {}
    p: Annotated[Path, pathgenerator("o.txt")]
    q: Annotated[Path, pathgenerator("out")]


class Pre(LightweightTask):
    v: Param[int] = 0
    c: Param[Optional[Config]] = None
    p: Annotated[Path, pathgenerator("pre.txt")]

    def execute(self):
        pass


class Out(Config):
    """created by Producer.task_outputs"""
    v: Param[int] = 0
    src: Param[Optional[Config]] = None
    p: Annotated[Path, pathgenerator("out.txt")]


class Producer(Task):
    v: Param[int] = 0
    c: Param[Optional[Config]] = None
    p: Annotated[Path, pathgenerator("prod.txt")]

    def task_outputs(self, dep):
        return dep(Out(v=self.v, src=self.c))

    def execute(self):
        pass


class T(Task):
    v: Param[int] = 0
    c: Param[Optional[Config]] = None
    c2: Param[Optional[Config]] = None
    l: Param[List[Config]] = []
    d: Param[Dict[str, Config]] = {}
    ll: Param[List[List[Config]]] = []
    dl: Param[Dict[str, List[Config]]] = {}
    p: Annotated[Path, pathgenerator("out")]
    q: Annotated[Path, pathgenerator("o.txt")]

    def execute(self):
        pass


class Clamp(Config):
    """__validate__ changes a parameter that enters the identifier (only above a bound)"""
    v: Param[int] = 0
    c: Param[Optional[Config]] = None
    p: Annotated[Path, pathgenerator("clamp.txt")]

    def __validate__(self):
        if self.v > 50:
            self.v = 16


class TClamp(Task):
    """a task whose __validate__ clamps one of its own parameters"""
    v: Param[int] = 0
    c: Param[Optional[Config]] = None
    c2: Param[Optional[Config]] = None
    l: Param[List[Config]] = []
    d: Param[Dict[str, Config]] = {}
    p: Annotated[Path, pathgenerator("out")]
    q: Annotated[Path, pathgenerator("o.txt")]

    def __validate__(self):
        if self.v > 50:
            self.v = 16

    def execute(self):
        pass


CLASSES = {c.__name__: c for c in (Leaf, Two, FnGen, NoGen, Node, Pre, Out, Producer, T, Clamp, TClamp)}

# declaration order of the (argument, file name) pairs, as the harness expects it; the driver
# reports the order read off the real ObjectType.arguments and the check compares both
GENS = {
    "Leaf": [("p", "o.txt")],
    "Two": [("p1", "a.txt"), ("p2", "b.txt"), ("p3", "a.txt")],
    "FnGen": [("p", "fn.bin")],
    "NoGen": [],
    "Node": [("p", "o.txt"), ("q", "out")],
    "Pre": [("p", "pre.txt")],
    "Out": [("p", "out.txt")],
    "Producer": [("p", "prod.txt")],
    "T": [("p", "out"), ("q", "o.txt")],
    "Clamp": [("p", "clamp.txt")],
    "TClamp": [("p", "out"), ("q", "o.txt")],
}
