"""Implementation driver for C11 (and, shared, C05): runs scenarios on the real implementation.

stdin: {"scenarios": [...], "base": scratch dir, "workers": n}; last stdout line: JSON list of outcomes.
Every scenario starts real experiment processes (harness/vpk_jobdir/xpdriver.py) that import
experimaestro from $VERIF_REPO/src; see harness/vpk_jobdir/orch.py."""
import json
import os
import sys
from pathlib import Path

from vpk_jobdir import orch


def main():
    payload = json.load(sys.stdin)
    repo = os.environ.get("VERIF_REPO", "/repo")
    harness = str(Path(__file__).resolve().parent)
    outs = orch.run_all(payload["scenarios"], payload["base"], repo, harness, workers=payload.get("workers", 6),
                        deadline=payload.get("deadline"))
    print(json.dumps(outs))


if __name__ == "__main__":
    main()
