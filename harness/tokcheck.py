"""Shared by check_c08.py and check_c09.py: scenario generator, oracle restated over the
implementation's observables, rendering to Gallina (corr/TokenFSCorr.v)."""
import json
import os
from concurrent.futures import ThreadPoolExecutor

from vcommon import run_impl, gz, gnat, glist, gopt, gbool, InternalError

HEADER = ("From Coq Require Import ZArith List Bool.\nFrom XV Require Import model.TokenFS corr.TokenFSCorr.\n"
          "Import ListNotations.\nOpen Scope Z_scope.\n")

PHASE = dict(idle=0, creating=1, holding=2, running=3, ended=4, done=5)
# scenario observables: jobs entries are [phase, dependency status, orphan, pid file exists]


# --------------------------------------------------------------------------- generator
def gen_fs(rng, tier_thorough=False):
    total = rng.choice([1, 2, 2, 3, 3, 4])
    nprocs = rng.choice([1, 2, 2, 2, 3, 3])
    nj = rng.randint(1, 6)
    jobs = []
    for _ in range(nj):
        c = rng.choice([1, 1, 1, 1, 2, 2, 3, total, max(1, total - 1), total + 1])
        if total >= 3 and rng.random() < 0.4:
            c = 1
        jobs.append(dict(p=rng.randrange(nprocs), c=min(c, 5)))
    prof = rng.choice(["mixed", "mixed", "slowevents", "fastevents", "window", "crash"])
    w = {}
    if prof == "slowevents":
        w = dict(deliver=2, fire=2)
    elif prof == "fastevents":
        w = dict(deliver=30, fire=12)
    elif prof == "window":
        w = dict(write=2, deliver=14)
    elif prof == "crash":
        w = dict(kill=4, start=8, startrace=8, jobkill=4, write=4)
    nsteps = rng.choice([40, 60, 90] if not tier_thorough else [60, 90, 140])
    return dict(kind="fs", total=total, nprocs=nprocs, jobs=jobs, seed=rng.randrange(10 ** 9), nsteps=nsteps,
                maxkill=dict(crash=3).get(prof, rng.choice([0, 0, 1, 2])), drain=rng.choice([0, 25, 40]),
                weights=w, profile=prof)


def gen_inproc(rng):
    ptotal = rng.choice([1, 2, 3, 4])
    ftotal = rng.choice([1, 2, 3, 4])
    nj = rng.randint(2, 6)
    jobs = []
    for _ in range(nj):
        deps = []
        k = rng.choice(["p", "f", "pf", "fp", "pf"])
        for which in k:
            tot = ptotal if which == "p" else ftotal
            deps.append([which, rng.choice([1, 1, 2, tot, max(1, tot - 1), tot + 1])])
        jobs.append(dict(deps=deps))
    ops = []
    for _ in range(rng.choice([10, 20, 30])):
        ops.append([rng.choice(["start", "start", "finish"]), rng.randrange(nj)])
    ops += [["finish", i] for i in range(nj)]
    return dict(kind="inproc", ptotal=ptotal, ftotal=ftotal, jobs=jobs, ops=ops)


# --------------------------------------------------------------------------- running
def run_batches(driver, scenarios, scratch, per=12, timeout=40):
    """16 driver processes in parallel; each scenario runs in its own forked process."""
    for sc in scenarios:
        sc["scratch"] = str(scratch)
    batches = [scenarios[i:i + per] for i in range(0, len(scenarios), per)]

    def one(b):
        return run_impl(driver, dict(scenarios=b, timeout=timeout), timeout=timeout * len(b) + 60)

    with ThreadPoolExecutor(max_workers=16) as ex:
        res = list(ex.map(one, batches))
    out = []
    for r in res:
        out.extend(r)
    return out


# --------------------------------------------------------------------------- oracle (fs)
def quiescent(obs):
    for pr in obs["procs"]:
        if pr is None:
            continue
        if pr["watch"] or pr.get("armed") or (pr["obs"] and pr["evq"]):
            return False
    for ph, st, orph, _pid in obs["jobs"]:
        if ph in ("creating", "holding", "running"):
            return False
        if ph == "ended" and not orph:
            return False
    return True


def oracle_fs(sc, res, which):
    """The property restated over what the real objects show after every step.
    Returns a list of (key, what, step index).  `which` in {"C08", "C09"}."""
    out = []
    total = sc["total"]
    dead_obs = False
    stale_deleted = False   # once a live holding was deleted by a stale watcher, overshoot is its consequence
    reclaimed_release = set()
    for k, st in enumerate(res["steps"]):
        o = st["obs"]
        if st["res"].startswith("raised") and st["op"][0] in ("deliver", "deliverrace"):
            dead_obs = True
            if which == "C09":
                empty_seen = k > 0 and any(c < 0 for _, c in res["steps"][k - 1]["obs"]["disk"])
                if st["res"] == "raised:ValueError" and empty_seen and st["op"][0] == "deliver":
                    out.append(("C09:observer-dies:unparsable-token-file",
                                "a filesystem event handler raised %s on a token file that is created but not written "
                                "yet: the watchdog observer thread of that process ends" % st["res"][7:], k))
                else:
                    out.append(("C09:observer-dies:handler-raises",
                                "a filesystem event handler raised %s (step %s): the watchdog observer thread of that "
                                "process ends, it never sees another release" % (st["res"][7:], st["op"]), k))
        elif st["res"].startswith("raised:ValueError") and st["op"][0] in ("start", "startrace", "acquire", "release") \
                and k > 0 and any(c < 0 for _, c in res["steps"][k - 1]["obs"]["disk"]):
            if which == "C09":
                out.append(("C09:token-bricked-by-half-created-file",
                            "%s raised ValueError: a scheduler was killed between open() and write() of its token "
                            "file, the empty file makes _update raise in every process from then on" % (st["op"],), k))
        elif st["res"].startswith("raised"):
            out.append((which + ":exception:" + st["op"][0], "unexpected exception %s in %s" % (st["res"], st["op"]), k))
        disk = dict((n, c) for n, c in o["disk"])
        if st["op"][0] == "release" and k > 0 and \
                not any(n == "j%d.token" % st["op"][2] for n, _ in res["steps"][k - 1]["obs"]["disk"]):
            reclaimed_release.add(st["op"][1])   # this process released a holding whose file was already gone
        if st["op"][0] in ("kill", "start"):
            reclaimed_release.discard(st["op"][1])
        if st["op"][0] == "firedelete" and k > 0:
            i = st["op"][2]
            prev = res["steps"][k - 1]["obs"]
            if prev["jobs"][i][0] in ("creating", "holding", "running") and \
                    any(n == "j%d.token" % i for n, _ in prev["disk"]) and "j%d.token" % i not in disk:
                stale_deleted = True
                out.append((which + ":stale-watcher-deletes-live-token-file",
                            "a watcher thread that had left the job lock of job %d earlier deleted the token file of "
                            "its next start (job %s): the job holds %d uncounted"
                            % (i, prev["jobs"][i][0], sc["jobs"][i]["c"]), k))
        if which == "C08":
            # weighted sum of the holdings recorded in the directory (a file being created stands for
            # the request of its job)
            w = 0
            for n, c in disk.items():
                w += c if c >= 0 else sc["jobs"][int(n[1:-6])]["c"]
            if w > total:
                out.append(("C08:capacity-exceeded-on-disk", "token files hold %d > total %d" % (w, total), k))
            # jobs between launch and exit, by request
            run = sum(sc["jobs"][i]["c"] for i, (ph, _, _, _) in enumerate(o["jobs"]) if ph == "running")
            if run > total and not stale_deleted:
                out.append(("C08:capacity-exceeded-running", "running jobs hold %d > total %d" % (run, total), k))
            for i, (ph, _, _, _) in enumerate(o["jobs"]):
                if ph in ("holding", "running") and disk.get("j%d.token" % i, -1) != sc["jobs"][i]["c"] and not stale_deleted:
                    out.append(("C08:running-job-without-token-file",
                                "job %d is %s but its token file is missing or wrong" % (i, ph), k))
        if which == "C09":
            if st["op"][0] in ("fire", "firedelete") and "j%d.token" % st["op"][2] in disk and \
                    not (st["op"][0] == "fire" and "j%d.token" % st["op"][2] in (o["procs"][st["op"][1]].get("armed") or [])):
                i = st["op"][2]
                out.append(("C09:watcher-leaves-token-file",
                            "a watcher thread for the token file of job %d finished (job %s, pid file %s) and the file "
                            "is still there" % (i, o["jobs"][i][0], "left behind" if o["jobs"][i][3] else "absent"), k))
            if st["op"][0] == "release" and st["res"] == "ok":
                p, i = st["op"][1], st["op"][2]
                pr = o["procs"][p]
                name = "j%d.token" % i
                w = sum(c for c in disk.values() if c >= 0)
                if name in disk or any(n == name for n, _ in pr["cache"]) or pr["avail"] != total - w:
                    out.append(("C09:release-leaves-holding", "after release of job %d its file / cache entry remains "
                                "or available (%d) is not total - holdings (%d)" % (i, pr["avail"], total - w), k))
            if quiescent(o):
                for n in disk:
                    i = int(n[1:-6])
                    if not o["jobs"][i][2]:
                        out.append(("C09:idle-token-file-left", "token file %s left at quiescence" % n, k))
                    for p, pr in enumerate(o["procs"]):
                        if pr is not None and pr["obs"] and any(x == n for x, _ in pr["cache"]):
                            out.append(("C09:orphan-file-known-not-reclaimed",
                                        "process %d knows the leftover file %s but has no watcher for it" % (p, n), k))
                for p, pr in enumerate(o["procs"]):
                    if pr is None:
                        continue
                    if pr["obs"] and pr["avail"] > total:
                        out.append(("C09:idle-available-exceeds-total",
                                    "idle token shows available=%d, total=%d" % (pr["avail"], total), k))
                    elif pr["obs"] and pr["avail"] != total:
                        out.append(("C09:idle-available-below-total",
                                    "idle token shows available=%d, total=%d" % (pr["avail"], total), k))
                    for i, (ph, stt, orph, _pid) in enumerate(o["jobs"]):
                        if sc["jobs"][i]["p"] == p and ph == "idle" and not orph and stt == "WAIT" \
                                and 1 <= sc["jobs"][i]["c"] <= total:
                            if pr["obs"]:
                                cause = "release-after-reclaim" if p in reclaimed_release else "observer-alive"
                                out.append(("C09:waiting-job-fits-at-quiescence:" + cause,
                                            "job %d (request %d <= total %d) is WAITING at quiescence, nothing pending, "
                                            "observer alive%s" % (i, sc["jobs"][i]["c"], total,
                                            "; its scheduler released a token whose file a watcher had already deleted"
                                            if cause == "release-after-reclaim" else ""), k))
                            # with a dead observer this is the consequence of the handler exception
                            # already reported at the step where it escaped
    del dead_obs
    seen = set()
    uniq = []
    for key, what, k in out:
        if key not in seen:
            seen.add(key)
            uniq.append((key, what, k))
    return uniq


def oracle_inproc(sc, res, which):
    out = []
    held = {}
    for k, st in enumerate(res["steps"]):
        kind, i = st["op"]
        if kind == "start" and st["res"] == "ok":
            held[i] = True
        if kind == "finish" and st["res"] == "ok":
            held.pop(i, None)
        o = st["obs"]
        ph = sum(c for i2 in held for w, c in sc["jobs"][i2]["deps"] if w == "p")
        fh = sum(c for i2 in held for w, c in sc["jobs"][i2]["deps"] if w == "f")
        if which == "C08":
            if ph > sc["ptotal"] or o["pavail"] < 0 or o["pavail"] + ph != sc["ptotal"]:
                out.append(("C08:inproc-capacity", "process token: available %d + held %d != total %d (or negative)"
                            % (o["pavail"], ph, sc["ptotal"]), k))
            if fh > sc["ftotal"] or sum(c for _, c in o["files"]) != fh:
                out.append(("C08:inproc-capacity-files", "file token: holders %d, files %s, total %d"
                            % (fh, o["files"], sc["ftotal"]), k))
        if which == "C09":
            if st["res"].startswith("abort") or kind == "finish":
                # everything taken by this start is given back
                if o["pavail"] + ph != sc["ptotal"] or o["favail"] + fh != sc["ftotal"]:
                    out.append(("C09:inproc-not-given-back", "after %s of job %d: p %d+%d/%d f %d+%d/%d"
                                % (st["res"], i, o["pavail"], ph, sc["ptotal"], o["favail"], fh, sc["ftotal"]), k))
            if not held and k == len(res["steps"]) - 1:
                if o["pavail"] != sc["ptotal"] or o["favail"] != sc["ftotal"] or o["files"]:
                    out.append(("C09:inproc-idle-not-full", "idle tokens show %d/%d and %d/%d, files %s"
                                % (o["pavail"], sc["ptotal"], o["favail"], sc["ftotal"], o["files"]), k))
    return out[:1]


# --------------------------------------------------------------------------- Gallina rendering
def g_name(n):
    return gnat(int(n[1:-6]))


def g_event(e):
    return "(%s %s)" % (dict(created="ECreated", modified="EModified", deleted="EDeleted")[e[0]], g_name(e[1]))


def g_label(op):
    k = op[0]
    if k == "start":
        return "Start %s" % gnat(op[1])
    if k == "kill":
        return "Kill %s" % gnat(op[1])
    if k == "acquire":
        return "Acquire %s %s" % (gnat(op[1]), gnat(op[2]))
    if k == "write":
        return "WriteF %s" % gnat(op[1])
    if k == "launch":
        return "Launch %s" % gnat(op[1])
    if k == "end":
        return "JobEnds %s %s" % (gnat(op[1]), gz(op[2]))
    if k == "jobkill":
        return "JobKilled %s" % gnat(op[1])
    if k == "startrace":
        return "StartRace %s %s" % (gnat(op[1]), gnat(op[2]))
    if k == "firedelete":
        return "FireDelete %s %s" % (gnat(op[1]), gnat(op[2]))
    if k == "resubmit":
        return "Resubmit %s %s" % (gnat(op[1]), gnat(op[2]))
    if k == "startmid":
        return "StartMid %s %s %s" % (gnat(op[1]), gnat(op[2]), gnat(op[3]))
    if k == "deliverrace":
        return "DeliverRace %s %s %s %s" % (gnat(op[1]), gnat(op[2]), gbool(op[3]), gnat(op[4]))
    if k == "release":
        return "Release %s %s" % (gnat(op[1]), gnat(op[2]))
    if k == "deliver":
        return "Deliver %s %s" % (gnat(op[1]), gnat(op[2]))
    if k == "fire":
        return "Fire %s %s" % (gnat(op[1]), gnat(op[2]))
    raise ValueError(k)


def g_res(r):
    return "RLockError" if r == "lockerror" else ("RRaised" if r.startswith("raised") else "ROk")


def g_obs(o):
    disk = glist("(%s, %s)" % (g_name(n), gz(c)) for n, c in o["disk"])
    procs = []
    for pr in o["procs"]:
        if pr is None:
            procs.append("None")
        else:
            procs.append("(Some (mkPO %s %s %s %s %s %s))" % (
                gz(pr["avail"]), glist("(%s, %s)" % (g_name(n), gz(c)) for n, c in pr["cache"]), gbool(pr["obs"]),
                glist(g_event(e) for e in pr["evq"]), glist(g_name(n) for n in pr["watch"]),
                glist(g_name(n) for n in pr.get("armed", []))))
    jobs = []
    for ph, st, orph, pid in o["jobs"]:
        stt = "None" if (st is None or ph != "idle") else "(Some %s)" % gbool(st == "OK")
        jobs.append("(%s, %s, %s, %s)" % (gnat(PHASE[ph]), stt, gbool(orph), gbool(pid)))
    return "(mkSO %s %s %s)" % (disk, glist(procs), glist(jobs))


def g_case(case):
    sc, res = case
    steps = glist("(%s, %s, %s)" % (g_label(st["op"]), g_res(st["res"]), g_obs(st["obs"])) for st in res["steps"])
    return "(%s, %s, %s,\n %s)" % (gz(sc["total"]), glist(gnat(j["p"]) for j in sc["jobs"]),
                                   glist(gz(j["c"]) for j in sc["jobs"]), steps)


def g_pcase(case):
    sc, res = case
    # count of the process-token dependency of each job (1 if none: never used)
    cnts = []
    for j in sc["jobs"]:
        c = [c for w, c in j["deps"] if w == "p"]
        cnts.append(c[0] if c else 1)
    tr = glist("(%s %s, %s, %s)" % ("PAcquire" if k == "acquire" else "PRelease", gnat(i), g_res(r), gz(av))
               for k, i, r, av in res["pops"])
    return "(%s, %s, %s)" % (gz(sc["ptotal"]), glist(gz(c) for c in cnts), tr)


# --------------------------------------------------------------------------- which member of the model family
# The three witness schedules of the refutation theorems of props/C09.v (observer_death, release_unnotified,
# idle_overfull).  Run on the tree under test they tell, for each of the three repairs, whether the tree
# behaves like the literal pinned code or like the repaired code; the correspondence then uses that variant
# of model/TokenFS.v (the C08 theorems hold for every variant, the C09 theorems for the repaired one).
W1 = dict(kind="fs", total=1, nprocs=2, jobs=[dict(p=0, c=1), dict(p=1, c=1)],
          steps=[["start", 0], ["start", 1], ["acquire", 0, 0], ["deliver", 1, 0], ["write", 0], ["acquire", 1, 1],
                 ["launch", 0], ["end", 0, 0], ["release", 0, 0], ["fire", 1, 0], ["deliver", 0, 0], ["deliver", 0, 0],
                 ["deliver", 0, 0]])
W2 = dict(kind="fs", total=1, nprocs=2, jobs=[dict(p=0, c=1), dict(p=0, c=1)],
          steps=[["start", 0], ["start", 1], ["acquire", 0, 0], ["write", 0], ["acquire", 0, 1], ["deliver", 1, 0],
                 ["deliver", 1, 0], ["launch", 0], ["end", 0, 0], ["fire", 1, 0], ["release", 0, 0], ["deliver", 0, 0],
                 ["deliver", 0, 0], ["deliver", 0, 0], ["deliver", 1, 0]])
W3 = dict(kind="fs", total=2, nprocs=2, jobs=[dict(p=0, c=1)],
          steps=[["start", 0], ["start", 1], ["acquire", 0, 0], ["write", 0], ["deliver", 1, 0], ["deliver", 1, 0],
                 ["launch", 0], ["end", 0, 0], ["release", 0, 0], ["deliver", 1, 0], ["fire", 1, 0], ["deliver", 0, 0],
                 ["deliver", 0, 0], ["deliver", 0, 0]])


W4 = dict(kind="fs", total=1, nprocs=2, jobs=[dict(p=0, c=1), dict(p=1, c=1)],
          steps=[["start", 0], ["acquire", 0, 0], ["write", 0], ["launch", 0], ["kill", 0], ["end", 0, 0], ["startrace", 1, 0]])


W5 = dict(kind="fs", total=1, nprocs=2, jobs=[dict(p=0, c=1), dict(p=1, c=1)],
          steps=[["start", 0], ["start", 1], ["acquire", 0, 0], ["kill", 0], ["deliver", 1, 0], ["start", 0]])
W6 = dict(kind="fs", total=1, nprocs=2, jobs=[dict(p=0, c=1), dict(p=1, c=1)],
          steps=[["start", 0], ["start", 1], ["acquire", 0, 0], ["write", 0], ["deliver", 1, 0], ["release", 0, 0],
                 ["fire", 1, 0], ["acquire", 0, 0], ["write", 0], ["launch", 0], ["firedelete", 1, 0], ["acquire", 1, 1],
                 ["write", 1], ["launch", 1]])


# three actors: the watcher of process 0 finishes while process 0 is inside an acquire; if that makes process 0
# lose token.lock, process 2 can acquire before process 0 has written its file (with exclusive locks the
# schedule stops being enabled at `acquire 2 2` and only its prefix is checked)
W7 = dict(kind="fs", total=2, nprocs=3, jobs=[dict(p=1, c=1), dict(p=0, c=1), dict(p=2, c=2)],
          steps=[["start", 1], ["acquire", 1, 0], ["write", 0], ["launch", 0], ["start", 0], ["start", 2], ["end", 0, 0],
                 ["acquire", 0, 1], ["fire", 0, 0], ["acquire", 2, 2], ["write", 1], ["write", 2], ["launch", 1], ["launch", 2]])


def detect_variant(driver, scratch):
    """(parse_fix, count_fix, notify_fix, startup_recount_fix, half_created_fix, watcher_fix) of the tree under test; a probe that cannot be run as scripted
    (the tree behaves differently for another reason) is inconclusive and counts as repaired: the
    correspondence and the oracle then decide."""
    import copy
    scs = [copy.deepcopy(W1), copy.deepcopy(W2), copy.deepcopy(W3), copy.deepcopy(W4), copy.deepcopy(W5), copy.deepcopy(W6)]
    scs[5]["steps"] = scs[5]["steps"][:7]
    scs[0]["steps"] = scs[0]["steps"][:4]
    scs[1]["steps"] = scs[1]["steps"][:11]
    scs[2]["steps"] = scs[2]["steps"][:5]
    r1, r2, r3, r4, r5, r6 = run_batches(driver, scs, scratch, per=1, timeout=40)
    v_parse = v_count = v_notify = v_watch = v_empty = v_fire = True
    try:
        if len(r1["steps"]) == 4:
            v_parse = not r1["steps"][3]["res"].startswith("raised")
        if len(r2["steps"]) == 11:
            v_notify = r2["steps"][10]["obs"]["jobs"][1][1] != "WAIT"
        if len(r3["steps"]) == 5:
            v_count = r3["steps"][4]["obs"]["procs"][1]["avail"] != 2
        if len(r4["steps"]) == 7:
            v_watch = r4["steps"][6]["obs"]["procs"][1]["avail"] != 0
        if len(r5["steps"]) == 6:
            v_empty = not r5["steps"][5]["res"].startswith("raised")
        if len(r6["steps"]) == 7:
            v_fire = not r6["steps"][6]["obs"]["procs"][1]["armed"]
    except Exception:  # noqa
        pass
    return (v_parse, v_count, v_notify, v_watch, v_empty, v_fire)


def checker_name(variant):
    return "(check_case_v (mkV %s %s %s %s %s %s))" % tuple(gbool(b) for b in variant)


# --------------------------------------------------------------------------- shrinking
def explicit(sc, res, upto=None):
    """The same scenario as an explicit step list (replayable)."""
    steps = [st["op"] for st in res["steps"]]
    if upto is not None:
        steps = steps[:upto + 1]
    out = dict(kind="fs", total=sc["total"], nprocs=sc["nprocs"], jobs=sc["jobs"], steps=steps)
    return out


def shrink_fs(driver, sc, key, which, scratch, rounds=12):
    """Delete schedule steps while the oracle still reports `key` (each candidate is re-run on the
    implementation; a candidate whose steps are no longer enabled is rejected)."""
    cur = sc
    for _ in range(rounds):
        n = len(cur["steps"])
        if n <= 2:
            break
        cands = []
        for i in range(n - 1):  # keep the last step (where the violation shows)
            c2 = dict(cur)
            c2["steps"] = cur["steps"][:i] + cur["steps"][i + 1:]
            cands.append(c2)
        res = run_batches(driver, cands, scratch, per=max(1, (len(cands) + 15) // 16), timeout=30)
        nxt = None
        for c2, r in zip(cands, res):
            if r.get("error"):
                continue
            if any(k == key for k, _, _ in oracle_fs(c2, r, which)):
                nxt = c2
                break
        if nxt is None:
            break
        cur = nxt
    cur = dict(cur)
    cur.pop("scratch", None)
    return cur


# --------------------------------------------------------------------------- directed probes
def probe_findings(c, which, driver):
    """Directed situations (tokctl.run_probe): API-level inputs and races the schedules do not generate."""
    r = run_impl(driver, dict(scenarios=[dict(kind="probe", scratch=str(c.scratch()))], timeout=60), timeout=120)[0]
    c.extra["probes"] = r
    c.evaluations += len(r) if isinstance(r, dict) else 0
    if not isinstance(r, dict) or r.get("error"):
        raise InternalError("probe scenario failed: %s" % (r,))
    sc = dict(kind="probe")
    if which == "C08":
        t = r.get("two_requests", {})
        if "files" in t and sum(int(float(x)) for _, x in t["files"]) != t["held"]:
            c.violation("C08:token-file-named-after-job-identifier-alone",
                        "one job with two requests (2 and 1) on the same file token holds 3, the directory records %s: after "
                        "the next recount the token shows %d available of %d" % (t["files"], t["available_after_recount"], t["total"]),
                        dict(scenario=sc, probe="two_requests", observed=t))
        t = r.get("same_identifier", {})
        if "files" in t and len(t["files"]) < 2:
            c.violation("C08:token-file-named-after-job-identifier-alone",
                        "two jobs with the same identifier (two workspaces sharing the token) hold 1 + 1, the directory has "
                        "one file %s; the release of the first removes it: %s" % (t["files"], t["files_after_first_release"]),
                        dict(scenario=sc, probe="same_identifier", observed=t))
        for name in ("float_request", "negative_request"):
            t = r.get(name, {})
            if "files" in t and t.get("rejected") is None and \
                    (not t["files_after_other_process_recount"] or t["available_in_other"] > t["total"]):
                c.violation("C08:request-not-a-non-negative-integer",
                            "a token request of %s is accepted: file %s, after the recount of another process the files are %s "
                            "and it sees %s available of %d" % (t["count"], t["files"], t["files_after_other_process_recount"],
                                                                t["available_in_other"], t["total"]),
                            dict(scenario=sc, probe=name, observed=t))
        t = r.get("newline_in_job_path", {})
        if "files" in t and (not t["files_after_other_process_recount"] or t["available_in_other"] >= t["total"]):
            c.violation("C08:token-file-unreadable:newline-in-job-path",
                        "a job whose path contains a newline holds 1: another process reads its token file as three lines, "
                        "takes it for unwritten and removes it (files after its recount: %s, it sees %d of %d available)"
                        % (t["files_after_other_process_recount"], t["available_in_other"], t["total"]),
                        dict(scenario=sc, probe="newline_in_job_path", observed=t))
    else:
        t = r.get("directory_named_token", {})
        if t.get("handler_raised"):
            c.violation("C09:observer-dies:directory-named-token",
                        "a token directory whose name ends in .token: on_modified raised %s on the directory event, "
                        "the observer thread ends" % t["handler_raised"],
                        dict(scenario=sc, probe="directory_named_token", observed=t))
        t = r.get("token_info_truncated", {})
        if t.get("handler_raised"):
            c.violation("C09:observer-dies:unreadable-token-info",
                        "on_modified(token.info) raised %s while token.info was being rewritten by another process's "
                        "__init__ (truncate, then write): the observer thread ends" % t["handler_raised"],
                        dict(scenario=sc, probe="token_info_truncated", observed=t))
        t = r.get("process_handlers", {})
        if t.get("concurrent_caller_gets_handler") is False:
            c.violation("C09:watcher-dies:process-handlers-half-loaded",
                        "Process.handler('local') called while another thread is loading the handlers returns None: the "
                        "TokenFile.watch thread dies on its assertion, its token file is never reclaimed by this process",
                        dict(scenario=sc, probe="process_handlers", observed=t))
    for k, v in (r.items() if isinstance(r, dict) else []):
        c.count("probe:" + k)


# --------------------------------------------------------------------------- the check
def run_check(c, which):
    import vcommon
    driver = "drive_%s.py" % which.lower()
    quick = c.quick
    if os.environ.get("VERIF_TOK_NOBUILD"):
        c.gate()
    else:
        c.build()
    c.props()
    scratch = c.scratch()
    variant = detect_variant(driver, scratch)
    c.extra["tree_variant"] = dict(parse_fix=variant[0], count_fix=variant[1], notify_fix=variant[2], startup_recount_fix=variant[3],
                                   half_created_fix=variant[4], watcher_under_job_lock_fix=variant[5])
    missing_repairs = [n for n, v in zip(("parse", "count", "notify", "startup", "half_created", "watcher"), variant) if not v]
    fs_cases, in_cases = [], []
    if c.replay:
        rp = json.load(open(c.replay))["replay"]
        sc = rp.get("scenario", rp)
        if sc.get("kind") == "fs":
            fs_cases.append(sc)
        elif sc.get("kind") == "inproc":
            in_cases.append(sc)
        elif sc.get("kind") in ("realobs", "stress"):
            fs_cases = []
        nfs = nin = 0
    else:
        gold = vcommon.ROOT / "golden" / ("%s.json" % which.lower())
        if gold.exists():
            for g in json.load(open(gold)):
                (fs_cases if g.get("kind", "fs") == "fs" else in_cases).append(g)
        nfs = 240 if quick else 2200
        nin = 60 if quick else 400
    for _ in range(nfs):
        fs_cases.append(gen_fs(c.rng, not quick))
    for sc in fs_cases:
        if sc.get("steps") is None:
            # on a tree without fixes/C09-4 a kill inside the create window bricks the token: there the
            # crash point is only exercised by the witness schedule W5 (golden), not by the random ones
            sc["killc"] = bool(variant[4])
    for _ in range(nin):
        in_cases.append(gen_inproc(c.rng))

    res_fs = run_batches(driver, fs_cases, scratch, per=12 if quick else 40, timeout=40) if fs_cases else []
    res_in = run_batches(driver, in_cases, scratch, per=12 if quick else 40, timeout=40) if in_cases else []
    for sc, r in list(zip(fs_cases, res_fs)) + list(zip(in_cases, res_in)):
        if r.get("error"):
            if sc.get("steps") is not None and "not enabled in the harness" in r["error"] and not r.get("timeout"):
                # a scripted (golden / replayed) schedule that the tree no longer follows: the executed
                # prefix is still checked by the oracle and the correspondence
                c.count("scripted-schedule-diverged")
                r["error"] = None
                continue
            raise InternalError("scenario failed in the harness: %s\n%s" % (r["error"], json.dumps(sc)[:600]))

    # ---- oracle on the implementation's observables
    shrunk = {}
    for sc, r in zip(fs_cases, res_fs):
        c.evaluations += len(r["steps"])
        c.count("procs=%d" % sc["nprocs"])
        c.count("total=%d" % sc["total"])
        c.count("jobs=%d" % len(sc["jobs"]))
        c.count("profile:" + sc.get("profile", "scripted"))
        maxfiles = 0
        for st in r["steps"]:
            c.count("op:" + st["op"][0])
            if st["res"] != "ok":
                c.count("result:" + st["res"])
            maxfiles = max(maxfiles, len(st["obs"]["disk"]))
            if st["op"][0] == "deliver" and any(cc < 0 for _, cc in st["obs"]["disk"]):
                c.count("event-delivered-inside-create-window")
        c.count("max-files-on-disk=%d" % maxfiles)
        ends_q = bool(r["steps"]) and quiescent(r["steps"][-1]["obs"])
        c.count("ends-quiescent=%s" % ends_q)
        ops = set(st["op"][0] for st in r["steps"])
        refused = any(st["res"] == "lockerror" for st in r["steps"])
        if which == "C08":
            nontriv = maxfiles >= 2 or refused
        else:
            nontriv = "release" in ops and ends_q and (sc["nprocs"] >= 2 or "kill" in ops or "fire" in ops)
        if nontriv:
            c.nontrivial.add(json.dumps([sc["total"], sc["nprocs"], sc["jobs"], [st["op"] for st in r["steps"]]]))
        for key, what, k in oracle_fs(sc, r, which):
            if key in shrunk:
                continue
            ex = explicit(sc, r, k)
            small = shrink_fs(driver, ex, key, which, scratch) if not c.replay else ex
            shrunk[key] = small
            c.violation(key, what, dict(scenario=small, found_at_step=k, steps_before_shrinking=k + 1))
    for sc, r in zip(in_cases, res_in):
        c.evaluations += len(r["steps"])
        c.count("inproc:jobs=%d" % len(sc["jobs"]))
        for st in r["steps"]:
            c.count("inproc:" + st["op"][0] + ":" + st["res"].split(":")[0])
        if any(st["res"].startswith("abort") for st in r["steps"]) and len(r["pops"]) >= 2:
            c.nontrivial.add(json.dumps([sc["ptotal"], sc["ftotal"], sc["jobs"], sc["ops"]]))
        for key, what, k in oracle_inproc(sc, r, which):
            sc2 = dict(sc)
            sc2.pop("scratch", None)
            sc2["ops"] = sc["ops"][:k + 1]
            c.violation(key, what, dict(scenario=sc2, found_at_step=k))

    # the theorems other than the refutations are about the repaired code (C08: the repaired watcher): every
    # repair the tree lacks must have been reported above with a failing input (VIOLATION / KNOWN-FINDING)
    reported = set(v["key"] for v in c.violations)
    need = dict(parse=["C09:observer-dies:unparsable-token-file"], count=["C09:idle-available-exceeds-total"],
                notify=["C09:waiting-job-fits-at-quiescence:release-after-reclaim"],
                startup=["C09:idle-available-below-total", "C09:waiting-job-fits-at-quiescence:observer-alive"],
                half_created=["C09:token-bricked-by-half-created-file"],
                watcher=[which + ":stale-watcher-deletes-live-token-file"])
    relevant = missing_repairs if which == "C09" else [m for m in missing_repairs if m == "watcher"]
    silent = [m for m in relevant if not any(k in reported for k in need[m])]
    if not c.replay:
        c.obligations.append(dict(name="tie:tree-behaves-like-the-repaired-model", kind="tie", ok=not silent,
                                  detail="" if not silent else "the tree lacks the repairs %s and no failing input "
                                  "was produced for them" % (silent,)))

    if not c.replay or json.load(open(c.replay))["replay"].get("scenario", {}).get("kind") == "probe":
        probe_findings(c, which, driver)

    # ---- correspondence inside Coq
    cases = list(zip(fs_cases, res_fs))
    if cases:
        shard = max(5, (len(cases) + 15) // 16) if quick else 40
        bad = c.corr_shards("fs", HEADER, cases, g_case, checker_name(variant), shard=shard, timeout=1500)
        c.extra["disagreeing_traces"] = [explicit(*cases[i]) for i in bad[:3]]
    pcases = [(sc, r) for sc, r in zip(in_cases, res_in) if r["pops"]]
    if pcases:
        c.corr_shards("inproc", HEADER, pcases, g_pcase, "check_pcase", shard=max(20, (len(pcases) + 3) // 4))
    c.samples = [dict(total=sc["total"], nprocs=sc["nprocs"], jobs=sc["jobs"],
                      schedule=[st["op"] for st in r["steps"]][:40],
                      last=r["steps"][-1]["obs"] if r["steps"] else None) for sc, r in cases[:3]]
    return fs_cases, res_fs
