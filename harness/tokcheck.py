"""Shared by check_c08.py and check_c09.py: scenario generator, oracle restated over the
implementation's observables, rendering to Gallina (corr/TokenFSCorr.v)."""
import json
import os
from concurrent.futures import ThreadPoolExecutor

from vcommon import run_impl, gz, gnat, glist, gopt, gbool, InternalError

HEADER = ("From Coq Require Import ZArith List Bool.\nFrom XV Require Import model.TokenFS corr.TokenFSCorr.\n"
          "Import ListNotations.\nOpen Scope Z_scope.\n")

PHASE = dict(idle=0, creating=1, holding=2, running=3, ended=4, done=5)


# --------------------------------------------------------------------------- generator
def gen_fs(rng, tier_thorough=False):
    total = rng.choice([1, 1, 2, 2, 3, 4])
    nprocs = rng.choice([1, 2, 2, 2, 3, 3])
    nj = rng.randint(1, 6)
    jobs = []
    for _ in range(nj):
        c = rng.choice([1, 1, 1, 2, 2, 3, total, max(1, total - 1), total + 1])
        jobs.append(dict(p=rng.randrange(nprocs), c=min(c, 5)))
    prof = rng.choice(["mixed", "mixed", "slowevents", "fastevents", "window", "crash"])
    w = {}
    if prof == "slowevents":
        w = dict(deliver=2, fire=2)
    elif prof == "fastevents":
        w = dict(deliver=30, fire=12)
    elif prof == "window":
        w = dict(write=2, deliver=14)
    elif prof == "crash":
        w = dict(kill=3, start=10)
    nsteps = rng.choice([40, 60, 90] if not tier_thorough else [60, 90, 140])
    return dict(kind="fs", total=total, nprocs=nprocs, jobs=jobs, seed=rng.randrange(10 ** 9), nsteps=nsteps,
                maxkill=dict(crash=3).get(prof, rng.choice([0, 0, 1, 2])), drain=rng.choice([0, 25, 40]),
                weights=w, profile=prof)


def gen_inproc(rng):
    ptotal = rng.choice([1, 2, 3, 4])
    ftotal = rng.choice([1, 2, 3, 4])
    nj = rng.randint(2, 6)
    jobs = []
    for _ in range(nj):
        deps = []
        k = rng.choice(["p", "f", "pf", "fp", "pf"])
        for which in k:
            tot = ptotal if which == "p" else ftotal
            deps.append([which, rng.choice([1, 1, 2, tot, max(1, tot - 1), tot + 1])])
        jobs.append(dict(deps=deps))
    ops = []
    for _ in range(rng.choice([10, 20, 30])):
        ops.append([rng.choice(["start", "start", "finish"]), rng.randrange(nj)])
    ops += [["finish", i] for i in range(nj)]
    return dict(kind="inproc", ptotal=ptotal, ftotal=ftotal, jobs=jobs, ops=ops)


# --------------------------------------------------------------------------- running
def run_batches(driver, scenarios, scratch, per=12, timeout=40):
    """16 driver processes in parallel; each scenario runs in its own forked process."""
    for sc in scenarios:
        sc["scratch"] = str(scratch)
    batches = [scenarios[i:i + per] for i in range(0, len(scenarios), per)]

    def one(b):
        return run_impl(driver, dict(scenarios=b, timeout=timeout), timeout=timeout * len(b) + 60)

    with ThreadPoolExecutor(max_workers=16) as ex:
        res = list(ex.map(one, batches))
    out = []
    for r in res:
        out.extend(r)
    return out


# --------------------------------------------------------------------------- oracle (fs)
def quiescent(obs):
    for pr in obs["procs"]:
        if pr is None:
            continue
        if pr["watch"] or (pr["obs"] and pr["evq"]):
            return False
    for ph, st, orph in obs["jobs"]:
        if ph in ("creating", "holding", "running"):
            return False
        if ph == "ended" and not orph:
            return False
    return True


def oracle_fs(sc, res, which):
    """The property restated over what the real objects show after every step.
    Returns a list of (key, what, step index).  `which` in {"C08", "C09"}."""
    out = []
    total = sc["total"]
    dead_obs = False
    for k, st in enumerate(res["steps"]):
        o = st["obs"]
        if st["res"].startswith("raised") and st["op"][0] == "deliver":
            dead_obs = True
            if which == "C09":
                out.append(("C09:observer-dies:unparsable-token-file",
                            "a filesystem event handler raised %s on a token file that is created but not written "
                            "yet: the watchdog observer thread of that process ends" % st["res"][7:], k))
        elif st["res"].startswith("raised"):
            out.append((which + ":exception:" + st["op"][0], "unexpected exception %s in %s" % (st["res"], st["op"]), k))
        disk = dict((n, c) for n, c in o["disk"])
        if which == "C08":
            # weighted sum of the holdings recorded in the directory (a file being created stands for
            # the request of its job)
            w = 0
            for n, c in disk.items():
                w += c if c >= 0 else sc["jobs"][int(n[1:-6])]["c"]
            if w > total:
                out.append(("C08:capacity-exceeded-on-disk", "token files hold %d > total %d" % (w, total), k))
            # jobs between launch and exit, by request
            run = sum(sc["jobs"][i]["c"] for i, (ph, _, _) in enumerate(o["jobs"]) if ph == "running")
            if run > total:
                out.append(("C08:capacity-exceeded-running", "running jobs hold %d > total %d" % (run, total), k))
            for i, (ph, _, _) in enumerate(o["jobs"]):
                if ph in ("holding", "running") and disk.get("j%d.token" % i, -1) != sc["jobs"][i]["c"]:
                    out.append(("C08:running-job-without-token-file",
                                "job %d is %s but its token file is missing or wrong" % (i, ph), k))
        if which == "C09":
            if st["op"][0] == "release" and st["res"] == "ok":
                p, i = st["op"][1], st["op"][2]
                pr = o["procs"][p]
                name = "j%d.token" % i
                w = sum(c for c in disk.values() if c >= 0)
                if name in disk or any(n == name for n, _ in pr["cache"]) or pr["avail"] != total - w:
                    out.append(("C09:release-leaves-holding", "after release of job %d its file / cache entry remains "
                                "or available (%d) is not total - holdings (%d)" % (i, pr["avail"], total - w), k))
            if quiescent(o):
                for n in disk:
                    i = int(n[1:-6])
                    if not o["jobs"][i][2]:
                        out.append(("C09:idle-token-file-left", "token file %s left at quiescence" % n, k))
                    for p, pr in enumerate(o["procs"]):
                        if pr is not None and any(x == n for x, _ in pr["cache"]):
                            out.append(("C09:orphan-file-known-not-reclaimed",
                                        "process %d knows the leftover file %s but has no watcher for it" % (p, n), k))
                for p, pr in enumerate(o["procs"]):
                    if pr is None:
                        continue
                    if pr["obs"] and pr["avail"] > total:
                        out.append(("C09:idle-available-exceeds-total",
                                    "idle token shows available=%d, total=%d" % (pr["avail"], total), k))
                    elif pr["obs"] and pr["avail"] != total:
                        out.append(("C09:idle-available-below-total",
                                    "idle token shows available=%d, total=%d" % (pr["avail"], total), k))
                    for i, (ph, stt, orph) in enumerate(o["jobs"]):
                        if sc["jobs"][i]["p"] == p and ph == "idle" and not orph and stt == "WAIT" \
                                and 1 <= sc["jobs"][i]["c"] <= total:
                            if pr["obs"]:
                                out.append(("C09:waiting-job-fits-at-quiescence:observer-alive",
                                            "job %d (request %d <= total %d) is WAITING at quiescence, nothing pending, "
                                            "observer alive" % (i, sc["jobs"][i]["c"], total), k))
                            else:
                                out.append(("C09:waiting-job-fits-at-quiescence:observer-dead",
                                            "job %d (request %d <= total %d) is WAITING at quiescence after the "
                                            "observer thread died" % (i, sc["jobs"][i]["c"], total), k))
    seen = set()
    uniq = []
    for key, what, k in out:
        if key not in seen:
            seen.add(key)
            uniq.append((key, what, k))
    return uniq


def oracle_inproc(sc, res, which):
    out = []
    held = {}
    for k, st in enumerate(res["steps"]):
        kind, i = st["op"]
        if kind == "start" and st["res"] == "ok":
            held[i] = True
        if kind == "finish" and st["res"] == "ok":
            held.pop(i, None)
        o = st["obs"]
        ph = sum(c for i2 in held for w, c in sc["jobs"][i2]["deps"] if w == "p")
        fh = sum(c for i2 in held for w, c in sc["jobs"][i2]["deps"] if w == "f")
        if which == "C08":
            if ph > sc["ptotal"] or o["pavail"] < 0 or o["pavail"] + ph != sc["ptotal"]:
                out.append(("C08:inproc-capacity", "process token: available %d + held %d != total %d (or negative)"
                            % (o["pavail"], ph, sc["ptotal"]), k))
            if fh > sc["ftotal"] or sum(c for _, c in o["files"]) != fh:
                out.append(("C08:inproc-capacity-files", "file token: holders %d, files %s, total %d"
                            % (fh, o["files"], sc["ftotal"]), k))
        if which == "C09":
            if st["res"].startswith("abort") or kind == "finish":
                # everything taken by this start is given back
                if o["pavail"] + ph != sc["ptotal"] or o["favail"] + fh != sc["ftotal"]:
                    out.append(("C09:inproc-not-given-back", "after %s of job %d: p %d+%d/%d f %d+%d/%d"
                                % (st["res"], i, o["pavail"], ph, sc["ptotal"], o["favail"], fh, sc["ftotal"]), k))
            if not held and k == len(res["steps"]) - 1:
                if o["pavail"] != sc["ptotal"] or o["favail"] != sc["ftotal"] or o["files"]:
                    out.append(("C09:inproc-idle-not-full", "idle tokens show %d/%d and %d/%d, files %s"
                                % (o["pavail"], sc["ptotal"], o["favail"], sc["ftotal"], o["files"]), k))
    return out[:1]


# --------------------------------------------------------------------------- Gallina rendering
def g_name(n):
    return gnat(int(n[1:-6]))


def g_event(e):
    return "(%s %s)" % (dict(created="ECreated", modified="EModified", deleted="EDeleted")[e[0]], g_name(e[1]))


def g_label(op):
    k = op[0]
    if k == "start":
        return "Start %s" % gnat(op[1])
    if k == "kill":
        return "Kill %s" % gnat(op[1])
    if k == "acquire":
        return "Acquire %s %s" % (gnat(op[1]), gnat(op[2]))
    if k == "write":
        return "WriteF %s" % gnat(op[1])
    if k == "launch":
        return "Launch %s" % gnat(op[1])
    if k == "end":
        return "JobEnds %s %s" % (gnat(op[1]), gz(op[2]))
    if k == "release":
        return "Release %s %s" % (gnat(op[1]), gnat(op[2]))
    if k == "deliver":
        return "Deliver %s %s" % (gnat(op[1]), gnat(op[2]))
    if k == "fire":
        return "Fire %s %s" % (gnat(op[1]), gnat(op[2]))
    raise ValueError(k)


def g_res(r):
    return "RLockError" if r == "lockerror" else ("RRaised" if r.startswith("raised") else "ROk")


def g_obs(o):
    disk = glist("(%s, %s)" % (g_name(n), gz(c)) for n, c in o["disk"])
    procs = []
    for pr in o["procs"]:
        if pr is None:
            procs.append("None")
        else:
            procs.append("(Some (mkPO %s %s %s %s %s))" % (
                gz(pr["avail"]), glist("(%s, %s)" % (g_name(n), gz(c)) for n, c in pr["cache"]), gbool(pr["obs"]),
                glist(g_event(e) for e in pr["evq"]), glist(g_name(n) for n in pr["watch"])))
    jobs = []
    for ph, st, orph in o["jobs"]:
        stt = "None" if (st is None or ph != "idle") else "(Some %s)" % gbool(st == "OK")
        jobs.append("(%s, %s, %s)" % (gnat(PHASE[ph]), stt, gbool(orph)))
    return "(mkSO %s %s %s)" % (disk, glist(procs), glist(jobs))


def g_case(case):
    sc, res = case
    steps = glist("(%s, %s, %s)" % (g_label(st["op"]), g_res(st["res"]), g_obs(st["obs"])) for st in res["steps"])
    return "(%s, %s, %s,\n %s)" % (gz(sc["total"]), glist(gnat(j["p"]) for j in sc["jobs"]),
                                   glist(gz(j["c"]) for j in sc["jobs"]), steps)


def g_pcase(case):
    sc, res = case
    # count of the process-token dependency of each job (1 if none: never used)
    cnts = []
    for j in sc["jobs"]:
        c = [c for w, c in j["deps"] if w == "p"]
        cnts.append(c[0] if c else 1)
    tr = glist("(%s %s, %s, %s)" % ("PAcquire" if k == "acquire" else "PRelease", gnat(i), g_res(r), gz(av))
               for k, i, r, av in res["pops"])
    return "(%s, %s, %s)" % (gz(sc["ptotal"]), glist(gz(c) for c in cnts), tr)


def checker_name():
    v = os.environ.get("VERIF_TOK_VARIANT", "")
    return "check_case_lit" if v == "literal" else "check_case"
