"""Directed probes for C03 on the implementation (families outside the generators): the init tasks of the task that
produced an embedded output.  One JSON document on the last line."""
import json
import shutil
import sys
import tempfile

from experimaestro import experiment
from experimaestro.scheduler.workspace import RunMode


def main():
    json.load(sys.stdin)
    from vpk import schema as m
    out = {}
    wd = tempfile.mkdtemp(prefix="xpmverif-c03p-")
    try:
        with experiment(wd, "c03p", port=-1, run_mode=RunMode.DRY_RUN):
            outs, jobs = [], []
            for v in (1, 2):
                t = m.TaskOut(x=5)
                o = t.submit(run_mode=RunMode.DRY_RUN, init_tasks=[m.Init(v=v)])
                jobs.append(t.__xpm__.full_identifier.all.hex())
                outs.append(m.Inner(c=o).__xpm__.full_identifier.all.hex())
            out["producer_jobs_differ"] = jobs[0] != jobs[1]
            out["embedders"] = outs
    finally:
        shutil.rmtree(wd, ignore_errors=True)
    sys.stderr = open("/dev/null", "w")
    print(json.dumps(out))


if __name__ == "__main__":
    main()
