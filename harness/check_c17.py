"""C17 - generated paths are private to the job, distinct and reproducible."""
import json
from concurrent.futures import ThreadPoolExecutor

from vcommon import Check, InternalError, ROOT, main_wrapper, run_impl, glist, gbool, gnat, gz

CLASS_ORDER = ["Leaf", "Two", "FnGen", "NoGen", "Node", "Pre", "Out", "Producer", "T", "Clamp", "TClamp"]
# (argument, file name) of the pathgenerator parameters, declaration order (tied to the real
# ObjectType.arguments on every run, obligation tie:class-table)
GENS = {
    "Leaf": [["p", "o.txt"]],
    "Two": [["p1", "a.txt"], ["p2", "b.txt"], ["p3", "a.txt"]],
    "FnGen": [["p", "fn.bin"]],
    "NoGen": [],
    "Node": [["p", "o.txt"], ["q", "out"]],
    "Pre": [["p", "pre.txt"]],
    "Out": [["p", "out.txt"]],
    "Producer": [["p", "prod.txt"]],
    "T": [["p", "out"], ["q", "o.txt"]],
    "Clamp": [["p", "clamp.txt"]],
    "TClamp": [["p", "out"], ["q", "o.txt"]],
}
# declared argument names, declaration order (what ConfigInformation.xpmvalues() iterates; tied to the real
# ObjectType.arguments on every run, obligation tie:class-table)
DECLS = {
    "Leaf": ["v", "p"],
    "Two": ["v", "c", "p1", "p2", "p3"],
    "FnGen": ["v", "p"],
    "NoGen": ["v", "c", "l"],
    "Node": ["v", "c", "c2", "l", "d", "ll", "dl", "p", "q"],
    "Pre": ["v", "c", "p"],
    "Out": ["v", "src", "p"],
    "Producer": ["v", "c", "p"],
    "T": ["v", "c", "c2", "l", "d", "ll", "dl", "p", "q"],
    "Clamp": ["v", "c", "p"],
    "TClamp": ["v", "c", "c2", "l", "d", "p", "q"],
}
# fields able to hold configurations, declaration order
SHAPE = {
    "Leaf": [], "FnGen": [],
    "Two": ["c"], "Pre": ["c"], "Producer": ["c"],
    "NoGen": ["c", "l"],
    "Node": ["c", "c2", "l", "d", "ll", "dl"],
    "T": ["c", "c2", "l", "d", "ll", "dl"],
    "Clamp": ["c"],
    "TClamp": ["c", "c2", "l", "d"],
}
# classes whose __validate__ rewrites v when it exceeds 50 (the identifier, hence the job directory,
# is the one of the validated configuration)
CLAMPS = ("Clamp", "TClamp")
# keys that a careless encoding of "/" and "%" confuses
CONFUSABLE = [("a/b", "a%2Fb"), ("%", "%25"), ("x/", "x%2F"), ("a%b", "a%25b"), ("/", "%2F"), ("a/b", "a%252Fb")]
PLAIN_KEYS = ["a", "b", "k0", "0", "1", "x.y", "out", "é", "a b", "__pre_tasks__", "...", "o.txt", "c", "l"]
ODD_KEYS = ["", ".", "..", "a/b", "/abs", "a//b/", "//r", "%", "%2F", "a%b/", "./x", "../x", "/"]


def is_plain(k):
    return k not in ("", ".", "..") and "/" not in k


# ------------------------------------------------------------------ generator
def gen_case(rng, odd):
    nodes = []
    producers = []

    def new(cls, sealed=False):
        nodes.append(dict(cls=cls, sealed=sealed, fields=[], pre=[], init=[], task=None))
        return len(nodes) - 1

    new("TClamp" if rng.random() < 0.25 else "T")
    # configurations sealed by earlier submissions: a producer task, what it holds, its output
    for _ in range(rng.choice([0, 0, 0, 1, 1, 2])):
        p = new("Producer", True)
        group = []
        for _ in range(rng.choice([0, 1, 1, 2])):
            group.append(new(rng.choice(["Leaf", "Node", "Two"]), True))
        cval = dict(t="none")
        if group:
            cval = dict(t="ref", n=group[0])
            # no cycle here: a cyclic graph cannot go through submit() (see level_assumptions)
            for k, g in enumerate(group):
                if nodes[g]["cls"] in ("Node", "Two") and group[k + 1:] and rng.random() < 0.7:
                    nodes[g]["fields"].append(["c", dict(t="ref", n=rng.choice(group[k + 1:]))])
        # only what the producer reaches is sealed by its submission
        reach, todo = set(), ([group[0]] if group else [])
        while todo:
            g = todo.pop()
            if g not in reach:
                reach.add(g)
                todo.extend(x["n"] for _, fv in nodes[g]["fields"] for x in values_in(fv) if x["t"] == "ref")
        for g in group:
            nodes[g]["sealed"] = g in reach
        v = rng.randrange(100)
        nodes[p]["fields"] = [["v", dict(t="int", v=v)], ["c", cval]]
        o = new("Out")
        nodes[o]["fields"] = [["v", dict(t="int", v=v)], ["src", cval]]
        nodes[o]["task"] = p
        producers.append([p, o])
    n_free = rng.choice([0, 1, 2, 3, 4, 5, 6, 8, 10])
    free = [0]
    for _ in range(n_free):
        free.append(new(rng.choices(["Leaf", "Two", "FnGen", "NoGen", "Node", "Pre", "Clamp"], [3, 2, 1, 2, 5, 4, 2])[0]))
    if rng.random() < 0.35:
        # several lightweight tasks, so that a configuration can have several different pre-tasks
        for _ in range(rng.choice([2, 3])):
            free.append(new("Pre"))
    pres = [i for i in free if nodes[i]["cls"] == "Pre"]
    targets = list(range(1, len(nodes))) or [0]

    cur = [0]

    def ref():
        # mostly forward (sharing without cycles); sometimes anywhere (cycles) - never the root: since 0cc66af a
        # task that has not been submitted is refused as a value
        fwd = [t for t in targets if t > cur[0] or nodes[t]["sealed"] or nodes[t]["cls"] == "Out"]
        if rng.random() < 0.985:
            return dict(t="ref", n=rng.choice(fwd)) if fwd else dict(t="none")
        return dict(t="ref", n=rng.choice(targets)) if targets != [0] else dict(t="none")

    def key():
        if odd and rng.random() < 0.3:
            return rng.choice(ODD_KEYS)
        return rng.choice(PLAIN_KEYS)

    def reflist():
        return dict(t="list", v=[r for r in (ref() for _ in range(rng.choice([0, 1, 1, 2, 3]))) if r["t"] == "ref"])

    def dict_of(mk):
        d = {}
        for _ in range(rng.choice([0, 1, 2, 2, 3])):
            x = mk()
            if x["t"] != "none":
                d[key()] = x
        if odd and rng.random() < 0.35:
            for k in rng.choice(CONFUSABLE):
                x = mk()
                if x["t"] != "none":
                    d[k] = x
        return dict(t="dict", v=[[k, x] for k, x in d.items()])

    for i in free:
        nd = nodes[i]
        cur[0] = i
        for f in SHAPE[nd["cls"]]:
            if rng.random() < (0.75 if i == 0 else 0.5):
                if f == "c2" and nd["fields"] and nd["fields"][-1][0] == "c" and rng.random() < 0.3:
                    # one sub-configuration held by two parameters of the same object
                    nd["fields"].append([f, dict(nd["fields"][-1][1])])
                elif f in ("c", "c2"):
                    nd["fields"].append([f, ref()])
                elif f == "l":
                    nd["fields"].append([f, reflist()])
                elif f == "d":
                    nd["fields"].append([f, dict_of(ref)])
                elif f == "ll":
                    nd["fields"].append([f, dict(t="list", v=[reflist() for _ in range(rng.choice([0, 1, 2]))])])
                elif f == "dl":
                    nd["fields"].append([f, dict_of(reflist)])
        if rng.random() < (0.9 if nd["cls"] in CLAMPS else 0.3):
            nd["fields"].insert(0, ["v", dict(t="int", v=rng.randrange(100))])
        later = [p for p in pres if p > i] or (pres if rng.random() < 0.05 else [])
        if later and rng.random() < (0.6 if i == 0 else 0.3):
            k = rng.choice([1, 1, 2, 2, 3])
            # several different pre-tasks when there are (their order must not matter), sometimes one twice
            nd["pre"] = (rng.sample(later, min(k, len(later))) if rng.random() < 0.8
                         else [rng.choice(later) for _ in range(k)])
    if pres and rng.random() < 0.4:
        nodes[0]["init"] = [rng.choice(pres) for _ in range(rng.choice([1, 2]))]
    # how each configuration is built: the parameters in the order `order`, the first `kw` of them as
    # constructor keywords (when the objects they name exist already), the others by assignment; the
    # .values dict of the configuration is in that assignment order.  order2/kw2: another way of
    # building the same configuration (used by the second submit when `reassign`)
    for nd in nodes:
        if nd["cls"] == "Out":
            continue
        names = [k for k, _ in nd["fields"]]
        nd["order"] = rng.sample(names, len(names))
        nd["kw"] = rng.choice([0, len(names), rng.randrange(len(names) + 1)])
        nd["order2"] = list(reversed(nd["order"])) if rng.random() < 0.5 else rng.sample(names, len(names))
        nd["kw2"] = rng.choice([0, len(names), len(names), rng.randrange(len(names) + 1)])
    # configurations flagged as meta-parameters (setmeta(c, True)): ignored by the identifier wherever they are held;
    # only configurations without sub-configurations are flagged, so that dropping them drops nothing else.
    # 30% of the cases: more of them, put in front of / inside the lists of the graph
    rich = rng.random() < 0.3
    for i in free[1:]:
        if nodes[i]["cls"] in ("Leaf", "FnGen") and not nodes[i]["pre"] and rng.random() < (0.5 if rich else 0.1):
            nodes[i]["meta"] = True
    if rich:
        flagged = [i for i in free if nodes[i].get("meta")]
        for _ in range(rng.choice([1, 2, 3])):
            flagged.append(new(rng.choice(["Leaf", "Leaf", "FnGen"])))
            nodes[flagged[-1]]["meta"] = True
        # the lists of configurations of the graph: l, the elements of ll, the values of dl
        lists = []
        for i in free:
            for f, fv in nodes[i]["fields"]:
                if f == "l":
                    lists.append(fv)
                elif f == "ll":
                    lists.extend(fv["v"])
                elif f == "dl":
                    lists.extend(x for _, x in fv["v"])
        for lst in lists:
            for _ in range(rng.choice([0, 1, 1, 2])):
                lst["v"].insert(rng.choice([0, 0, rng.randrange(len(lst["v"]) + 1)]), dict(t="ref", n=rng.choice(flagged)))
        if not lists and "l" in SHAPE[nodes[0]["cls"]] and not any(k == "l" for k, _ in nodes[0]["fields"]):
            others = [t for t in targets if t != 0 and not nodes[t].get("meta")] or [flagged[0]]
            nodes[0]["fields"].append(["l", dict(t="list", v=[dict(t="ref", n=rng.choice(flagged)),
                                                               dict(t="ref", n=rng.choice(others))])])
            nodes[0]["fields"].sort(key=lambda kv: DECLS[nodes[0]["cls"]].index(kv[0]))
    # pre-tasks of one configuration have pairwise different identifiers (their v differs), and may be added
    # in another order by the second submit (pre2)
    for i, nd in enumerate(nodes):
        if nd["cls"] == "Pre":
            nd["fields"] = [kv for kv in nd["fields"] if kv[0] != "v"]
            nd["fields"].insert(0, ["v", dict(t="int", v=100 + i)])
            nd["order"] = [x for x in nd["order"] if x != "v"] + ["v"]
            nd["order2"] = [x for x in nd["order2"] if x != "v"] + ["v"]
        if len(nd["pre"]) > 1:
            nd["pre2"] = list(reversed(nd["pre"])) if rng.random() < 0.7 else rng.sample(nd["pre"], len(nd["pre"]))
    # the second submit is a fresh copy of the same configuration: identical, or its dicts filled in the
    # opposite order, or its parameters assigned in another order, or its pre-tasks added in another order
    for nd in nodes:
        if nd["cls"] != "Out":
            names = [k for k, _ in nd["fields"]]
            nd["order"] = [x for x in nd.get("order", []) if x in names] + [x for x in names if x not in nd.get("order", [])]
            nd["order2"] = [x for x in nd.get("order2", []) if x in names] + [x for x in names if x not in nd.get("order2", [])]
            nd.setdefault("kw", 0)
            nd.setdefault("kw2", 0)
    # ... or the flagged elements of its lists dropped
    m = rng.random()
    return dict(root=0, producers=producers, nodes=nodes, reorder=m < 0.2, reassign=0.2 <= m < 0.4,
                repre=0.4 <= m < 0.6, dropmeta=0.6 <= m < 0.8)


def values_in(v):
    if v["t"] == "list":
        for x in v["v"]:
            yield from values_in(x)
    elif v["t"] == "dict":
        for _, x in v["v"]:
            yield from values_in(x)
    else:
        yield v


def containers(v):
    if v["t"] in ("list", "dict"):
        yield v
        for x in v["v"]:
            yield from containers(x if v["t"] == "list" else x[1])


def dict_keys(v):
    if v["t"] == "list":
        for x in v["v"]:
            yield from dict_keys(x)
    elif v["t"] == "dict":
        for k, x in v["v"]:
            yield k
            yield from dict_keys(x)


def case_keys(case):
    for nd in case["nodes"]:
        for _, v in nd["fields"]:
            yield from dict_keys(v)


# ------------------------------------------------------------------ Gallina rendering
def gstr(s):
    """a string as the list of its UTF-8 bytes (Coq string literal when printable ASCII)"""
    b = s.encode("utf-8")
    if all(32 <= x < 127 for x in b):
        return '(s "' + s.replace('"', '""') + '")'
    return "[" + ";".join(str(x) for x in b) + "]"


def gvalue(v):
    t = v["t"]
    if t == "none":
        return "VNone"
    if t == "int":
        return f"(VScalar {gz(v['v'])}%Z)"
    if t == "ref":
        return f"(VRef {gnat(v['n'])})"
    if t == "list":
        return "(VList " + glist(gvalue(x) for x in v["v"]) + ")"
    if t == "dict":
        return "(VDict " + glist(f"(F {gstr(k)} {gvalue(x)})" for k, x in v["v"]) + ")"
    raise ValueError(t)


def assigned_fields(nd, vorder):
    """the fields in the order of the .values dict of the real configuration (assignment order)"""
    if not vorder:
        return nd["fields"]
    pos = {name: k for k, name in enumerate(vorder)}
    return sorted(nd["fields"], key=lambda kv: pos[kv[0]])


def gnode(nd, vorder=None):
    return ("(Build_node %s %s %s %s %s %s)" % (
        gnat(CLASS_ORDER.index(nd["cls"])),
        glist(f"(F {gstr(k)} {gvalue(v)})" for k, v in assigned_fields(nd, vorder)),
        glist(gnat(x) for x in nd["pre"]), glist(gnat(x) for x in nd["init"]),
        "None" if nd.get("task") is None else f"(Some {gnat(nd['task'])})", gbool(nd["sealed"])))


def gpath(p):
    return "(Build_ppath %s %s)" % (gnat(p["root"]), glist(gstr(x) for x in p["parts"]))


def rel_to_job(p, jd):
    """canonical form of a value: below the job directory -> JOB/..., otherwise as it is"""
    if p is None:
        return None
    n = len(jd["parts"])
    if p["root"] == jd["root"] and p["parts"][:n] == jd["parts"]:
        return dict(root=1, parts=["JOB"] + p["parts"][n:])
    return p


SEALED = dict(root=1, parts=["SEALED"])


def gvalues(vals, sealed):
    # the value of a configuration sealed by an earlier submit is not this submit's business
    return glist("(V3 %s %s %s)" % (gnat(v["node"]), gstr(v["arg"]),
                                     "None" if v["path"] is None else
                                     f"(Some {gpath(SEALED if sealed[v['node']] else v['path'])})") for v in vals)


def g_gens(classes):
    return glist(glist(f"(G2 {gstr(x)} {gstr(y)})" for x, y in classes[name]) for name in CLASS_ORDER)


def g_case(c):
    a = c["ans"]
    heap = glist(gnode(nd, vo) for nd, vo in zip(c["nodes"], a["vorder"]))
    v1 = gvalues(a["values"], a["sealed"])
    v2 = gvalues(a["values2"], a["sealed"])
    if c.get("repre") and (not a["sorts_pretasks"] or a["pre_ties"]):
        # pre-tasks in another order: on a tree that places them by list index the second copy legitimately
        # differs (reported by the oracle); with equal identifiers the stable sort keeps the list order
        v2 = v1
    if c.get("dropmeta"):
        if not a["meta_apart"]:
            v2 = v1     # every element counts on this tree: the second copy differs (reported by the oracle)
        else:
            # the flagged configurations may have left the graph of the second copy: not compared
            flagged = {i for i, nd in enumerate(c["nodes"]) if nd.get("meta")}
            v2 = gvalues([x if x["node"] in flagged else y for x, y in zip(a["values"], a["values2"])], a["sealed"])
    ans = "(let v := %s in Build_answer %s v %s)" % (v1, glist(gbool(b) for b in a["sealed"]), "v" if v1 == v2 else v2)
    ids = glist((gstr(a["ids"][str(i)]) if str(i) in a["ids"] else "[]") for i in range(len(c["nodes"])))
    metas = glist(gbool(bool(nd.get("meta"))) for nd in c["nodes"])
    return f"(Case {heap} gens decls {ids} {metas} tree {gnat(c['root'])} {ans})"


def g_decls(decls):
    return glist(glist(gstr(x) for x in decls[name]) for name in CLASS_ORDER)


# ------------------------------------------------------------------ oracle (independent of the model)
def resolve(parts):
    """lexical resolution of '..' below '/'"""
    out = []
    for x in parts:
        if x == "..":
            if out:
                out.pop()
        else:
            out.append(x)
    return out


def oracle(case):
    """the property restated over the implementation's answers; returns the violations"""
    out = []
    a = case["raw"]
    first, second = a["first"], a["second"]
    jd = first["jobdir"]
    why = "plain-keys" if all(is_plain(k) for k in case_keys(case)) else "nonplain-dict-key"
    small = dict(root=case["root"], producers=case["producers"], nodes=case["nodes"], reorder=bool(case.get("reorder")),
                 reassign=bool(case.get("reassign")), repre=bool(case.get("repre")), dropmeta=bool(case.get("dropmeta")))
    new = [v for v in first["values"] if v["path"] is not None and not first["sealed"][v["node"]]]
    jparts = resolve(jd["parts"])
    seen = {}
    for v in new:
        p = v["path"]
        rp = resolve(p["parts"])
        inside = p["root"] == jd["root"] and rp[:len(jparts)] == jparts and len(rp) > len(jparts)
        if not inside:
            out.append(dict(key=f"C17:outside-jobdir:{why}",
                            what="a generated path does not resolve inside the job directory",
                            data=dict(case=small, value=v, jobdir=jd)))
        fname = dict(map(tuple, case["classes"][case["nodes"][v["node"]]["cls"]]))[v["arg"]]
        k = (p["root"], tuple(rp))
        who = (v["node"], fname)
        if k in seen and seen[k] != who:
            out.append(dict(key=f"C17:same-path:{why}",
                            what="two different generated parameters received the same path",
                            data=dict(case=small, a=dict(node=seen[k][0], file=seen[k][1]),
                                      b=dict(node=who[0], file=who[1]), path=p)))
        seen.setdefault(k, who)
    # private and distinct also means non-overlapping: no generated path is a folder on the way to another one
    placed = [(resolve(v["path"]["parts"]), v) for v in new]
    clash = None
    for rp1, v1 in placed:
        for rp2, v2 in placed:
            if len(rp1) < len(rp2) and rp2[:len(rp1)] == rp1 and v1["path"]["root"] == v2["path"]["root"]:
                clash = clash or (v1, v2)
    if clash:
        out.append(dict(key="C17:generated-path-is-folder-of-another",
                        what="a generated path is a proper prefix of another generated path of the same task: "
                             "a file where the folder of a sub-configuration is generated",
                        data=dict(case=small, file=clash[0], below=clash[1])))
    r1 = [rel_to_job(v["path"], jd) for v in first["values"]]
    r2 = [rel_to_job(v["path"], second["jobdir"]) for v in second["values"]]
    dropped = case.get("dropmeta") and any(
        x["t"] == "ref" and case["nodes"][x["n"]].get("meta")
        for nd in case["nodes"] for _, fv in nd["fields"] for c in containers(fv) if c["t"] == "list" for x in c["v"])
    if dropped:
        # the flagged configurations themselves may have left the graph: only the others are compared
        keep = [not case["nodes"][v["node"]].get("meta") for v in first["values"]]
        r1 = [x for x, k in zip(r1, keep) if k]
        r2 = [x for x, k in zip(r2, keep) if k]
    if jd != second["jobdir"]:
        out.append(dict(key=f"C17:other-jobdir:{why}",
                        what="a fresh copy of the configuration was given another job directory",
                        data=dict(case=small, first=jd, second=second["jobdir"])))
    elif r1 != r2:
        # same job directory (same identifier): the same configuration
        if case.get("reorder") and any(v["t"] == "dict" and len(v["v"]) > 1
                                       for nd in case["nodes"] for _, fv in nd["fields"] for v in containers(fv)):
            out.append(dict(key="C17:paths-depend-on-dict-insertion-order",
                            what="the same configuration (same identifier and job directory) with its dicts "
                                 "filled in another order received other generated paths",
                            data=dict(case=small, first=[x for x, y in zip(r1, r2) if x != y],
                                      second=[y for x, y in zip(r1, r2) if x != y])))
        elif dropped:
            vals = [v for v in first["values"] if not case["nodes"][v["node"]].get("meta")]
            out.append(dict(key="C17:paths-depend-on-meta-list-elements",
                            what="the same configuration (same identifier and job directory) without the list elements "
                                 "flagged as meta-parameters, which the identifier ignores, received other generated paths",
                            data=dict(case=small,
                                      first=[dict(v, path=x) for v, x, y in zip(vals, r1, r2) if x != y],
                                      second=[dict(v, path=y) for v, x, y in zip(vals, r1, r2) if x != y])))
        elif case.get("repre") and any("pre2" in nd and nd["pre2"] != nd["pre"] for nd in case["nodes"]):
            if pre_ties(case, first):
                pass    # pre-tasks with equal identifiers are interchangeable: which one gets which index is free
            else:
                out.append(dict(key="C17:paths-depend-on-pretask-order",
                                what="the same configuration (same identifier and job directory) with its pre-tasks "
                                     "added in another order received other generated paths",
                                data=dict(case=small,
                                          first=[dict(v, path=x) for v, x, y in zip(first["values"], r1, r2) if x != y],
                                          second=[dict(v, path=y) for v, x, y in zip(second["values"], r1, r2) if x != y])))
        elif case.get("reassign") and first.get("vorder") != second.get("vorder"):
            diff = [dict(node=i, first=a1, second=a2)
                    for i, (a1, a2) in enumerate(zip(first["vorder"], second["vorder"])) if a1 != a2]
            out.append(dict(key="C17:paths-depend-on-assignment-order",
                            what="the same configuration (same identifier and job directory) with its parameters "
                                 "assigned in another order (constructor keywords / attribute assignments) "
                                 "received other generated paths",
                            data=dict(case=small, values_order=diff,
                                      first=[dict(v, path=x) for v, x, y in zip(first["values"], r1, r2) if x != y],
                                      second=[dict(v, path=y) for v, x, y in zip(second["values"], r1, r2) if x != y])))
        else:
            out.append(dict(key=f"C17:not-reproducible:{why}",
                            what="submitting the same configuration again gave other paths",
                            data=dict(case=small, first=first, second=second)))
    return out


def pre_ties(case, first):
    """two different pre-tasks of one configuration with the same raw identifier"""
    ids = first.get("ids") or {}
    for nd in case["nodes"]:
        seen = {}
        for j in nd["pre"]:
            k = ids.get(str(j))
            if k in seen and seen[k] != j:
                return True
            seen[k] = j
    return False


# ------------------------------------------------------------------ shrinking
def reductions(case):
    """every case obtained by deleting one field / list element / dict entry / pre or init task
    of a configuration that is neither sealed nor produced by task_outputs"""
    import copy
    res = []

    def emit(mut):
        c2 = copy.deepcopy(dict(root=case["root"], producers=case["producers"], nodes=case["nodes"],
                                reorder=bool(case.get("reorder")), reassign=bool(case.get("reassign")),
                                repre=bool(case.get("repre")), dropmeta=bool(case.get("dropmeta"))))
        mut(c2["nodes"])
        for nd in c2["nodes"]:
            if "pre2" in nd and sorted(nd["pre2"]) != sorted(nd["pre"]):
                nd["pre2"] = list(reversed(nd["pre"]))
            # plans name the parameters: a removed one is simply skipped by the driver
            if any(isinstance(x, int) for x in nd.get("order") or []):
                nd.pop("order", None)
        res.append(c2)

    def sub(v, path):
        """paths to the containers inside v"""
        if v["t"] in ("list", "dict"):
            yield path
            for k, x in enumerate(v["v"]):
                yield from sub(x if v["t"] == "list" else x[1], path + [k])

    def at(v, path):
        for k in path:
            v = v["v"][k] if v["t"] == "list" else v["v"][k][1]
        return v

    for i, nd in enumerate(case["nodes"]):
        if nd["sealed"] or nd["cls"] == "Out":
            continue
        for f in range(len(nd["fields"])):
            emit(lambda ns, i=i, f=f: ns[i]["fields"].pop(f))
            for path in sub(nd["fields"][f][1], []):
                for k in range(len(at(nd["fields"][f][1], path)["v"])):
                    emit(lambda ns, i=i, f=f, path=path, k=k: at(ns[i]["fields"][f][1], path)["v"].pop(k))
        for which in ("pre", "init"):
            for k in range(len(nd[which])):
                emit(lambda ns, i=i, which=which, k=k: ns[i][which].pop(k))
    return res


def shrink(c, case, key, classes):
    cur = case
    for _ in range(40):
        cands = reductions(cur)
        if not cands:
            break
        r = run_impl("drive_c17.py", dict(workdir=str(c.scratch() / "shrink"), cases=cands), timeout=600)
        found = None
        for cand, a in zip(cands, r["answers"]):
            if "error" in a:
                continue
            cand["raw"], cand["classes"] = a, classes
            if any(v["key"] == key for v in oracle(cand)):
                found = cand
                break
        if found is None:
            break
        cur = found
    return cur


# ------------------------------------------------------------------ driver runs
def run_cases(c, cases):
    nproc = 12
    chunks = [cases[i::nproc] for i in range(nproc)]
    wd = c.scratch()

    def one(k):
        if not chunks[k]:
            return dict(classes=None, decls=None, probes=None, answers=[])
        return run_impl("drive_c17.py", dict(workdir=str(wd / f"w{k}"), cases=chunks[k]), timeout=3000)

    with ThreadPoolExecutor(max_workers=nproc) as ex:
        res = list(ex.map(one, range(nproc)))
    classes = next(r["classes"] for r in res if r["classes"] is not None)
    decls = next(r["decls"] for r in res if r["decls"] is not None)
    probes = next(r["probes"] for r in res if r["probes"] is not None)
    for k, r in enumerate(res):
        for case, a in zip(chunks[k], r["answers"]):
            case["raw"] = a
    return classes, decls, probes


HEADER = ("From Coq Require Import ZArith NArith List Bool String.\n"
          "From XV Require Import model.Walk model.GenPath corr.GenPathCorr.\n"
          "Import ListNotations.\nOpen Scope string_scope.\nOpen Scope N_scope.\n")


def run(c: Check):
    c.rule = ("random heaps (root task + up to 10 configurations, up to 2 earlier-submitted producer tasks with "
              "their sealed sub-configurations and fresh outputs) over vpk_c17; references shared at random, back "
              "edges, lists, dicts, nested lists/dicts, pre-tasks at any node, init tasks at the root; 1/4 of the "
              "cases draw dict keys that are not plain names; non-trivial = at least 3 generated values set by "
              "this submit at >=2 different nesting depths, distinct by heap; some classes rewrite a "
              "signature-relevant parameter in __validate__ (v > 50) so that the job directory is only known after "
              "validation; every configuration is built in a random way (parameters in a random order, a random "
              "number of them as constructor keywords, the others by assignment: the .values dict is in that "
              "assignment order, reported by the driver and given to the model), 30% of the Node/T objects hold one "
              "sub-configuration in two parameters; the second submit is a fresh copy of the same configuration: "
              "20% with every dict filled in the opposite order, 20% with the parameters assigned in another "
              "order, 20% with the pre-tasks of every configuration added in another order, 20% without the list "
              "elements flagged as meta-parameters, 20% identical; Leaf/FnGen configurations without pre-tasks are "
              "flagged with setmeta (10%, and in 30% of the cases half of them plus 1-3 extra ones put in front of / "
              "inside the lists of the graph); 35% of "
              "the cases get 2-3 extra lightweight tasks and pre-task attachments mostly draw distinct ones; a "
              "directed probe (add_pretasks(a, b) vs (b, a)) selects the model variant for the placement of "
              "pre-tasks, one (l=[flagged, a]) the variant for list positions, one gives a configuration to two tasks, "
              "another one submits a task whose parameter defaults to a configuration with a generated "
              "path (configuration-valued defaults are never generated)")
    c.build()
    c.props()
    n = 1600 if c.quick else 20000
    cases = []
    if c.replay:
        rp = json.load(open(c.replay))["replay"]
        if "case" in rp:
            cases.append(rp["case"])
        for x in rp.get("cases", []):
            cases.append(x)
        n = 0
    gold = ROOT / "golden" / "c17.json"
    if gold.exists():
        cases.extend(json.load(open(gold)))
    for i in range(n):
        cases.append(gen_case(c.rng, odd=(i % 4 == 3)))
    classes, decls, probes = run_cases(c, cases)
    # which placement of pre-tasks does this tree have?  by rank of the identifier (fixes/C17-3.diff) or by list index
    sorts = bool(probes["sorts_pretasks"])
    c.count("tree:pre-tasks-placed-by-" + ("identifier-rank" if sorts else "list-index"))
    # ... and flagged list elements: numbered apart (fixes/C17-4.diff) or counted like the others
    meta_apart = bool(probes["meta_apart"])
    c.count("tree:flagged-list-elements-" + ("numbered-apart" if meta_apart else "counted"))
    sh = probes["shared"]
    n2 = len(sh["second_job"]["parts"])
    if sh["path_in_second"]["parts"][:n2] != sh["second_job"]["parts"]:
        c.violation("C17:shared-configuration-keeps-first-job-paths",
                    "a configuration with a generated path given to two tasks is sealed by the first submit: in the "
                    "second task its generated path lies in the FIRST job's directory (nothing is generated for it at "
                    "the second submit), while a fresh equal configuration - same identifier - gets a path of its own",
                    dict(scenario="sub = Leaf(v=7); T(v=5, c=sub).submit(); T(v=6, c=sub).submit()", observed=sh))
    c.extra["probes"] = probes
    # two jobs of one class that both leave a parameter to its configuration-valued default: each instance holds its
    # own copy.  Kept apart from the known finding below (there the copy of ONE job lies under another hash of the
    # same job): here an object shared between instances, or the second job's path equal to / inside the first job's
    d2 = probes.get("default_two_jobs") or dict(error="probe missing")
    if "error" in d2:
        c.obligations.append(dict(name="probe:default-two-jobs", kind="tie", ok=False, detail=d2["error"]))
    else:
        n1 = len(d2["first_job"]["parts"])
        in_first = (d2["second_path"]["root"] == d2["first_job"]["root"]
                    and d2["second_path"]["parts"][:n1] == d2["first_job"]["parts"])
        if d2["same_object"] or d2["second_path"] == d2["first_path"] or in_first:
            c.violation("C17:default-configuration-shared-between-instances",
                        "two tasks of one class that leave a parameter to its default, a configuration with a generated "
                        "path: the two instances hold the same object, sealed by the first submit - the generated path "
                        "seen by the second job is the first job's (two jobs, one path; not private to the job)",
                        dict(scenario="vpk_c17.probe: TDefault2(y=1).submit(); TDefault2(y=2).submit()", observed=d2))
    # two graphs with the same identifier (hence the same job directory) that differ by something the identifier
    # ignores: the generated paths must not differ (reproducibility clause) - directed probes, open findings
    for name, key, what in (
            ("ignored_parameter", "C17:paths-depend-on-ignored-parameter",
             "T(m=s, p=s) with m a Meta parameter declared before p, and T(p=<equal fresh s>): same identifier and job "
             "directory, but the shared configuration is generated under out/m in one and out/p in the other"),
            ("pretask_attachment", "C17:paths-depend-on-pretask-attachment",
             "T(a=A.add_pretasks(q), b=B) and T(a=A, b=B.add_pretasks(q)): the full identifier hashes the set of pre-tasks "
             "of the whole graph - same identifier and job directory - but the pre-task's generated path is under out/a "
             "in one and out/b in the other")):
        pr = probes.get(name) or dict(error="probe missing")
        if "error" in pr:
            c.obligations.append(dict(name="probe:" + name, kind="tie", ok=False, detail=pr["error"]))
        elif pr["first_job"] == pr["second_job"] and pr["first_path"] != pr["second_path"]:
            c.violation(key, what, dict(scenario="harness/vpk_c17/probe.py, drive_c17.probes()", observed=pr))
    # directed scenarios in which the identifier of the task - hence its job directory - changes after the paths
    # were generated, or paths of an earlier attempt survive
    for name, key, what in (
            ("marked_by_two_tasks", "C17:path-outside-job-directory:parameter-marked-by-two-tasks",
             "Learn(model=<output of another Learn>) returning dep(self.model): marking overwrites the model's task link "
             "after the paths were generated; the job directory is computed again without the first task"),
            ("marked_held_by_pretask", "C17:path-outside-job-directory:marked-parameter-held-by-lightweight-task",
             "a task returning dep(self.model) whose pre-task holds the same model (no generated parameter of its own): "
             "the raw identifier of the pre-task, hence the task's full identifier, changes after the mark"),
            ("marked_held_by_init_task", "C17:path-outside-job-directory:marked-parameter-held-by-lightweight-task",
             "a task returning dep(self.model) whose init task holds the same model: same effect"),
            ("resubmit_after_failed_sealing", "C17:path-outside-job-directory:resubmit-after-failed-sealing",
             "submit() fails inside a generator after a sub-configuration was sealed; a parameter is corrected and the task "
             "submitted again: the sub-configuration keeps the path generated under the identifier of the failed attempt")):
        pr = probes.get(name) or dict(error="probe missing")
        if "error" in pr:
            c.obligations.append(dict(name="probe:" + name, kind="tie", ok=False, detail=pr["error"]))
            continue
        n = len(pr["jobdir"]["parts"])
        bad = [p for p in pr["paths"] if not (p["root"] == pr["jobdir"]["root"] and p["parts"][:n] == pr["jobdir"]["parts"]
                                               and len(p["parts"]) > n)]
        if bad:
            c.violation(key, what, dict(scenario="harness/vpk_c17/probe.py, drive_c17.probes(): " + name, observed=pr))
    pd = probes["config_default"]
    if "error" in pd:
        c.obligations.append(dict(name="probe:config-valued-default", kind="tie", ok=False, detail=pd["error"]))
    else:
        n = len(pd["jobdir"]["parts"])
        if not all(pd[k]["root"] == pd["jobdir"]["root"] and pd[k]["parts"][:n] == pd["jobdir"]["parts"]
                   and len(pd[k]["parts"]) > n for k in ("a_p", "out")):
            c.violation("C17:path-outside-job-directory:config-valued-default",
                        "a task parameter whose default value is a configuration with a generated path: that path "
                        "is generated under another job directory than the task's (the identifier changes while "
                        "the task is sealed: the default test compares generated values)",
                        dict(scenario="vpk_c17.probe.TDefault().submit(run_mode=DRY_RUN)", observed=pd))
    ok_tab = classes == GENS and decls == DECLS
    c.obligations.append(dict(name="tie:class-table", kind="tie", ok=ok_tab,
                              detail="" if ok_tab else f"declared generators / arguments differ: {classes} {decls}"))
    good = []
    # an open known finding is reported on the first case that shows it, without minimisation
    known_open = {k["key"] for k in c.known() if k.get("property") == "C17" and k.get("status") == "open"}
    for case in cases:
        a = case["raw"]
        c.evaluations += 1
        if "error" in a:
            c.count("driver-error")
            c.obligations.append(dict(name=f"driver:case{len(good)}", kind="corr", ok=False,
                                      detail=a["error"] + " " + json.dumps(dict(nodes=case["nodes"]))[:300]))
            continue
        case["classes"] = classes
        first, second = a["first"], a["second"]
        jd = first["jobdir"]
        case["ans"] = dict(sealed=first["sealed"], vorder=first["vorder"], ids=first.get("ids") or {},
                           sorts_pretasks=sorts, pre_ties=pre_ties(case, first), meta_apart=meta_apart,
                           values=[dict(v, path=rel_to_job(v["path"], jd)) for v in first["values"]],
                           values2=[dict(v, path=rel_to_job(v["path"], second["jobdir"])) for v in second["values"]])
        good.append(case)
        new = [v for v in first["values"] if v["path"] is not None and not first["sealed"][v["node"]]]
        depths = {len(v["path"]["parts"]) for v in new}
        c.count(f"nodes={len(case['nodes'])}")
        c.count(f"generated={min(len(new), 20)}")
        c.count("submit:" + (first["exc"] or "ok"))
        c.count("keys:" + ("plain" if all(is_plain(k) for k in case_keys(case)) else "nonplain"))
        c.count(f"producers={len(case['producers'])}")
        c.count("second-copy:" + ("dicts-reversed" if case.get("reorder") else
                                  "parameters-assigned-in-another-order" if case.get("reassign") else
                                  "pre-tasks-added-in-another-order" if case.get("repre") else
                                  "flagged-list-elements-dropped" if case.get("dropmeta") else "identical"))
        lsts = [cc for nd in case["nodes"] for _, fv in nd["fields"] for cc in containers(fv) if cc["t"] == "list"]
        isflag = lambda x: x["t"] == "ref" and bool(case["nodes"][x["n"]].get("meta"))   # noqa: E731
        if any(isflag(x) for l in lsts for x in l["v"]):
            c.count("list-with-flagged-element")
            if case.get("dropmeta"):
                c.count("second-copy-drops-flagged-elements")
        if any(isflag(l["v"][k]) and not isflag(l["v"][k + 1]) for l in lsts for k in range(len(l["v"]) - 1)):
            c.count("flagged-element-followed-by-another-element")
        if case.get("repre") and any("pre2" in nd and nd["pre2"] != nd["pre"] for nd in case["nodes"]):
            c.count("second-copy-pre-task-order-differs")
        if pre_ties(case, first):
            c.count("pre-tasks-with-equal-identifiers")
        for nd, vo in zip(case["nodes"], first["vorder"]):
            names = [k for k, _ in assigned_fields(nd, vo)]
            c.count("values-order:" + ("declaration" if names == [k for k, _ in nd["fields"]] else "other"))
        if case.get("reassign") and first["vorder"] != second["vorder"]:
            c.count("second-copy-values-order-differs")
        if any(len([1 for _, fv in nd["fields"] if any(x == dict(t="ref", n=t) for x in values_in(fv))]) > 1
               for nd in case["nodes"] if not nd["sealed"] for t in range(len(case["nodes"]))
               if not case["nodes"][t]["sealed"]):
            c.count("one-configuration-held-by-two-parameters-of-a-node")
        if any(nd["cls"] in CLAMPS and any(k == "v" and fv["v"] > 50 for k, fv in nd["fields"])
               for nd in case["nodes"]):
            c.count("validate-rewrites-identifier")
        for nd in case["nodes"]:
            c.count("cls:" + nd["cls"])
            if nd["pre"]:
                c.count("node-with-pretasks")
        if len(new) >= 3 and len(depths) >= 2:
            c.nontrivial.add(json.dumps(case["nodes"], sort_keys=True))
        for v in oracle(case):
            if not any(x["key"] == v["key"] for x in c.violations):
                if not c.replay and v["key"] not in known_open:
                    small = shrink(c, case, v["key"], classes)
                    v = next(x for x in oracle(small) if x["key"] == v["key"])
                c.violation(v["key"], v["what"], v["data"])
    c.samples = [dict(nodes=x["nodes"], producers=x["producers"], jobdir=x["raw"]["first"]["jobdir"],
                      values=x["ans"]["values"]) for x in good[:2]]
    header = (HEADER + "Definition gens := " + g_gens(classes) + ".\n"
              + "Definition decls := " + g_decls(decls) + ".\n"
              + "Definition tree := Build_tree %s %s.\n" % (gbool(sorts), gbool(meta_apart)))
    bad = c.corr_shards("corr", header, good, g_case, "check_case", shard=100)
    if bad:
        # which behaviour does the tree have?  check_case_insertion: before fixes/C17-2.diff (dicts walked in
        # insertion order); check_case_prefix: before fixes/C17-1.diff too (dict keys used as they are)
        sub = [good[i] for i in bad[:200]]
        saved = list(c.obligations)
        bad_ins = c.corr_shards("diag", header, sub, g_case, "check_case_insertion", shard=100)
        bad_prefix = c.corr_shards("diag2", header, sub, g_case, "check_case_prefix", shard=100)
        bad_asg = c.corr_shards("diag3", header, sub, g_case, "check_case_assigned", shard=100)
        bad_skip = c.corr_shards("diag4", header, sub, g_case, "check_case_skip", shard=100)
        c.obligations = saved
        c.extra["disagreeing_cases_match_positions_skipping_flagged_elements"] = len(sub) - len(bad_skip)
        c.extra["disagreeing_cases_match_assignment_order_walk"] = len(sub) - len(bad_asg)
        c.extra["disagreeing_cases_match_insertion_order_model"] = len(sub) - len(bad_ins)
        c.extra["disagreeing_total"] = len(bad)
        c.extra["disagreeing_with_nonplain_keys"] = sum(
            1 for i in bad if not all(is_plain(k) for k in case_keys(good[i])))
        c.extra["disagreeing_checked_against_prefix_model"] = len(sub)
        c.extra["disagreeing_cases_match_prefix_model"] = len(sub) - len(bad_prefix)
    c.extra["disagreeing_cases"] = [dict(nodes=good[i]["nodes"], producers=good[i]["producers"],
                                         values=good[i]["ans"]["values"]) for i in bad[:3]]
    if bad and not c.violations:
        c.extra["replay_cases"] = [dict(root=good[i]["root"], producers=good[i]["producers"], nodes=good[i]["nodes"],
                                        reorder=bool(good[i].get("reorder")), reassign=bool(good[i].get("reassign")),
                                        repre=bool(good[i].get("repre")), dropmeta=bool(good[i].get("dropmeta")))
                                   for i in bad[:5]]
    c.level_assumptions = [
        "pathlib.PurePosixPath parsing/joining is modelled (GenPath.parse/pjoin), not verified; the job directory "
        "is an input of the model (the identifier that names it is C01-C03's subject)",
        "cyclic graphs: submit() raises RecursionError in updatedependencies after sealing; the values set by the "
        "Sealer are read all the same"]


if __name__ == "__main__":
    main_wrapper("C17", run)
