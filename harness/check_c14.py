"""C14 - submitted configurations are frozen together with their identity."""
import json
from concurrent.futures import ThreadPoolExecutor

from vcommon import Check, main_wrapper, run_impl, gz, gnat, glist, gopt, gbool, gbytes
import identgen
from identgen import SLOTS, IGNORED, LIGHT, TASKS, vint, vstr, vref, NONE

HEADER = ("From Coq Require Import ZArith NArith List Bool.\n"
          "From XV Require Import core.Value model.Hash model.Cache model.Seal corr.SealCorr.\nImport ListNotations.\n")
READONLY = {"pg", "k", "out", "g"}          # generated / constant parameters


def succs(node):
    out = []

    def refs(v):
        if v["t"] == "ref":
            out.append(v["n"])
        elif v["t"] == "list":
            for x in v["v"]:
                refs(x)
        elif v["t"] == "dict":
            for _, x in v["v"]:
                refs(x)

    for _, v in node["fields"]:
        refs(v)
    out.extend(node["pre"])
    out.extend(node["init"])
    if node["task"] is not None:
        out.append(node["task"])
    return out


def reachable(nodes, roots):
    seen, todo = set(), list(roots)
    while todo:
        n = todo.pop()
        if n in seen or n >= len(nodes):
            continue
        seen.add(n)
        todo.extend(succs(nodes[n]))
    return seen


def reachable_without_init(nodes, roots, presealed):
    """reachability that does not follow the init-task edges of the pre-sealed nodes"""
    seen, todo = set(), list(roots)
    while todo:
        n = todo.pop()
        if n in seen or n >= len(nodes):
            continue
        seen.add(n)
        su = succs(nodes[n])
        if n in presealed:
            su = [m for m in su if m not in nodes[n]["init"]]
        todo.extend(su)
    return seen


def gen_case(c, g):
    desc = g.graph(p_cycle=0.25, p_pre=0.5, p_out=0.6)
    n = len(desc["nodes"])
    # keep the build unsealed (no submit), then seal / submit one or two roots
    desc["actions"] = [a for a in desc["actions"] if a["a"] not in ("submit", "seal")
                       and not (a["a"] == "set" and a["v"]["t"] == "out")]
    roots = c.rng.sample(range(n), c.rng.choice([1, 1, 2]))
    tasks = [i for i in range(n) if desc["nodes"][i]["cls"] in TASKS]
    if tasks and c.rng.random() < 0.6:
        roots[0] = c.rng.choice(tasks)
    for r in roots:
        if desc["nodes"][r]["cls"] in TASKS and c.rng.random() < 0.7:
            light = [i for i in range(n) if desc["nodes"][i]["cls"] in LIGHT and i != r]
            if len(light) < 2:       # make sure lightweight tasks exist to attach
                for cls in ("Init", "Pre"):
                    desc["nodes"].append(dict(cls=cls, kw=[["v", vint(c.rng.choice([1, 2, 3]))]]))
                    light.append(len(desc["nodes"]) - 1)
            init = c.rng.sample(light, min(len(light), c.rng.choice([0, 1, 1, 2]))) if light else []
            # pre-tasks and init tasks on the SAME node (the walk handles them in two separate steps)
            if light and c.rng.random() < 0.5:
                desc["actions"].append(dict(a="pre", n=r, ids=c.rng.sample(light, 1)))
            if c.rng.random() < 0.3:
                # sealed (and, maybe, identified) BEFORE being submitted: instance() then submit()
                desc["actions"].append(dict(a="seal", n=r))
                if c.rng.random() < 0.6:
                    desc["actions"].append(dict(a="ids", n=r))
            desc["actions"].append(dict(a="submit", n=r, init=init))
        else:
            desc["actions"].append(dict(a="seal", n=r))
            if c.rng.random() < 0.2 and len(roots) == 1:
                # identified, unsealed, modified and sealed again.  Only with a single sealed root: __unseal__ is an
                # internal helper that unseals what is reachable from its node; used on a node that ANOTHER sealed
                # configuration reaches it breaks the closure of the sealed set by construction (not a defect of seal)
                desc["actions"].append(dict(a="ids", n=r))
                desc["actions"].append(dict(a="unseal", n=r))
                slots = [(s, kd) for s, kd in SLOTS[desc["nodes"][r]["cls"]].items() if s not in READONLY and s != "ddd"]
                if slots:
                    s_, kd = c.rng.choice(slots)
                    v = g.value(kd, [])
                    if v is not None and v["t"] not in ("ref", "out"):
                        desc["actions"].append(dict(a="set", n=r, name=s_, v=v))
                desc["actions"].append(dict(a="seal", n=r))
    ops = []
    n = len(desc["nodes"])
    light = [i for i in range(n) if desc["nodes"][i]["cls"] in LIGHT]
    submitted = [a["n"] for a in desc["actions"] if a["a"] == "submit"]
    if c.rng.random() < 0.3:
        # directed: identify an (often unsealed) node, modify it, seal it, identify it again - the identifier
        # answered after the seal must be the one of the modified content
        i = c.rng.randrange(n)
        slots = [(s, kd) for s, kd in SLOTS[desc["nodes"][i]["cls"]].items() if kd.rstrip("!") in ("int", "str", "oint", "ostr")
                 and s not in READONLY]
        if slots:
            s_, kd = c.rng.choice(slots)
            v = g.value(kd.rstrip("!").lstrip("o") + "!", [])
            ops += [dict(op=c.rng.choice(["raw", "full"]), n=i), dict(op="assign", n=i, name=s_, v=v),
                    dict(op="seal", n=i), dict(op="full", n=i)]
    for _ in range(c.rng.randint(3, 9)):
        k = c.rng.choices(["assign", "meta", "pre", "full", "raw", "seal", "jobpath", "resubmit", "copy"], [6, 3, 3, 4, 2, 1, 1, 1, 2])[0]
        i = c.rng.randrange(n)
        cls = desc["nodes"][i]["cls"]
        if k == "resubmit":
            if submitted:
                i = c.rng.choice(submitted)
                ops.append(dict(op="resubmit", n=i, init=c.rng.sample(light, min(len(light), c.rng.choice([0, 1, 2])))))
                ops.append(dict(op=c.rng.choice(["full", "jobpath"]), n=i))
            continue
        if k == "copy":
            # a modified copy (copyconfig / Config.copy) of a configuration, frozen or not: the original is untouched
            slots = [(s, kd) for s, kd in SLOTS[cls].items() if kd.rstrip("!") in ("int", "str", "oint", "ostr", "bool", "float")
                     and s not in READONLY]
            if slots:
                s_, kd = c.rng.choice(slots)
                v = g.value(kd.rstrip("!").lstrip("o") + "!", [])
                if v is not None:
                    ops.append(dict(op=c.rng.choice(["copyconfig", "copyconfig", "clone"]), n=i, name=s_, v=v))
                    ops.append(dict(op=c.rng.choice(["full", "raw"]), n=i))
            continue
        if k == "assign":
            slots = [(s, kd) for s, kd in SLOTS[cls].items() if s not in READONLY and s != "ddd"]
            s, kd = c.rng.choice(slots)
            v = g.value(kd, [j for j in range(n)])
            if v is None:
                v = NONE if not kd.endswith("!") else g.value(kd, list(range(n))) or vint(1)
            if any(desc["nodes"][m]["cls"] in TASKS for m in identgen._export_succs(dict(fields=[["v", v]], pre=[], init=[], task=None))
                   if m < len(desc["nodes"])):
                continue            # an unsubmitted task as a value (at any depth) is rejected for another reason
            ops.append(dict(op="assign", n=i, name=s, v=v))
        elif k == "meta":
            ops.append(dict(op="meta", n=i, flag=c.rng.choice([True, False, None])))
        elif k == "pre":
            donors = [a["n"] for a in desc["actions"] if a["a"] == "pre"]
            if donors and c.rng.random() < 0.4:
                # the other entry point: add_pretasks_from(a configuration that holds pre-tasks)
                ops.append(dict(op="prefrom", n=i, donor=c.rng.choice(donors)))
            elif light:
                ops.append(dict(op="pre", n=i, ids=c.rng.sample(light, 1)))
        elif k == "jobpath" and c.rng.random() < 0.4:
            # two more entry points, tried on frozen configurations only (both must be refused there):
            # the list handed out by the pre_tasks property, and copy_dependencies (sets the task mark)
            fr = [a["n"] for a in desc["actions"] if a["a"] in ("seal", "submit")]
            marked = [j for j in range(n) if desc["nodes"][j]["cls"] in ("TaskOut",) and j in submitted]
            containers = [(j, s_) for j in fr for s_, kd in SLOTS[desc["nodes"][j]["cls"]].items()
                          if kd.lstrip("o").startswith(("l", "d")) and kd not in ("int", "int!") and s_ not in READONLY
                          and kd.lstrip("o")[:1] in ("l", "d") and kd.lstrip("o") not in ("double",)]
            if fr and light and c.rng.random() < 0.2:
                ops.append(dict(op="preheldappend", n=c.rng.choice(fr), ids=c.rng.sample(light, 1)))
            elif submitted and light and c.rng.random() < 0.25:
                ops.append(dict(op="initappend", n=c.rng.choice(submitted), ids=c.rng.sample(light, 1)))
            elif containers and c.rng.random() < 0.4:
                j, s_ = c.rng.choice(containers)
                ops.append(dict(op="inplace", n=j, name=s_))
            elif fr and light and c.rng.random() < 0.6:
                ops.append(dict(op="preappend", n=c.rng.choice(fr), ids=c.rng.sample(light, 1)))
            elif fr:
                ops.append(dict(op="copydeps", n=c.rng.choice(fr), other=c.rng.randrange(n)))
        elif k == "jobpath":
            if cls in TASKS:
                ops.append(dict(op="jobpath", n=i))
        else:
            ops.append(dict(op=k, n=i))
    # identifiers of every node before and after, for the oracle
    ops = [dict(op="full", n=i) for i in range(n)] + ops + [dict(op="full", n=i) for i in range(n)]
    n = len(desc["nodes"])
    ops = [o for o in ops if not (o["op"] == "full" and False)]
    return dict(desc=desc, ops=ops, n=n)


NOT_MODELLED = ("jobpath", "copyconfig", "clone", "initappend", "preheldappend")


def g_sop(o):
    k = o["op"]
    if k == "assign":
        v = o.get("stored")
        if v is None:       # rejected: the value is irrelevant, render something harmless
            v = {"t": "none"}
        return f"(SAssign {gnat(o['n'])} {gbytes(o['name'].encode())}%N {identgen.g_value(v)})"
    if k == "meta":
        return f"(SSetMeta {gnat(o['n'])} {gopt(o['flag'], gbool)})"
    if k in ("pre", "prefrom", "preappend"):
        return f"(SAddPre {gnat(o['n'])} {glist(gnat(i) for i in o.get('ids', []))})"
    if k in ("copydeps", "inplace"):      # tried on sealed roots only, where it is refused and changes nothing: as an empty add_pretasks attempt
        return f"(SAddPre {gnat(o['n'])} [])"
    if k == "resubmit":      # refused on a submitted (sealed) task and changes nothing: as an empty add_pretasks attempt
        return f"(SAddPre {gnat(o['n'])} [])"
    return {"seal": "SSeal", "raw": "SRaw", "full": "SFull"}[k] + " " + gnat(o["n"])


def g_sexpect(a):
    if a.startswith("rejected:"):
        return "XRejected"
    if a == "ok":
        return "XOk"
    if a.startswith("exc:"):
        return "XFail"
    return f"(XId {gbytes(bytes.fromhex(a))}%N)"


def g_kcase(k):
    b = k["before"]
    # job-path requests and copies are the identity on the modelled state (the copy is a new object outside the heap)
    ops = [o for o in k["ops"] if o["op"] not in NOT_MODELLED]
    ans = [a for o, a in zip(k["ops"], k["answers"]) if o["op"] not in NOT_MODELLED]
    return (f"{{| k_classes := {identgen.g_classes(b['classes'])}; k_heap := {identgen.g_heap(b['nodes'])}; "
            f"k_cache := {identgen.g_cache(b['nodes'])}; k_ops := {glist(g_sop(o) for o in ops)}; "
            f"k_expect := {glist(g_sexpect(a) for a in ans)}; k_final := {identgen.g_heap(k['after']['nodes'])}; "
            f"k_final_cache := {identgen.g_cache(k['after']['nodes'])} |}}")


def oracle(c, case, r):
    before, after = r["before"]["nodes"], r["after"]["nodes"]
    sealed = [i for i, x in enumerate(before) if x["sealed"]]
    frozen = reachable(before, sealed)
    # every configuration reachable from a sealed one is sealed
    acts = case["desc"]["actions"]
    for i in frozen:
        if not before[i]["sealed"]:
            # recognisable special case: x was sealed first (seal action), then submitted with init tasks:
            # submit() assigns init_tasks on the already sealed x and the Sealer stops at sealed nodes
            presealed = [a["n"] for k, a in enumerate(acts) if a["a"] == "submit" and a.get("init")
                         and any(b["a"] == "seal" for b in acts[:k])]
            via_init = any(i in reachable(before, [j]) for x in presealed if x < len(before) for j in before[x]["init"])
            others = reachable_without_init(before, sealed, presealed)
            key = "C14:reachable-not-sealed"
            if via_init and i not in others:
                key += ":init-task-of-presealed-task"
            c.violation(key, "a configuration reachable from a sealed one is not sealed",
                        dict(desc=case["desc"], node=i, sealed=sealed))
    # the consequences of the known finding above (attempts accepted on such an init task) are not
    # reported a second time under other keys
    presealed = [a["n"] for k, a in enumerate(acts) if a["a"] == "submit" and a.get("init")
                 and any(b["a"] == "seal" for b in acts[:k])]
    if presealed:
        frozen = reachable_without_init(before, [i for i in sealed], presealed) & {i for i in frozen if before[i]["sealed"]} \
            if any(not before[i]["sealed"] for i in frozen) else frozen
    n = case["n"]
    first = {o["n"]: a for o, a in zip(r["ops"][:n], r["answers"][:n])}
    for o, a in zip(r["ops"], r["answers"]):
        k = o["op"]
        if k not in ("copyconfig", "clone", "initappend", "preheldappend"):
            c.count("op:" + k + ("" if k in ("full", "raw", "jobpath", "seal") else (":frozen" if o["n"] in frozen else ":free")))
        if k in ("assign", "meta", "pre", "prefrom", "resubmit", "preappend", "copydeps", "inplace") and o["n"] in frozen and not a.startswith("rejected:"):
            c.violation(f"C14:attempt-accepted:{k}", f"a {k} attempt on a frozen configuration was not rejected",
                        dict(desc=case["desc"], ops=case["ops"], op=o, answer=a))
        if k in ("initappend", "preheldappend"):
            c.count("op:" + k)
        if k in ("copyconfig", "clone"):
            c.count("op:" + k + (":frozen" if o["n"] in frozen else ":free"))
            if a.startswith("copybad:"):
                c.violation(f"C14:copy-wrong:{a[8:]}", f"{k} of a configuration did not give a fresh modifiable copy with the change",
                            dict(desc=case["desc"], ops=case["ops"], op=o, answer=a))
    # a copy (copyconfig, Config.copy) never changes any existing configuration, frozen or not, as long as every
    # other operation of the history is a request
    if all(o["op"] in ("copyconfig", "clone", "full", "raw", "jobpath") for o in r["ops"]):
        strip0 = lambda x: {k: v for k, v in x.items() if k not in ("craw", "cfull")}
        for i in range(min(len(before), len(after))):
            if strip0(before[i]) != strip0(after[i]):
                c.violation("C14:copy-changed-original", "copying a configuration changed an existing configuration",
                            dict(desc=case["desc"], ops=case["ops"], node=i, before=before[i], after=after[i]))
    last = {o["n"]: a for o, a in zip(r["ops"][-n:], r["answers"][-n:])}
    for i in frozen:
        if i < n and first.get(i) != last.get(i):
            c.violation("C14:identifier-changed", "the identifier of a frozen configuration changed",
                        dict(desc=case["desc"], ops=case["ops"], node=i, before=first.get(i), after=last.get(i)))
        strip = lambda x: {k: v for k, v in x.items() if k not in ("craw", "cfull")}   # identifier caches may fill up
        if i < len(after) and strip(before[i]) != strip(after[i]):
            c.violation("C14:frozen-node-changed", "the stored state of a frozen configuration changed",
                        dict(desc=case["desc"], ops=case["ops"], node=i, before=before[i], after=after[i]))
    paths = {}
    for o, a in zip(r["ops"], r["answers"]):
        if o["op"] == "jobpath" and a.startswith("path:"):
            if paths.setdefault(o["n"], a) != a:
                c.violation("C14:jobpath-changed", "the job directory of a submitted task changed",
                            dict(desc=case["desc"], ops=case["ops"], node=o["n"]))


def run(c: Check):
    c.rule = ("random configuration graphs (shared, cyclic, pre/init tasks, task outputs) built unsealed, then one or "
              "two random nodes sealed or submitted (dry run); then a history of 3-9 random assignment / meta-flag / "
              "pre-task attempts on random nodes (frozen or not), seals, identifier and job-path requests, bracketed "
              "by identifier requests on every node; non-trivial = at least one attempt hits a frozen configuration "
              "that is not the sealed root itself; distinct by (graph, history)")
    c.build()
    c.props()
    ncases = 120 if c.quick else 3000
    g = identgen.Gen(c.rng)
    cases = []
    if c.replay:
        rp = json.load(open(c.replay))["replay"]
        if "desc" in rp and "ops" in rp:
            cases.append(dict(desc=rp["desc"], ops=rp["ops"], n=len(rp["desc"]["nodes"])))
        ncases = 0
    cases += [gen_case(c, g) for _ in range(ncases)]
    chunks = [cases[i::16] for i in range(16)]

    def drive(chunk):
        if not chunk:
            return []
        return run_impl("drive_c14.py", dict(cases=[dict(desc=x["desc"], ops=x["ops"]) for x in chunk]), timeout=1500)

    with ThreadPoolExecutor(max_workers=16) as ex:
        results = list(ex.map(drive, chunks))
    coq_cases = []
    for ch, res in zip(chunks, results):
        for x, r in zip(ch, res):
            if "error" in r:
                c.count("build-failed")
                continue
            c.evaluations += 1
            oracle(c, x, r)
            before = r["before"]["nodes"]
            sealed = [i for i, y in enumerate(before) if y["sealed"]]
            frozen = reachable(before, sealed)
            roots = {a["n"] for a in x["desc"]["actions"] if a["a"] in ("seal", "submit")}
            if any(o["op"] in ("assign", "meta", "pre", "prefrom") and o["n"] in frozen and o["n"] not in roots for o in r["ops"]):
                c.nontrivial.add(json.dumps([x["desc"], x["ops"]], sort_keys=True))
            if not r["same_index"]:
                c.count("index-shift")
                continue
            if len(r["after"]["nodes"]) != len(r["before"]["nodes"]):
                # a seal of the history generated a configuration (GenC.gc): a node the model's heap does not have;
                # the oracle above has judged the case, the correspondence leaves it out
                c.count("configuration-generated-during-history")
                continue
            if identgen.in_model(r["before"]) and identgen.in_model(r["after"]) and \
                    all(o.get("stored", {"t": "none"})["t"] not in ("baddict", "unknown") for o in r["ops"]):
                coq_cases.append(dict(before=r["before"], after=r["after"], ops=r["ops"], answers=r["answers"], desc=x["desc"]))
    c.samples = [dict(desc=x["desc"], ops=x["ops"]) for x in cases[:2]]
    bad = c.corr_shards("corr", HEADER, coq_cases, g_kcase, "check_kcase", shard=40)
    c.extra["disagreeing_cases"] = [dict(desc=coq_cases[i]["desc"], ops=coq_cases[i]["ops"],
                                         answers=coq_cases[i]["answers"]) for i in bad[:5]]
    # the hypothesis of C14_coherent_under_edits (ginv), evaluated by the model on each exported state
    diags = c.nat_shards("inv", HEADER, coq_cases, g_kcase, "diag_kcase", shard=40)
    c.extra["states_checked_against_invariant"] = sum(1 for d in diags if d is not None)
    for i, diag in enumerate(diags):
        if diag:
            pairs = list(zip(diag[0::2], diag[1::2]))
            c.violation("C14:state-invariant" + identgen.selfmark_suffix(coq_cases[i]["desc"], pairs, coq_cases[i]["before"]["nodes"]),
                        "the state the history starts from breaks the invariant of the cache theorems: " + identgen.diag_text(pairs),
                        dict(desc=coq_cases[i]["desc"], ops=[], diagnosis=pairs))
    # ... and on the state the history ENDS in (identifiers cached during the history must be the fresh ones)
    diags2 = c.nat_shards("invfinal", HEADER, coq_cases, g_kcase, "diag_kfinal", shard=40)
    for i, diag in enumerate(diags2):
        if diag:
            pairs = list(zip(diag[0::2], diag[1::2]))
            c.violation("C14:state-invariant-after-history" + identgen.selfmark_suffix(coq_cases[i]["desc"], pairs, coq_cases[i]["after"]["nodes"]),
                        "the state the history ends in breaks the invariant of the cache theorems: " + identgen.diag_text(pairs),
                        dict(desc=coq_cases[i]["desc"], ops=coq_cases[i]["ops"], diagnosis=pairs))
    # directed probe outside the modelled domain: configuration-valued defaults (compared through TypeConfig.__eq__)
    pr = run_impl("drive_cfgdefault.py", {}, timeout=300)
    c.count("probe:config-valued-default")
    if pr["c14_before"] != pr["c14_after"] or pr["c14_jobdir"] != pr["c14_after"]:
        c.violation("C14:identifier-changed-by-sealing:config-valued-default",
                    "TD() with a: Param[A] = A(x=1), A holding a generated path: the identifier before submit() differs from "
                    "the one after (the generated value enters the comparison with the default)",
                    dict(desc=dict(nodes=[], actions=[]), ops=[], probe="harness/drive_cfgdefault.py", got=pr))
    # directed probe: list / dict values of a frozen configuration modified in place (the containers themselves)
    pr2 = run_impl("drive_c14inplace.py", {}, timeout=300)
    c.count("probe:container-modified-in-place")
    accepted = sorted(k for k, v in pr2.items() if v == "accepted")
    if accepted or not pr2.get("content_identifier_same", True):
        c.violation("C14:container-value-modified-in-place",
                    "after submit(), bag.li.append(3) / bag.di['b'] = 2 / bag.lc.append(Leaf()) on a frozen configuration are "
                    "accepted (the parameter property hands out the stored list / dict): the cached identifier and job "
                    "directory stay while params.json is written from the modified values",
                    dict(desc=dict(nodes=[], actions=[]), ops=[], probe="harness/drive_c14inplace.py", got=pr2))
    c.level_assumptions = [
        "SHA-256 is a parameter of the theorems (Gallina SHA-256 validated against hashlib by the correspondence)",
        "C14_frozen_identity is the acyclic special case; C14_coherent_under_edits / C14_sealed_identity_stable cover every graph (cycles included) from any state satisfying ginv, and ginv is evaluated on every exported state",
        "in-place mutation of a list/dict value, copy_dependencies, and python -O (set_meta is guarded by assert) are outside the property's statement",
    ]


if __name__ == "__main__":
    main_wrapper("C14", run)
