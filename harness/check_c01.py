"""C01 - a configuration's identifier is a pure function of its content."""
import json
import os
from concurrent.futures import ThreadPoolExecutor

from vcommon import Check, main_wrapper, run_impl, ROOT
import identgen

HEADER = ("From Coq Require Import ZArith NArith List Bool.\n"
          "From XV Require Import core.Value model.Hash model.Cache corr.IdentCorr.\n"
          "Import ListNotations.\n")


def is_cyclic(export):
    """a cycle through hash-relevant or any references (conservative: any VRef edges + task)"""
    n = len(export["nodes"])
    adj = [[] for _ in range(n)]

    def refs(v, acc):
        if v["t"] == "ref":
            acc.append(v["n"])
        elif v["t"] == "list":
            for x in v["v"]:
                refs(x, acc)
        elif v["t"] == "dict":
            for _, x in v["v"]:
                refs(x, acc)

    for i, x in enumerate(export["nodes"]):
        for _, v in x["fields"]:
            refs(v, adj[i])
        if x["task"] is not None:
            adj[i].append(x["task"])
    color = [0] * n

    def dfs(u):
        color[u] = 1
        for w in adj[u]:
            if color[w] == 1 or (color[w] == 0 and dfs(w)):
                return True
        color[u] = 2
        return False

    return any(color[i] == 0 and dfs(i) for i in range(n))


def make_cases(c, ngraphs):
    g = identgen.Gen(c.rng)
    cases = []
    for gi in range(ngraphs):
        desc = g.graph(p_cycle=0.45)
        n = len(desc["nodes"])
        order = list(range(n))
        hs = [[dict(op="full", n=i) for i in order]]
        for _ in range(2):
            c.rng.shuffle(order)
            h = []
            if c.rng.random() < 0.8:
                h.append(dict(op="seal", n=c.rng.randrange(n)))
            for i in order:
                h.append(dict(op=c.rng.choice(["full", "full", "raw"]), n=i))
                if c.rng.random() < 0.15:
                    h.append(dict(op="seal", n=c.rng.randrange(n)))
            hs.append(h)
        hs.append(g.history(n))
        cases.append(dict(gid=gi, variant=0, desc=desc, histories=hs))
        cases.append(dict(gid=gi, variant=1, desc=identgen.permute_desc(c.rng, desc), histories=hs))
    return cases


def golden_cases():
    f = ROOT / "golden" / "c01.json"
    return json.load(open(f)) if f.exists() else []


def run(c: Check):
    c.rule = ("random configuration graphs over the schema library (2-9 described nodes; nested, shared and cyclic "
              "references, lists, dicts, enums, task outputs, pre/init tasks, meta flags), each built in two keyword / "
              "dict-insertion orders, each with 4 request histories (unsealed in order; sealed at random points and "
              "requested in random orders), each under two PYTHONHASHSEED values in separate processes; "
              "non-trivial = graph with >= 3 nodes and at least one reference; distinct by exported heap")
    c.build()
    c.props()
    ngraphs = 60 if c.quick else 1500
    cases = []
    if c.replay:
        rp = json.load(open(c.replay))["replay"]
        if "desc" in rp:
            cases.append(dict(gid=-1, variant=0, desc=rp["desc"], histories=rp.get("histories") or [rp["history"]]))
        ngraphs = 0
    gold = golden_cases()
    for k, gcase in enumerate(gold):
        cases.append(dict(gid=-100 - k, variant=0, desc=gcase["desc"], histories=gcase["histories"], pinned=gcase["answers"]))
    cases += make_cases(c, ngraphs)
    seeds = ["0", "4242"]
    chunks = [cases[i::8] for i in range(8)]

    def drive(args):
        seed, chunk = args
        if not chunk:
            return []
        return run_impl("drive_ident.py", dict(cases=[dict(desc=x["desc"], histories=x["histories"]) for x in chunk]),
                        timeout=1500, hashseed=seed)

    with ThreadPoolExecutor(max_workers=16) as ex:
        results = list(ex.map(drive, [(s, ch) for s in seeds for ch in chunks]))
    per_seed = {}
    for (s, ch), res in zip([(s, ch) for s in seeds for ch in chunks], results):
        for x, r in zip(ch, res):
            per_seed.setdefault(s, {})[id(x)] = r
    coq_cases = []
    by_graph = {}
    for x in cases:
        r0 = per_seed[seeds[0]][id(x)]
        r1 = per_seed[seeds[1]][id(x)]
        x["export"] = r0["export"]
        # oracle 1: the same under another string-hash seed / process
        if r0["answers"] != r1["answers"] or r0["export"] != r1["export"]:
            c.violation("C01:hashseed-dependent", "identifiers differ between PYTHONHASHSEED values",
                        dict(desc=x["desc"], histories=x["histories"], seed0=r0["answers"], seed1=r1["answers"]))
        if r0.get("nondeterministic_build"):
            c.violation("C01:nondeterministic-build", "two builds of one description hold different values",
                        dict(desc=x["desc"]))
        if r0["export"] is None:
            c.count("build-failed")
            continue
        c.evaluations += len(x["histories"]) * 2
        cyc = is_cyclic(r0["export"])
        c.count("graph:cyclic" if cyc else "graph:acyclic")
        c.count(f"nodes={len(r0['export']['nodes'])}")
        for cl in r0["export"]["classes"]:
            c.count("class:" + cl["py"])
        nref = json.dumps(r0["export"]).count('"ref"')
        if len(r0["export"]["nodes"]) >= 3 and nref:
            c.nontrivial.add(json.dumps(r0["export"], sort_keys=True))
        # oracle 2: every answer for (node, kind) agrees across histories and variants of the abstract graph
        seen = by_graph.setdefault(x["gid"], {})
        for hist, ans in zip(x["histories"], r0["answers"]):
            for o, a in zip(hist, ans):
                c.count("op:" + o["op"])
                if o["op"] == "seal" or a.startswith(("exc:", "build-exc")):
                    if a.startswith("exc:"):
                        c.count("answer:" + a)
                    continue
                key = (o["n"], o["op"])
                if key in seen and seen[key][0] != a:
                    kind = "cyclic" if cyc else "acyclic"
                    c.violation(f"C01:order-dependent:{kind}",
                                "the identifier of one node differs between request histories / sealing / keyword orders",
                                dict(desc=x["desc"], history=hist, answers=ans, node=o["n"], kind=o["op"],
                                     other_history=seen[key][1], other_answer=seen[key][0], got=a))
                seen.setdefault(key, (a, hist))
        # oracle 3: pinned identifiers
        if "pinned" in x and r0["answers"] != x["pinned"] and r0.get("build_errors"):
            # the tree refuses an action of the pinned description (since /repo 0cc66af a task that was not submitted
            # is refused as a value): the graph the identifier was pinned for can no longer be built
            c.count("pinned-skipped:build-refuses-an-action")
        elif "pinned" in x and r0["answers"] != x["pinned"]:
            c.violation("C01:pinned-differs", "identifier differs from the one pinned for the same configuration",
                        dict(desc=x["desc"], histories=x["histories"], pinned=x["pinned"], got=r0["answers"]))
        if not identgen.in_model(r0["export"]):
            c.count("outside-model")
            continue
        for hist, ans in zip(x["histories"], r0["answers"]):
            if ans and ans[0].startswith("build-exc"):
                continue
            coq_cases.append(dict(export=r0["export"], ops=hist, answers=ans, desc=x["desc"],
                                  export_after=(r0.get("export_after") if hist is x["histories"][0] else None)))
    c.samples = [dict(desc=x["desc"], history=x["histories"][1], answers=per_seed[seeds[0]][id(x)]["answers"][1])
                 for x in cases[:2]]
    bad = c.corr_shards("corr", HEADER, coq_cases,
                        lambda k: identgen.g_icase(k["export"], k["ops"], k["answers"]),
                        os.environ.get("VERIF_C01_CHECKER", "check_case"), shard=60)
    c.extra["disagreeing_cases"] = [dict(desc=coq_cases[i]["desc"], ops=coq_cases[i]["ops"],
                                         answers=coq_cases[i]["answers"]) for i in bad[:5]]
    # the hypothesis of C01_cache_sound_cyclic (csound_c / ginv), evaluated by the model on each exported state
    inv_cases, seen_exp = [], set()
    for k in coq_cases:
        key = json.dumps(k["export"], sort_keys=True)
        if key not in seen_exp:
            seen_exp.add(key)
            inv_cases.append(k)
    diags = c.nat_shards("inv", HEADER, inv_cases, lambda k: identgen.g_icase(k["export"], [], []), "diag_icase", shard=60)
    c.extra["states_checked_against_invariant"] = sum(1 for d in diags if d is not None)
    for i, diag in enumerate(diags):
        if diag:
            pairs = list(zip(diag[0::2], diag[1::2]))
            c.violation("C01:cache-state-unsound" + identgen.selfmark_suffix(inv_cases[i]["desc"], pairs, inv_cases[i]["export"]["nodes"]),
                        "the state of the built graph breaks the invariant of the cache theorems: " + identgen.diag_text(pairs),
                        dict(desc=inv_cases[i]["desc"], histories=[[]], diagnosis=pairs))
    # ... and on the state the first history of each graph ENDS in (identifiers cached by the requests themselves)
    fin_cases = [k for k in inv_cases if k.get("export_after") and identgen.in_model(k["export_after"])]
    diags2 = c.nat_shards("invfinal", HEADER, fin_cases, lambda k: identgen.g_icase(k["export_after"], [], []), "diag_icase", shard=60)
    for i, diag in enumerate(diags2):
        if diag:
            pairs = list(zip(diag[0::2], diag[1::2]))
            c.violation("C01:cache-state-unsound-after-requests" + identgen.selfmark_suffix(fin_cases[i]["desc"], pairs, fin_cases[i]["export_after"]["nodes"]),
                        "the state a request history ends in breaks the invariant of the cache theorems: " + identgen.diag_text(pairs),
                        dict(desc=fin_cases[i]["desc"], histories=[fin_cases[i]["ops"]], diagnosis=pairs))
    # directed probe outside the model: the type identifier is the documented function of the class declaration
    from vcommon import EXPECTED_TID
    pr3 = run_impl("drive_typeprobe.py", {}, timeout=300)
    c.count("probe:type-identifiers")
    wrong = {k: [pr3["tid"].get(k), v] for k, v in EXPECTED_TID.items() if pr3["tid"].get(k) != v}
    if wrong:
        c.violation("C01:type-identifier-derivation", "a class does not get the type identifier the documented rules give it "
                    "(got, expected): " + json.dumps(wrong)[:300], dict(desc=dict(nodes=[], actions=[]), histories=[],
                                                                        probe="harness/drive_typeprobe.py", got=pr3))
    c.level_assumptions = [
        "SHA-256 is a parameter H of every theorem; the Gallina SHA-256 used to run the model is validated against hashlib by the correspondence itself",
        "CPython's struct.pack, str.encode('utf-8'), sorted behave as documented; class tables (flags, defaults) are read off the real ObjectType/Argument objects",
        "other processes / hash seeds are sampled on the implementation side (2 seeds per run), not proved about CPython",
        "cache soundness is proved for all graphs (cycles included) and all histories from any state satisfying csound_c; that hypothesis is evaluated (inv_icase) on every exported state",
    ]


if __name__ == "__main__":
    main_wrapper("C01", run)
