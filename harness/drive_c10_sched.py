"""Implementation driver for C10, launcher side: a real experiment whose launcher answers late.

stdin : {"scratch": dir, "delay": seconds, "modes": ["ok", "raise", ...]}
stdout: last line = JSON list, one entry per job: {"mode", "done", "failed", "pid", "B", "E", "state"}

The pid file of a job is written by the scheduler (CommandLineJob.aio_run) once the process builder has returned
the process; the job process removes it when it ends.  Here the process builder of a DirectLauncher returns `delay`
seconds after Popen, and the task bodies last a few milliseconds: whatever the launcher's delay, a job that ended
on its own must leave its marker and no pid file.
"""
import json
import logging
import os
import sys
import time
from pathlib import Path

logging.disable(logging.CRITICAL)

import experimaestro  # noqa: E402
from experimaestro import experiment  # noqa: E402
from experimaestro.connectors.local import LocalConnector, LocalProcessBuilder  # noqa: E402
from experimaestro.launchers.direct import DirectLauncher  # noqa: E402
from vpk_c10.tasks import CrashTask  # noqa: E402


def main():
    payload = json.load(sys.stdin)
    scratch, delay = Path(payload["scratch"]), float(payload["delay"])

    class LateProcessBuilder(LocalProcessBuilder):
        def start(self, task_mode=False):
            process = super().start(task_mode)
            time.sleep(delay)   # the launcher answers late (sbatch, ssh, a loaded machine)
            return process

    class LateConnector(LocalConnector):
        def processbuilder(self):
            return LateProcessBuilder()

    launcher = DirectLauncher(LateConnector(scratch / "connector"))
    launcher.setenv("PYTHONPATH", os.pathsep.join([str(Path(experimaestro.__file__).parents[1]), str(Path(__file__).parent)]))
    launcher.setenv("VPK_C10_MODE", "")
    jobs = []
    stderr, sys.stderr = sys.stderr, open(os.devnull, "w")
    stdout, sys.stdout = sys.stdout, open(os.devnull, "w")
    try:
        try:
            with experiment(scratch / "ws", "c10late", port=-1, launcher=launcher):
                for i, mode in enumerate(payload["modes"]):
                    counter = scratch / "counters" / f"{i}"
                    counter.parent.mkdir(exist_ok=True, parents=True)
                    t = CrashTask(mode=mode, counter=str(counter))
                    t.submit()
                    jobs.append((mode, t.__xpm__.job, counter))
        except Exception:
            pass   # (the experiment reports the jobs that failed)
    finally:
        sys.stderr, sys.stdout = stderr, stdout
    out = []
    for mode, job, counter in jobs:
        text = counter.read_text() if counter.is_file() else ""
        out.append(dict(mode=mode, done=job.donepath.is_file(), failed=job.failedpath.is_file(), pid=job.pidpath.is_file(),
                        B=text.count("B"), E=text.count("E"), state=str(job.state)))
    print(json.dumps(out))


if __name__ == "__main__":
    main()
