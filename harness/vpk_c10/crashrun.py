"""Crash wrapper of check C10: runs a real generated job script and makes the process die at the
n-th executed line of experimaestro/run.py or of the task body.

    python -m vpk_c10.crashrun <script.py> <eventlog> <KILL|TERM|INT|NONE> <n> [<j>]

(j >= 0: a second death - SIGKILL when j observable effects have followed the first signal and the next one is
about to happen, i.e. while the handler of the first signal, the except clause it triggers or the exit callback
runs.  Lines executed after a handled signal are not traced - the handler's SystemExit passes through the trace
function, which switches tracing off - so the points of the second death are the effect boundaries.)

Nothing in /repo is changed: the wrapper installs (in this process only) a trace function that counts
executed lines, an audit hook and thin wrappers around atexit.register/unregister and signal.signal
that append one line per observed effect to <eventlog>.  At line number n it records where the death
happens (K <sig> <ctx> ...) and sends the signal to itself.

Event log lines:
  L <n> <file>:<lineno>          traced line about to execute (file = run | task)
  E <name>                       an observable effect just happened / is being issued
  K <sig> <ctx> <n> <file>:<lineno>   the signal is sent now; ctx = try | prop | atexit
  K KILL - <j> eff:<name>        the second death: SIGKILL now, effect <name> would have been the next
  CE <name>                      an observable effect in a process forked by the task body
                                 (also appended by the driver when it sends the signal from outside to a
                                 process that is blocked on the run lock)
"""
import ast
import atexit
import json
import os
import runpy
import signal
import sys
import time

from vpk_c10 import events

SIGS = {"KILL": signal.SIGKILL, "TERM": signal.SIGTERM, "INT": signal.SIGINT}


def try_ranges(path):
    """Line ranges of the bodies of the try statements of TaskRunner.run that have a clause catching
    SystemExit (an exception raised there is caught by run() itself)."""
    tree = ast.parse(open(path).read())
    out = []
    for cls in ast.walk(tree):
        if isinstance(cls, ast.ClassDef) and cls.name == "TaskRunner":
            for fn in cls.body:
                if isinstance(fn, ast.FunctionDef) and fn.name == "run":
                    for node in ast.walk(fn):
                        if isinstance(node, ast.Try):
                            names = set()
                            for h in node.handlers:
                                if h.type is None:
                                    names.add("BaseException")
                                for t in ([h.type] if not isinstance(h.type, ast.Tuple) else h.type.elts):
                                    if isinstance(t, ast.Name):
                                        names.add(t.id)
                            if names & {"SystemExit", "BaseException"}:
                                out.append((node.body[0].lineno, node.body[-1].end_lineno))
    if not out:
        raise RuntimeError("TaskRunner.run: no try statement catching SystemExit found")
    return out


def main():
    script, logpath, signame, n = sys.argv[1], sys.argv[2], sys.argv[3], int(sys.argv[4])
    j2 = int(sys.argv[5]) if len(sys.argv) > 5 else -1
    # the dispositions a job process starts with when the scheduler spawns it
    signal.signal(signal.SIGTERM, signal.SIG_DFL)
    signal.signal(signal.SIGINT, signal.default_int_handler)

    # the scheduler writes <name>.pid right after spawning; do not start before it is there (and names this
    # process: a second process for the same job finds the file of the first one)
    pidfile = os.path.splitext(script)[0] + ".pid"
    t0 = time.time()
    while True:
        try:
            with open(pidfile) as fp:
                if json.load(fp).get("pid") == os.getpid():
                    break
        except (OSError, ValueError, AttributeError):
            pass
        if time.time() - t0 > 60:
            os._exit(97)  # the launching side never wrote the pid file: harness failure, not an observation
        time.sleep(0.002)

    import experimaestro.run as xrun
    import vpk_c10.tasks as xtask
    runpy_file = xrun.__file__
    task_file = xtask.__file__
    ranges = try_ranges(runpy_file)
    base = os.path.splitext(os.path.basename(script))[0]

    os.environ["VPK_C10_BASE"] = os.path.splitext(script)[0]
    events.open_log(logpath)
    log = events.emit
    fired, posts = [False], [0]

    def emit(text):
        """one observable effect (E ...) is about to happen (taking the lock: has just happened)"""
        if fired[0] and j2 >= 0 and not events.in_child():
            if posts[0] == j2:
                log("K KILL - %d eff:%s" % (j2, text.split(" ")[1]))
                os.kill(os.getpid(), signal.SIGKILL)
            posts[0] += 1
        log(text)

    # ---- observation of effects (this process only)
    def from_runner():
        f = sys._getframe(2)
        return f.f_code.co_filename == runpy_file

    real_register, real_unregister, real_signal = atexit.register, atexit.unregister, signal.signal

    def register(func, *a, **kw):
        if from_runner():
            emit("E RegAtexit")
        return real_register(func, *a, **kw)

    def unregister(func):
        if from_runner():
            emit("E UnregAtexit")
        return real_unregister(func)

    def sigsignal(signum, handler):
        r = real_signal(signum, handler)
        if from_runner() and signum in (signal.SIGTERM, signal.SIGINT):
            default = handler in (signal.SIG_DFL, signal.SIG_IGN, signal.default_int_handler, None)
            emit("E %s%s" % ("Restore" if default else "Set", "Term" if signum == signal.SIGTERM else "Int"))
        return r

    atexit.register, atexit.unregister, signal.signal = register, unregister, sigsignal

    import fcntl
    busy = [False]

    def marker(path):
        try:
            p = os.fspath(path)
        except TypeError:
            return None
        if isinstance(p, bytes):
            p = p.decode("utf8", "replace")
        b = os.path.basename(p)
        for suffix in ("done", "failed", "pid"):
            if b == base + "." + suffix:
                return suffix
        return None

    def lock_target(fd):
        try:
            return os.readlink("/proc/self/fd/%d" % (fd if isinstance(fd, int) else fd.fileno())).endswith(".lock")
        except (OSError, ValueError, AttributeError):
            return False

    # taking the lock is an effect once it has succeeded (a process that waits for the lock tries again and again)
    def locker(real):
        def f(fd, cmd, *a):
            r = real(fd, cmd, *a)
            if cmd & (fcntl.LOCK_EX | fcntl.LOCK_SH) and not cmd & fcntl.LOCK_UN and lock_target(fd):
                emit("E Lock")
            return r
        return f

    fcntl.lockf, fcntl.flock = locker(fcntl.lockf), locker(fcntl.flock)

    def hook(event, args):
        if busy[0]:
            return
        busy[0] = True
        try:
            if event == "open":
                path, mode, flags = args
                m = marker(path) if not isinstance(path, int) else None
                writing = (isinstance(mode, str) and any(c in mode for c in "wax+")) or \
                    (isinstance(flags, int) and flags & (os.O_WRONLY | os.O_RDWR | os.O_CREAT))
                if m == "failed" and writing:
                    emit("E WriteFailed")
                elif m == "done" and writing:
                    emit("E TouchDone")
                elif m == "pid" and writing:
                    emit("E WritePid")
            elif event == "os.utime":
                m = marker(args[0])
                if m == "done" and os.path.exists(os.fspath(args[0])):
                    emit("E TouchDone")
            elif event == "os.remove":
                m = marker(args[0])
                if m:
                    emit("E Rm" + m.capitalize())
            elif event == "os.rename":
                m = marker(args[1])
                if m == "failed":
                    emit("E WriteFailed")
                elif m == "done":
                    emit("E TouchDone")
                elif m == "pid":
                    emit("E WritePid")
                m = marker(args[0])
                if m:
                    emit("E Rm" + m.capitalize())
            elif event in ("fcntl.lockf", "fcntl.flock"):
                fd, cmd = args[0], args[1]
                if lock_target(fd) and cmd & fcntl.LOCK_UN:
                    emit("E Unlock")
        finally:
            busy[0] = False

    sys.addaudithook(hook)

    # ---- the crash injector
    sig = SIGS.get(signame)
    count = [0]

    def context(frame):
        f, outer, runframe = frame, frame, None
        while f is not None:
            if f.f_code.co_filename == runpy_file and f.f_code.co_qualname == "TaskRunner.run" and runframe is None:
                runframe = f
            outer = f
            f = f.f_back
        if runframe is not None:
            ln = runframe.f_lineno
            return "try" if any(a <= ln <= b for a, b in ranges) else "prop"
        if outer.f_code.co_filename == runpy_file:
            return "atexit"  # called by the interpreter's exit machinery
        return "prop"

    def local(frame, event, arg):
        if events.in_child():   # a process forked by the body: observed (C lines), never a kill point
            return None
        if event == "line":
            count[0] += 1
            tag = "run" if frame.f_code.co_filename == runpy_file else "task"
            log("L %d %s:%d" % (count[0], tag, frame.f_lineno))
            if sig is not None and count[0] == n:
                log("K %s %s %d %s:%d" % (signame, context(frame), n, tag, frame.f_lineno))
                fired[0] = True
                os.kill(os.getpid(), sig)
        return local

    def tracer(frame, event, arg):
        fn = frame.f_code.co_filename
        if fn == runpy_file or fn == task_file:
            return local
        return None

    sys.argv = [script]
    sys.settrace(tracer)
    runpy.run_path(script, run_name="__main__")


if __name__ == "__main__":
    main()
