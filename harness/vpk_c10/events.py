"""Event log shared by the crash wrapper and the task body (never traced: no kill point inside)."""
import os
import time

_FD = None


def open_log(path):
    global _FD
    _FD = os.open(path, os.O_WRONLY | os.O_CREAT | os.O_APPEND, 0o644)


def emit(text):
    if _FD is not None:
        os.write(_FD, (text + "\n").encode())


def mark(counter_path, letter, event):
    """Append one letter to the body counter file and log the event, with no kill point in between."""
    fd = os.open(counter_path, os.O_WRONLY | os.O_CREAT | os.O_APPEND, 0o644)
    os.write(fd, letter.encode())
    os.close(fd)
    emit(event)
    # double launches: the body of the first process stays here (not a traced line, no kill point) until the
    # driver opens the latch
    hold = os.environ.get("VPK_C10_HOLD")
    if hold and letter == "B":
        t0 = time.time()
        while not os.path.exists(hold) and time.time() - t0 < 120:
            time.sleep(0.005)
