"""Event log shared by the crash wrapper and the task body (never traced: no kill point inside)."""
import os

_FD = None


def open_log(path):
    global _FD
    _FD = os.open(path, os.O_WRONLY | os.O_CREAT | os.O_APPEND, 0o644)


def emit(text):
    if _FD is not None:
        os.write(_FD, (text + "\n").encode())


def mark(counter_path, letter, event):
    """Append one letter to the body counter file and log the event, with no kill point in between."""
    fd = os.open(counter_path, os.O_WRONLY | os.O_CREAT | os.O_APPEND, 0o644)
    os.write(fd, letter.encode())
    os.close(fd)
    emit(event)
