"""Event log shared by the crash wrapper and the task body (never traced: no kill point inside)."""
import os
import time

import sys

_FD = None
_PID = None


def open_log(path):
    global _FD, _PID
    _FD = os.open(path, os.O_WRONLY | os.O_CREAT | os.O_APPEND, 0o644)
    _PID = os.getpid()


def in_child():
    """this process was forked by the task body (it is not the job process)"""
    return _PID is not None and os.getpid() != _PID


def emit(text):
    """what a process forked by the body does is logged with the prefix C"""
    if _FD is not None:
        os.write(_FD, (("C" if in_child() else "") + text + "\n").encode())


def mark(counter_path, letter, event):
    """Append one letter to the body counter file and log the event, with no kill point in between."""
    fd = os.open(counter_path, os.O_WRONLY | os.O_CREAT | os.O_APPEND, 0o644)
    os.write(fd, letter.encode())
    os.close(fd)
    emit(event)
    # double launches: the body of the first process stays here (not a traced line, no kill point) until the
    # driver opens the latch
    hold = os.environ.get("VPK_C10_HOLD")
    if hold and letter == "B":
        t0 = time.time()
        while not os.path.exists(hold) and time.time() - t0 < 120:
            time.sleep(0.005)


def fork_child(counter_path, how):
    """The body forks (as multiprocessing with the fork start method or a plain os.fork does); the child leaves as
    `how` says - quit: os._exit(0) (what multiprocessing children do), exit0 / exit3: sys.exit(code), raise: an
    exception nobody catches, return: it returns from the body as if it were the job - and the parent waits for it, then marks F.  Not traced: no kill point in between,
    the whole life of the child is one moment of the body."""
    pid = os.fork()
    if pid == 0:
        if how == "quit":
            os._exit(0)
        if how == "exit0":
            sys.exit(0)
        if how == "exit3":
            sys.exit(3)
        if how == "return":
            return "child"   # the child goes back through the frames of the body and of the runner
        raise RuntimeError("C10 forked child failure")
    os.waitpid(pid, 0)
    # the markers as they are now, the job process being in the middle of its body
    base = os.environ.get("VPK_C10_BASE")
    if base:
        emit("M %d%d%d" % tuple(int(os.path.exists(base + ext)) for ext in (".done", ".failed", ".pid")))
    mark(counter_path, "F", "E Fork")
    return "parent"
