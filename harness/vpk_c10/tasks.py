"""The tiny task of check C10.  Its body appends B (begun) / E (completed) to a counter file and
then succeeds, raises, or leaves through sys.exit / a BaseException, depending on `mode`
(the environment variable VPK_C10_MODE, when set, overrides the parameter for one launch).
A mode `<m>+<how>` makes the body fork first (see events.fork_child) and then go on as `<m>`."""
import os
import sys

from experimaestro import Task, Param

from vpk_c10.events import mark, fork_child


class CrashTask(Task):
    mode: Param[str]
    counter: Param[str]

    def execute(self):
        mode = os.environ.get("VPK_C10_MODE") or self.mode
        mark(self.counter, "B", "E BodyBegin")
        steps = 0
        for _ in range(2):
            steps += 1
        if "+" in mode:
            mode, how = mode.split("+")
            if fork_child(self.counter, how) == "child":
                return
            steps += 1
        if mode == "ok":
            mark(self.counter, "E", "E BodyEnd")
            return
        if mode == "exit0":
            mark(self.counter, "E", "E BodyEnd")
            sys.exit(0)
        mark(self.counter, "X", "E BodyEnd")
        if mode == "raise":
            raise RuntimeError("C10 body failure")
        if mode == "exit3":
            sys.exit(3)
        if mode == "base":
            raise KeyboardInterrupt()
        raise ValueError(mode)
