"""Importable harness package of check C10 (task class, crash wrapper, event log)."""
