"""Directed probe for C12 on DataPath parameters: every save/load path keeps, for each configuration, the content of
ITS data file, and the job process observes a Path.  Output: one JSON document on the last line."""
import json
import shutil
import sys
import tempfile
from pathlib import Path

from experimaestro.core import serialization
from experimaestro.core.context import SerializationContext
from experimaestro.core.objects import ConfigInformation


def main():
    json.load(sys.stdin)
    from vpk import datapath as m
    out = {}
    wd = Path(tempfile.mkdtemp(prefix="xpmverif-c12data-"))
    try:
        files = []
        for i in range(4):
            f = wd / f"f{i}"
            f.write_text(f"content-{i}")
            files.append(f)
        h = m.DHolder(a=m.D(x=0, d=files[0]), b=m.D(x=1, d=files[1]), l=[m.D(x=2, d=files[2]), m.D(x=3, d=files[3])])
        want = ["content-0", "content-1", "content-2", "content-3"]

        def contents(r):
            return [Path(c.d).read_text() for c in [r.a, r.b] + list(r.l)]
        # save / load
        try:
            d1 = wd / "saved"
            d1.mkdir()
            serialization.save(h, d1)
            out["save_load"] = contents(serialization.load(d1))
        except Exception as e:  # noqa
            out["save_load"] = "exc:" + type(e).__name__
        # serialize / deserialize
        try:
            d2 = wd / "ser"
            d2.mkdir()
            h.__xpm__.serialize(d2)
            out["serialize_deserialize"] = contents(ConfigInformation.deserialize(d2))
        except Exception as e:  # noqa
            out["serialize_deserialize"] = "exc:" + type(e).__name__
        # the job process: definitions written without save directory, loaded as runtime objects
        try:
            objs = json.loads(json.dumps(h.__xpm__.__get_objects__([], SerializationContext())))
            inst = ConfigInformation.fromParameters(objs, as_instance=True, discard_id=True)
            out["instance_types"] = sorted({type(c.d).__name__ for c in [inst.a, inst.b] + list(inst.l)})
            out["instance"] = contents(inst)
        except Exception as e:  # noqa
            out["instance"] = "exc:" + type(e).__name__
        # a top-level LIST of configurations, saved twice into one directory: each keeps its data, the sources are intact
        try:
            d3 = wd / "savedlist"
            d3.mkdir()
            a, b = m.D(x=0, d=files[0]), m.D(x=1, d=files[1])
            serialization.save([a, b], d3)
            serialization.save([b, a], d3)
            loaded = serialization.load(d3)
            out["save_list"] = sorted(Path(c.d).read_text() for c in loaded)
            out["sources_intact"] = [f.read_text() for f in files]
        except Exception as e:  # noqa
            out["save_list"] = "exc:" + type(e).__name__
        out["want"] = want
    finally:
        shutil.rmtree(wd, ignore_errors=True)
    sys.stderr = open("/dev/null", "w")
    print(json.dumps(out))


if __name__ == "__main__":
    main()
