"""Runs the repository's own test suite on each recorded seeded change (scratch worktree) and stores
which BASELINE.stable_pass tests did not pass (after one re-run of those alone) in seeded/<name>/meta.json."""
import json
import subprocess
import sys
import time
import xml.etree.ElementTree as ET
from pathlib import Path

ROOT = Path(__file__).resolve().parent.parent
PY = "/venv/bin/python"


def sh(cmd, **kw):
    return subprocess.run(cmd, capture_output=True, text=True, **kw)


def passed_tests(xml):
    ok = set()
    if xml.exists():
        for tc in ET.parse(xml).getroot().iter("testcase"):
            if not any(ch.tag in ("failure", "error", "skipped") for ch in tc):
                ok.add(f"{tc.get('classname')}::{tc.get('name')}")
    return ok


def main():
    names = [a for a in sys.argv[1:] if not a.startswith("--")] or sorted(p.name for p in (ROOT / "seeded").iterdir() if (p / "meta.json").exists())
    base = json.load(open("/root/.vp/BASELINE.json"))
    for name in names:
        d = ROOT / "seeded" / name
        meta = json.load(open(d / "meta.json"))
        if "suite_stable_missing" in meta and not meta["suite_stable_missing"] and "--force" not in sys.argv:
            continue
        wt = Path(f"/tmp/ss-{name}")
        sh(["git", "-C", "/repo", "worktree", "remove", "--force", str(wt)])
        r = sh(["git", "-C", "/repo", "worktree", "add", "--detach", str(wt), meta.get("base", "HEAD")])
        try:
            ap = sh(["git", "-C", str(wt), "apply", str(d / "patch.diff")])
            if ap.returncode == 0:
                meta.pop("suite_note", None)
            if ap.returncode != 0:
                meta["suite_note"] = "patch does not apply to the current HEAD: " + ap.stderr[-200:]
                (d / "meta.json").write_text(json.dumps(meta, indent=1))
                print(name, "PATCH DOES NOT APPLY")
                continue
            t0 = time.time()
            xml = wt / "junit.xml"
            sh([PY, "-m", "pytest", "-ra", "-q", "-p", "no:cacheprovider", "--timeout=900",
                "--continue-on-collection-errors", f"--junitxml={xml}"], cwd=str(wt), timeout=3600)
            missing = sorted(set(base["stable_pass"]) - passed_tests(xml))
            rerun_ok = None
            if missing:
                sel = [m.split("::")[0].replace(".", "/") + ".py::" + m.split("::")[1] for m in missing]
                xml2 = wt / "junit2.xml"
                sh([PY, "-m", "pytest", "-q", "-p", "no:cacheprovider", "--timeout=900", f"--junitxml={xml2}"] + sel,
                   cwd=str(wt), timeout=3600)
                still = sorted(set(missing) - passed_tests(xml2))
                rerun_ok = not still
                meta["suite_still_missing_after_rerun"] = still
            meta["suite_stable_missing"] = missing
            meta["suite_missing_rerun_ok"] = rerun_ok
            meta["suite_wall_s"] = round(time.time() - t0)
            meta["suite_head"] = sh(["git", "-C", "/repo", "rev-parse", "--short", "HEAD"]).stdout.strip()
            if "repository test suite" not in " ".join(meta.get("ran", [])):
                meta.setdefault("ran", []).append(
                    "repository test suite (BASELINE cmd, junit) with the change in a scratch worktree; stable_pass tests "
                    "compared, the missing ones re-run alone")
            (d / "meta.json").write_text(json.dumps(meta, indent=1))
            print(name, "missing:", missing, "rerun_ok:", rerun_ok, flush=True)
        finally:
            sh(["git", "-C", "/repo", "worktree", "remove", "--force", str(wt)])
        # leftovers of the repository's restart tests
        subprocess.run("ps -eo pid,ppid,etimes,args | awk '$2==1 && $3>120 && /tests[.]restart[.]restart/ {print $1}' | xargs -r kill -9",
                       shell=True)


if __name__ == "__main__":
    main()
