"""Implementation driver for C12: save (three paths) and load configuration graphs.
Input  {"cases":[{"desc":..., "root": k}]}
Output per case: export (heap before), defs (canonicalised definitions of __get_objects__), reloaded
(nodes of the graph rebuilt by load_objects, aligned on the original indices), identifiers before/after,
the same through state_dict/from_state_dict and save/load, and the as-instance view."""
import json
import sys
import tempfile
import shutil
from pathlib import Path
from enum import Enum

import identlib
from experimaestro import experiment, Config
from experimaestro.core.objects import ConfigInformation
from experimaestro.core.context import SerializationContext
from experimaestro.core import serialization
from experimaestro.scheduler.workspace import RunMode


def canon_defs(b, objects):
    """definitions -> canonical form over heap indices"""
    idx = {id(o): i for i, o in enumerate(b.allobjs)}

    def cv(v):
        if isinstance(v, list):
            return {"t": "list", "v": [cv(x) for x in v]}
        if isinstance(v, dict):
            if "type" not in v:
                return {"t": "dict", "v": [[list(k.encode()), cv(x)] for k, x in v.items()]}
            if v["type"] == "python":
                return {"t": "ref", "n": idx.get(v["value"], -1)}
            if v["type"] == "dict" and isinstance(v.get("value"), dict):
                # the wrapped form of a dictionary that itself has a key named "type"
                return {"t": "dict", "v": [[list(k.encode()), cv(x)] for k, x in v["value"].items()]}
            if v["type"] == "path":
                sv = v["value"]
                if b.wd and sv.startswith(b.wd):
                    sv = "$WD" + sv[len(b.wd):]
                return {"t": "path", "b": list(sv.encode())}
            if v["type"] == "enum":
                # an IntEnum member is an int (a str-based Enum member a str) for the hash and for the exported
                # heap: it is compared by that value
                import importlib
                from experimaestro.core.objects import getqualattr
                member = getqualattr(importlib.import_module(v["module"]), v["enum"])[v["value"]]
                if isinstance(member, int):
                    return {"t": "int", "v": int(member)}
                if isinstance(member, str):
                    return {"t": "str", "b": list(str.__str__(member).encode())}
                return {"t": "enum", "b": list(f"{v['module']}.{v['enum']}:{v['value']}".encode())}
            return {"t": "unknown", "py": v["type"]}
        if v is None:
            return {"t": "none"}
        if isinstance(v, bool):
            return {"t": "bool", "v": v}
        if isinstance(v, int):
            return {"t": "int", "v": v}
        if isinstance(v, float):
            import struct
            return {"t": "float", "bits": struct.unpack("!Q", struct.pack("!d", v))[0]}
        if isinstance(v, str):
            return {"t": "str", "b": list(v.encode())}
        return {"t": "unknown", "py": type(v).__name__}

    out = []
    for d in objects:
        i = idx.get(d["id"], -1)
        out.append(dict(id=i, typename=d["typename"], pymod=d.get("module"), pytype=d.get("type"),
                        fields=[[list(k.encode()), cv(v)] for k, v in d["fields"].items()],
                        pre=[idx.get(p, -1) for p in d.get("pre-tasks", [])],
                        init=[idx.get(p, -1) for p in d.get("init-tasks", [])],
                        meta=d.get("meta", None), task=(idx.get(d["task"], -1) if "task" in d else None),
                        identifier=d["identifier"]))
    return out


def export_reloaded(b, objects, loaded):
    """nodes rebuilt by load_objects, aligned on the original heap indices (None elsewhere)"""
    idx = {id(o): i for i, o in enumerate(b.allobjs)}
    rid = {id(loaded[d["id"]]): idx.get(d["id"], -1) for d in objects}
    nodes = [None] * len(b.allobjs)
    ids = {}
    wd = b.wd

    def ev(v):
        import struct
        if v is None:
            return {"t": "none"}
        if isinstance(v, bool):
            return {"t": "bool", "v": v}
        if isinstance(v, int):
            return {"t": "int", "v": v}
        if isinstance(v, float):
            return {"t": "float", "bits": struct.unpack("!Q", struct.pack("!d", v))[0]}
        if isinstance(v, str):
            return {"t": "str", "b": list(v.encode())}
        if isinstance(v, Path):
            sv = str(v)
            if wd and sv.startswith(wd):
                sv = "$WD" + sv[len(wd):]
            return {"t": "path", "b": list(sv.encode())}
        if isinstance(v, Enum):
            k = v.__class__
            return {"t": "enum", "b": list(f"{k.__module__}.{k.__qualname__}:{v.name}".encode())}
        if isinstance(v, list):
            return {"t": "list", "v": [ev(x) for x in v]}
        if isinstance(v, dict):
            return {"t": "dict", "v": [[list(k.encode()), ev(x)] for k, x in v.items()]}
        if isinstance(v, Config):
            return {"t": "ref", "n": rid.get(id(v), -1)}
        return {"t": "unknown", "py": type(v).__name__}

    for d in objects:
        o = loaded[d["id"]]
        i = idx.get(d["id"], -1)
        x = o.__xpm__
        node = dict(pycls=type(o).__xpmtype__.basetype.__qualname__, pymod=type(o).__xpmtype__.basetype.__module__,
                    fields=[[list(k.encode()), ev(v)] for k, v in x.values.items()],
                    meta=x._meta, task=None if x.task is None else rid.get(id(x.task), -1),
                    pre=[rid.get(id(p), -1) for p in x.pre_tasks], init=[rid.get(id(p), -1) for p in x.init_tasks],
                    sealed=bool(x._sealed), loaded=bool(x.loaded))
        try:
            ids[i] = o.__xpm__.full_identifier.all.hex()
        except Exception as e:  # noqa
            ids[i] = "exc:" + type(e).__name__
        if 0 <= i < len(nodes):
            nodes[i] = node
    return nodes, ids


def instance_view(objects, definitions_ids, b):
    """as_instance load: per definition, the attribute values the task code observes"""
    import struct
    log = []
    loaded = ConfigInformation.load_objects(json.loads(json.dumps(objects)), as_instance=True, discard_id=True)
    idx = {id(o): i for i, o in enumerate(b.allobjs)}
    rid = {id(loaded[d["id"]]): idx.get(d["id"], -1) for d in objects}

    def ev(v):
        if v is None:
            return {"t": "none"}
        if isinstance(v, bool):
            return {"t": "bool", "v": v}
        if isinstance(v, int):
            return {"t": "int", "v": v}
        if isinstance(v, float):
            return {"t": "float", "bits": struct.unpack("!Q", struct.pack("!d", v))[0]}
        if isinstance(v, str):
            return {"t": "str", "b": list(v.encode())}
        if isinstance(v, Path):
            sv = str(v)
            if b.wd and sv.startswith(b.wd):
                sv = "$WD" + sv[len(b.wd):]
            return {"t": "path", "b": list(sv.encode())}
        if isinstance(v, Enum):
            k = v.__class__
            return {"t": "enum", "b": list(f"{k.__module__}.{k.__qualname__}:{v.name}".encode())}
        if isinstance(v, list):
            return {"t": "list", "v": [ev(x) for x in v]}
        if isinstance(v, dict):
            return {"t": "dict", "v": [[list(k.encode()), ev(x)] for k, x in v.items()]}
        if id(v) in rid:
            return {"t": "ref", "n": rid[id(v)]}
        return {"t": "unknown", "py": type(v).__name__}

    out = {}
    for d in objects:
        o = loaded[d["id"]]
        out[idx.get(d["id"], -1)] = [[list(k.encode()), ev(getattr(o, k, "<unset>"))] for k in d["fields"]]
    return out


def run_case(case, wd):
    b = identlib.Built(case["desc"], wd)
    export = b.export()
    root = b.allobjs[case["root"]]
    res = dict(export=export, build_errors=b.errors)
    ids_before = {}
    for i, o in enumerate(b.allobjs):
        try:
            ids_before[i] = o.__xpm__.full_identifier.all.hex()
        except Exception as e:  # noqa
            ids_before[i] = "exc:" + type(e).__name__
    res["ids_before"] = ids_before
    objects = root.__xpm__.__get_objects__([], SerializationContext())
    export2 = b.export()       # objects discovered meanwhile keep their indices
    objects = json.loads(json.dumps(objects))
    res["defs"] = canon_defs(b, objects)
    try:
        loaded = ConfigInformation.load_objects(objects, as_instance=False, discard_id=True)
    except Exception as e:  # noqa
        res["load_error"] = type(e).__name__ + ":" + str(e)[:200]
        return res
    res["reloaded"], res["ids_after"] = export_reloaded(b, objects, loaded)
    # path 2: state_dict / from_state_dict ; path 3: save / load
    st = json.loads(json.dumps(serialization.state_dict(SerializationContext(), root)))
    res["defs_state_dict"] = canon_defs(b, st["objects"])
    r2 = serialization.from_state_dict(st)      # default discard_id=False: the stored identifiers are available
    res["id_state_dict"] = r2.__xpm__.full_identifier.all.hex()
    res["raw_root_before"] = root.__xpm__.raw_identifier.all.hex()
    res["raw_state_dict"] = r2.__xpm__.raw_identifier.all.hex()
    # a new configuration that embeds the reloaded one must be identified like one embedding the original
    from vpk import schema as _schema
    try:
        res["embed_before"] = _schema.Inner(c=root).__xpm__.full_identifier.all.hex()
        res["embed_state_dict"] = _schema.Inner(c=r2).__xpm__.full_identifier.all.hex()
    except Exception as e:  # noqa
        res["embed_before"] = res["embed_state_dict"] = "exc:" + type(e).__name__
    d = Path(tempfile.mkdtemp(prefix="c12-", dir=wd))
    serialization.save(root, d)
    r3 = serialization.load(d)
    res["id_save_load"] = r3.__xpm__.full_identifier.all.hex()
    res["raw_save_load"] = r3.__xpm__.raw_identifier.all.hex()
    res["defs_save"] = canon_defs(b, json.load(open(d / "definition.json"))["objects"])
    # path 6: the state is loaded by a LATER version of the code: the class declares another value for its constant
    # (K1 -> K2, same type identifier) or has been extended with defaulted / ignored parameters (V1 -> V2).  The
    # loaded configuration stands for what was saved: it keeps its stored constant and its identifier
    try:
        st6 = json.loads(json.dumps(st))
        changed = 0
        for o in st6["objects"]:
            if o.get("module") == "vpk.schema" and o.get("type") in ("K1", "V1"):
                o["type"] = {"K1": "K2", "V1": "V2"}[o["type"]]
                o["typename"] = "vpk.schema." + o["type"]
                changed += 1
        res["later_code_changed"] = changed
        if changed:
            objs6 = ConfigInformation.load_objects(st6["objects"], as_instance=False, discard_id=True)
            r6 = ConfigInformation._objectFromParameters(st6["data"], objs6)
            res["id_later_code"] = r6.__xpm__.full_identifier.all.hex()
    except Exception as e:  # noqa
        res["later_code_error"] = type(e).__name__ + ":" + str(e)[:200]
    # path 4: the parameter file of a job (outputjson): definitions and tags
    try:
        import io
        ctx = SerializationContext()
        ctx.workspace = experiment.CURRENT.workspace
        buf = io.StringIO()
        root.__xpm__.outputjson(buf, ctx)
        params = json.loads(buf.getvalue())
        res["defs_params"] = canon_defs(b, params["objects"])
        res["params_tags"] = params["tags"]
        res["tags"] = json.loads(json.dumps(root.tags()))
    except Exception as e:  # noqa
        res["params_error"] = type(e).__name__ + ":" + str(e)[:200]
    # path 5: the job folder prepared twice (GENERATE_ONLY) for the same identifier with OTHER tags: the parameter
    # file is the one of the last submission
    try:
        from experimaestro import Task
        if isinstance(root, Task) and root.__xpm__.job is None:
            root.submit(run_mode=RunMode.GENERATE_ONLY)
            pfile = root.__xpm__.job.path / "params.json"
            b2 = identlib.Built(case["desc"], wd)
            b2.export()
            root2 = b2.allobjs[case["root"]]
            if isinstance(root2, Task) and root2.__xpm__.job is None:
                root2.tag("prep", 0)
                root2.submit(run_mode=RunMode.GENERATE_ONLY)
                res["prep_same_folder"] = (root2.__xpm__.job.path == root.__xpm__.job.path)
                res["prep_tags_written"] = json.load(open(pfile))["tags"]
                res["prep_tags"] = json.loads(json.dumps(root2.tags()))
    except Exception as e:  # noqa
        res["prep_error"] = type(e).__name__ + ":" + str(e)[:200]
    # path 7: the lightweight tasks the job process executes before the task (fromParameters, instance mode)
    try:
        from vpk import schema as _schema2
        captured = {}
        orig_load = ConfigInformation.load_objects

        def _capture(*a, **k):
            r = orig_load(*a, **k)
            captured["objects"] = r
            return r
        ConfigInformation.load_objects = staticmethod(_capture)
        try:
            del _schema2.TRACE[:]
            ConfigInformation.fromParameters(json.loads(json.dumps(objects)), as_instance=True, discard_id=True)
        finally:
            ConfigInformation.load_objects = staticmethod(orig_load)
        captured7 = dict(captured["objects"])
        trace7 = list(_schema2.TRACE)
        # ... and the same list returned instead of executed (configuration mode, return_tasks=True)
        try:
            ConfigInformation.load_objects = staticmethod(_capture)
            r8 = ConfigInformation.fromParameters(json.loads(json.dumps(objects)), as_instance=False, return_tasks=True,
                                                  discard_id=True)
            back8 = {id(v): {id(o): i for i, o in enumerate(b.allobjs)}.get(k, -1) for k, v in captured["objects"].items()}
            res["returned_tasks"] = [back8.get(id(t), -2) for t in r8[1]] if isinstance(r8, tuple) and len(r8) == 2 else "shape"
        except Exception as e:  # noqa
            res["returned_tasks"] = "exc:" + type(e).__name__
        finally:
            ConfigInformation.load_objects = staticmethod(orig_load)
        idx7 = {id(o): i for i, o in enumerate(b.allobjs)}
        back = {id(v): idx7.get(k, -1) for k, v in captured7.items()}
        res["executed"] = [back.get(id(t), -2) for t in trace7]
    except Exception as e:  # noqa
        res["executed_error"] = type(e).__name__ + ":" + str(e)[:200]
    try:
        res["instance"] = instance_view(objects, None, b)
    except Exception as e:  # noqa
        res["instance"] = "exc:" + type(e).__name__ + ":" + str(e)[:100]
    return res


def main():
    payload = json.load(sys.stdin)
    wd = tempfile.mkdtemp(prefix="xpmverif-c12-")
    out = []
    try:
        with experiment(wd, "c12", port=-1, run_mode=RunMode.DRY_RUN):
            for case in payload["cases"]:
                try:
                    out.append(run_case(case, wd))
                except Exception as e:  # noqa
                    import traceback
                    out.append(dict(error=type(e).__name__ + ":" + str(e)[:300], tb=traceback.format_exc()[-800:]))
    finally:
        shutil.rmtree(wd, ignore_errors=True)
    sys.stderr = open("/dev/null", "w")
    print(json.dumps(out))


if __name__ == "__main__":
    main()
