"""Implementation driver for C14: build, seal/submit (part of the description's actions), export,
run the attempt history, export again.
Input  {"cases":[{"desc":..., "ops":[...]}]}
Output [{"before":export, "answers":[...], "ops":[effective ops], "after":export, "build_errors":[...]}]"""
import json
import sys
import tempfile
import shutil

import identlib
from experimaestro import experiment
from experimaestro.scheduler.workspace import RunMode


def main():
    payload = json.load(sys.stdin)
    wd = tempfile.mkdtemp(prefix="xpmverif-c14-")
    out = []
    try:
        with experiment(wd, "c14", port=-1, run_mode=RunMode.DRY_RUN):
            for case in payload["cases"]:
                try:
                    b = identlib.Built(case["desc"], wd)
                    before = b.export()
                    ans, eff = b.run_sops(case["ops"])
                    # the objects discovered by the first export keep their indices
                    objs = list(b.allobjs)
                    b2 = b.export()
                    same_index = all(x is y for x, y in zip(objs, b.allobjs))
                    out.append(dict(before=before, answers=ans, ops=eff, after=b2, build_errors=b.errors,
                                    same_index=same_index))
                except Exception as e:  # noqa
                    out.append(dict(error=type(e).__name__ + ":" + str(e)[:200]))
    finally:
        shutil.rmtree(wd, ignore_errors=True)
    sys.stderr = open("/dev/null", "w")
    print(json.dumps(out))


if __name__ == "__main__":
    main()
