"""Implementation driver for C19: runs the real createFilter / `jobs clean` / `orphans`
on generated filter texts and on-disk workspaces.

stdin : {"root": dir, "cases": [...]}         stdout (last line): list of answers
"""
import atexit
import json
import logging
import os
import shutil
import subprocess
import sys
from pathlib import Path

logging.disable(logging.CRITICAL)

from click.testing import CliRunner  # noqa: E402
from experimaestro.cli import cli  # noqa: E402
import experimaestro.cli.jobs  # noqa: E402,F401  (registers the `jobs` group)
from experimaestro.cli.filter import createFilter, JobInformation  # noqa: E402

logging.disable(logging.CRITICAL)

_sleeper = None


def live_pid():
    """pid of a process that stays alive for the whole run"""
    global _sleeper
    if _sleeper is None:
        _sleeper = subprocess.Popen(["sleep", "7200"], stdin=subprocess.DEVNULL, stdout=subprocess.DEVNULL,
                                    stderr=subprocess.DEVNULL, close_fds=True)
        atexit.register(_sleeper.kill)
    return _sleeper.pid


def dead_pid():
    """a pid no process can have"""
    return int(Path("/proc/sys/kernel/pid_max").read_text()) + 4321


def scriptname(task):
    return task.rsplit(".", 1)[-1]


def make_job(ws: Path, j):
    d = ws / "jobs" / j["task"] / j["hash"]
    d.mkdir(parents=True)
    s = scriptname(j["task"])
    (d / "params.json").write_text(json.dumps(
        {"workspace": str(ws), "tags": j["tags"], "version": 2,
         "objects": [{"id": 1, "module": "m", "type": "T", "typename": j["task"], "identifier": j["hash"],
                      "task": 1, "fields": {}}]}))
    (d / f"{s}.py").write_text("# job script\n")
    (d / f"{s}.out").write_text("")
    (d / f"{s}.err").write_text("")
    if j["done"]:
        (d / f"{s}.done").touch()
    if j["failed"]:
        (d / f"{s}.failed").write_text("1")
    if j["pid"]:
        text = json.dumps({"type": "local", "pid": live_pid() if j["alive"] else dead_pid()})
        # the scheduler starts the process, then opens the pid file and writes it: until the file is closed it is
        # empty or cut (for ever if the scheduler is killed there) while the job process runs
        kind = j.get("pidfile", "ok")
        (d / f"{s}.pid").write_text("" if kind == "empty" else text[:len(text) // 2] if kind == "truncated" else text)
        if j["alive"]:
            live_pid()
    return d


class Access:
    """the path the command is given for the workspace: the folder itself, a symbolic link to it, a path through `..`,
    or a path relative to the current directory"""

    def __init__(self, ws: Path, kind: str):
        self.ws, self.kind, self.cwd = ws, kind or "direct", None
        self.link = ws.parent / (ws.name + "-link")

    def path(self) -> Path:
        if self.kind == "symlink":
            return self.link
        if self.kind == "dotdot":
            return self.ws / "jobs" / ".." / ".." / self.ws.name
        if self.kind == "relative":
            return Path(self.ws.name)
        return self.ws

    def absolute(self) -> Path:
        return self.ws if self.kind == "relative" else self.path()

    def __enter__(self):
        if self.kind == "symlink":
            os.symlink(self.ws, self.link)
        if self.kind == "relative":
            self.cwd = os.getcwd()
            os.chdir(self.ws.parent)
        return self

    def __exit__(self, *a):
        if self.cwd is not None:
            os.chdir(self.cwd)
        if self.kind == "symlink" and self.link.is_symlink():
            self.link.unlink()


def make_ws(ws: Path, w, base: Path = None):
    """base: the path of the workspace as the experiment that wrote the index saw it (index entries are absolute links)"""
    base = base or ws
    ws.mkdir(parents=True)
    (ws / ".__experimaestro__").touch()
    (ws / "jobs").mkdir()
    (ws / "xp").mkdir()
    for j in w["jobs"]:
        make_job(ws, j)
    for l in w.get("links", []):
        # as `deprecated list --fix` does: jobs/<new task>/<new id> -> (absolute) jobs/<old task>/<old id>
        (ws / "jobs" / l["task"]).mkdir(exist_ok=True)
        os.symlink(ws / "jobs" / l["to"][0] / l["to"][1], ws / "jobs" / l["task"] / l["hash"])
    for st in w.get("strays", []):
        (ws / "jobs" / st["task"]).mkdir(exist_ok=True)
        if st["kind"] == "file":
            (ws / "jobs" / st["task"] / st["name"]).write_text("not a job\n")
        else:
            os.symlink(ws / "jobs" / st["task"] / "gone", ws / "jobs" / st["task"] / st["name"])
    for x in w["xps"]:
        xd = ws / "xp" / x["name"]
        xd.mkdir()
        (xd / "lock").touch()
        for sub, keys in (("jobs", x["jobs"]), ("jobs.bak", x["bak"])):
            if keys is None:
                continue
            (xd / sub).mkdir()
            for t, h in keys:
                (xd / sub / t).mkdir(exist_ok=True)
                # as the scheduler does: an absolute link to the job directory (dangling if absent)
                os.symlink(base / "jobs" / t / h, xd / sub / t / h)


def snapshot(ws: Path):
    out = set()
    for root, dirs, files in os.walk(ws, followlinks=False):
        r = Path(root).relative_to(ws)
        for n in dirs + files:
            out.add(str(r / n))
    return out


def jobdirs(ws: Path):
    return {(p.parent.name, p.name) for p in (ws / "jobs").glob("*/*") if p.is_dir() and not p.is_symlink()}


def diff(ws: Path, before, jobs_before):
    after = snapshot(ws)
    jobs_after = jobdirs(ws)
    removed = sorted(jobs_before - jobs_after)
    prefixes = tuple(f"jobs/{t}/{h}/" for t, h in removed)
    exact = {f"jobs/{t}/{h}" for t, h in removed}
    extra = sorted(p for p in before - after if p not in exact and not p.startswith(prefixes))
    return dict(removed=[list(k) for k in removed], extra_removed=extra, created=sorted(after - before))


def excname(result):
    if result.exception is not None and not (isinstance(result.exception, SystemExit) and result.exit_code == 0):
        return type(result.exception).__name__
    return None if result.exit_code == 0 else f"exit{result.exit_code}"


def run_filter(ws: Path, c):
    ws.mkdir(parents=True)
    d = make_job(ws, c["job"])

    def one(text):
        try:
            info = JobInformation(d.resolve(), scriptname(c["job"]["task"]))
            return dict(v=bool(createFilter(text)(info)), exc=None)
        except Exception as e:  # noqa
            return dict(v=None, exc=type(e).__name__)

    st, st_exc = None, None
    try:
        st = JobInformation(d.resolve(), scriptname(c["job"]["task"])).state
    except Exception as e:  # noqa
        st_exc = type(e).__name__
    return dict(state=None if st is None else st.name, state_exc=st_exc, whole=one(c["text"]),
                atoms=[one(t) for t in c["atom_texts"]])


def run_near(ws: Path, c):
    """a string near the filter grammar: is it accepted (createFilter returns), and what does it answer on the job"""
    ws.mkdir(parents=True)
    d = make_job(ws, c["job"])
    out = dict(accepted=False, build_exc=None, v=None, eval_exc=None)
    try:
        flt = createFilter(c["text"])
        out["accepted"] = True
    except Exception as e:  # noqa
        out["build_exc"] = type(e).__name__
        return out
    try:
        out["v"] = bool(flt(JobInformation(d.resolve(), scriptname(c["job"]["task"]))))
    except Exception as e:  # noqa
        out["eval_exc"] = type(e).__name__
    return out


def accepts(text):
    """does createFilter take the text (diagnosis for the cleaning cases whose filter is near the grammar)"""
    if not text:
        return None
    try:
        createFilter(text)
        return True
    except Exception:  # noqa
        return False


def atom_verdicts(ws: Path, c):
    """each test of the filter on its own: does it build, and what it answers on every job (diagnosis only)"""
    out = []
    for text in c.get("atom_texts") or []:
        try:
            flt = createFilter(text)
            exc = None
        except Exception as e:  # noqa
            flt = None
            exc = type(e).__name__
        verdicts = {}
        for j in c["ws"]["jobs"]:
            try:
                info = JobInformation((ws / "jobs" / j["task"] / j["hash"]).resolve(), scriptname(j["task"]))
                verdicts[f"{j['task']}/{j['hash']}"] = bool(flt(info))
            except Exception:  # noqa
                verdicts[f"{j['task']}/{j['hash']}"] = None
        out.append(dict(build_exc=exc, verdicts=verdicts))
    return out


def run_clean(ws: Path, c):
    acc = Access(ws, c.get("access"))
    make_ws(ws, c["ws"], acc.absolute() if c.get("index_via") == "access" else ws)
    with acc:
        return run_clean_on(ws, c, acc.path())


def run_clean_on(ws: Path, c, given: Path = None):
    atoms = atom_verdicts(ws, c)
    before, jb = snapshot(ws), jobdirs(ws)
    args = ["jobs", "--workdir", str(given or ws), "clean"]
    if c["experiment"] is not None:
        args += ["--experiment", c["experiment"]]
    if c["filter"] is not None:
        args += ["--filter", c["filter"]]
    if c["perform"]:
        args.append("--perform")
    args += c.get("flags", [])
    r = CliRunner().invoke(cli, args)
    out = diff(ws, before, jb)
    out["exc"] = excname(r)
    out["atoms"] = atoms
    out["accepts"] = accepts(c["filter"])
    return out


def run_orphans(ws: Path, c):
    acc = Access(ws, c.get("access"))
    make_ws(ws, c["ws"], acc.absolute() if c.get("index_via") == "access" else ws)
    with acc:
        return run_orphans_on(ws, c, acc.path())


def run_orphans_on(ws: Path, c, given: Path):
    before, jb = snapshot(ws), jobdirs(ws)
    args = ["orphans"]
    if c["clean"]:
        args.append("--clean")
    if c["ignore_old"]:
        args.append("--ignore-old")
    if c.get("show_all"):
        args.append("--show-all")
    args.append(str(given))
    r = CliRunner().invoke(cli, args)
    out = diff(ws, before, jb)
    out["exc"] = excname(r)
    return out


def abstract_ws(ws: Path):
    """read a workspace produced by the real scheduler back into the abstract form of the cases"""
    import psutil

    jobs = []
    for d in sorted((ws / "jobs").glob("*/*")):
        if not d.is_dir():
            continue
        s = scriptname(d.parent.name)
        pidf = d / f"{s}.pid"
        alive = False
        if pidf.is_file():
            try:
                alive = psutil.pid_exists(json.loads(pidf.read_text())["pid"])
            except Exception:  # noqa
                alive = False
        tags = json.loads((d / "params.json").read_text())["tags"]
        jobs.append(dict(task=d.parent.name, hash=d.name, done=(d / f"{s}.done").is_file(),
                         failed=(d / f"{s}.failed").is_file(), pid=pidf.is_file(), alive=alive, tags=tags))
    xps = []
    for x in sorted((ws / "xp").iterdir()):
        def keys(sub):
            if not (x / sub).is_dir():
                return None
            return sorted([p.parent.name, p.name] for p in (x / sub).glob("*/*"))
        xps.append(dict(name=x.name, jobs=keys("jobs") or [], bak=keys("jobs.bak")))
    return dict(jobs=jobs, xps=xps)


def run_real(ws: Path, c):
    """a workspace made by the real scheduler: two experiments, succeeding and failing tagged tasks"""
    from experimaestro import experiment
    from vpk_c19 import Ok, Fail

    for name, specs in c["plan"]:
        try:
            with experiment(ws, name, port=-1) as xp:
                xp.workspace.launcher.setenv("PYTHONPATH", os.environ["PYTHONPATH"])   # the job scripts import vpk_c19
                for cls, x, tags in specs:
                    t = (Ok if cls == "ok" else Fail)(x=x)
                    for k, v in tags.items():
                        t.tag(k, v)
                    t.submit()
        except Exception:  # noqa  (FailedExperiment when a task fails)
            pass
    w = abstract_ws(ws)
    c = dict(c, ws=w)
    out = run_clean_on(ws, c)
    out["ws"] = w
    return out


RUN = dict(filter=run_filter, near=run_near, clean=run_clean, orphans=run_orphans, real=run_real)


def main():
    payload = json.load(sys.stdin)
    root = Path(payload["root"])
    root.mkdir(parents=True, exist_ok=True)
    res = []
    for i, c in enumerate(payload["cases"]):
        ws = root / f"w{i}"
        try:
            res.append(RUN[c["kind"]](ws, c))
        finally:
            shutil.rmtree(ws, ignore_errors=True)
    sys.stdout.flush()
    print(json.dumps(res))


if __name__ == "__main__":
    main()
