"""Directed probes with REAL job processes (C04, C07): how a job process ends, seen through the local launcher
and through the Slurm launcher (the tree's own fake sbatch/srun/sacct, sacct also printing the job steps as the
real command does without -X).

stdin: {"mode": "exit" | "slurm", "hows": [...], "sacct": "plain" | "steps-after" | "steps-before"}
last stdout line: {"jobs": {name: {how, state, failed_file, done_file}}, "afters": {name: {state, started}},
                   "alone": {...}, "raised": bool, "error": null | str}
"""
import json
import os
import shutil
import signal
import stat
import sys
import tempfile
import time
import traceback
from pathlib import Path

SACCT_STEPS = """#!/bin/bash
# sacct printing one line per job AND one per job step, as the real command does when not given -X
# (the `extern` step of a failed job is COMPLETED)
"$(dirname "$0")/sacct.jobs" "$@" | while IFS='|' read jobid status start end rest; do
    %(first)s
    echo "${jobid}.batch|${status}|${start}|${end}|"
    if test "$status" == RUNNING; then
        echo "${jobid}.0|RUNNING|${start}|${end}|"
        echo "${jobid}.extern|RUNNING|${start}|${end}|"
    else
        echo "${jobid}.0|${status}|${start}|${end}|"
        echo "${jobid}.extern|COMPLETED|${start}|${end}|"
    fi
    %(last)s
done
"""
JOBLINE = 'echo "${jobid}|${status}|${start}|${end}|"'


def main(payload):
    import logging
    logging.disable(logging.CRITICAL)
    signal.alarm(int(payload.get("alarm", 150)))          # never hang
    import experimaestro
    from experimaestro import FailedExperiment
    from experimaestro.scheduler import experiment
    from vpk_sched.procs import Leave, After, Alone

    src = str(Path(experimaestro.__file__).parents[1])
    harness = str(Path(__file__).parent)
    tmp = Path(tempfile.mkdtemp(prefix="xpmverif-procs-"))
    out = dict(jobs={}, afters={}, alone=None, raised=False, error=None)
    try:
        control = tmp / "control"
        control.mkdir()
        launcher = None
        if payload["mode"] == "slurm":
            import experimaestro.tests.launchers as tl
            from experimaestro.connectors.local import LocalConnector
            from experimaestro.launchers.slurm import SlurmLauncher
            binpath = tmp / "bin"
            shutil.copytree(Path(tl.__file__).parent / "bin", binpath)
            (tmp / "slurm").mkdir()
            kind = payload.get("sacct", "plain")
            if kind != "plain":
                (binpath / "sacct").rename(binpath / "sacct.jobs")
                (binpath / "sacct").write_text(SACCT_STEPS % dict(first=JOBLINE if kind == "steps-after" else "true",
                                                                   last=JOBLINE if kind == "steps-before" else "true"))
            for p in binpath.iterdir():
                p.chmod(p.stat().st_mode | stat.S_IXUSR)
            launcher = SlurmLauncher(connector=LocalConnector.instance(), binpath=binpath, interval=0.05)
            launcher.setenv("PYTHONPATH", f"{src}:{harness}")
        tasks, afters = {}, {}
        alone = None
        try:
            with experiment(tmp / "xp", "procs", port=-1) as xp:
                xp.workspace.launcher.setenv("PYTHONPATH", f"{src}:{harness}")
                for i, how in enumerate(payload["hows"]):
                    t = Leave(name=f"l{i}", how=how, control=control)
                    tasks[f"l{i}"] = (how, t)
                    if launcher is not None:
                        t.submit(launcher=launcher)
                    else:
                        t.submit()
                    a = After(name=f"a{i}", upstream=t, control=control)
                    a.submit()
                    afters[f"a{i}"] = a
                alone = Alone(name="alone", control=control)
                alone.submit()
        except FailedExperiment:
            out["raised"] = True
        time.sleep(0.3)
        for n, (how, t) in tasks.items():
            job = t.__xpm__.job
            out["jobs"][n] = dict(how=how, state=job.state.name, failed_file=job.failedpath.is_file(),
                                  done_file=job.donepath.is_file(), started=(control / f"{n}.started").exists())
        for n, a in afters.items():
            out["afters"][n] = dict(state=a.__xpm__.job.state.name, started=(control / f"{n}.started").exists())
        if alone is not None:
            out["alone"] = dict(state=alone.__xpm__.job.state.name, started=(control / "alone.started").exists())
    except BaseException as e:  # noqa
        out["error"] = "".join(traceback.format_exception(type(e), e, e.__traceback__))[-1500:]
    finally:
        shutil.rmtree(tmp, ignore_errors=True)
    sys.stdout.write("\n" + json.dumps(out) + "\n")
    sys.stdout.flush()
    os._exit(0)


def blocks(payload):
    """Several `with experiment(...)` blocks one after the other in THIS process, sharing one token object: each
    block runs `per` jobs that depend on the token (real processes, exit status 0)."""
    import logging
    logging.disable(logging.CRITICAL)
    signal.alarm(int(payload.get("alarm", 70)))
    import experimaestro
    from experimaestro import FailedExperiment
    from experimaestro.scheduler import experiment
    from experimaestro.tokens import CounterToken, ProcessCounterToken
    from vpk_sched.procs import Alone

    src = str(Path(experimaestro.__file__).parents[1])
    harness = str(Path(__file__).parent)
    tmp = Path(tempfile.mkdtemp(prefix="xpmverif-procs-"))
    out = dict(blocks=[], error=None)
    try:
        control = tmp / "control"
        control.mkdir()
        cap = int(payload.get("capacity", 1))
        token = (CounterToken("verif-blocks", tmp / "token", cap) if payload.get("token") == "file"
                 else ProcessCounterToken(cap))
        for b in range(int(payload.get("nblocks", 2))):
            rec = dict(jobs=[], raised=False)
            tasks = []
            try:
                with experiment(tmp / "xp", f"block{b}", port=-1) as xp:
                    xp.workspace.launcher.setenv("PYTHONPATH", f"{src}:{harness}")
                    for i in range(int(payload.get("per", 2))):
                        t = Alone(name=f"b{b}j{i}", control=control)
                        t.add_dependencies(token.dependency(1))
                        t.submit()
                        tasks.append(t)
                    if payload.get("wait_jobs", True):
                        for t in tasks:
                            t.__xpm__.job.wait()
            except FailedExperiment:
                rec["raised"] = True
            for t in tasks:
                job = t.__xpm__.job
                rec["jobs"].append(dict(name=job.config.name, state=job.state.name, done_file=job.donepath.is_file(),
                                        started=(control / f"{job.config.name}.started").exists()))
            out["blocks"].append(rec)
            time.sleep(float(payload.get("pause", 0.3)))     # let the scheduler of the block stop completely
        out["available"] = token.available
    except BaseException as e:  # noqa
        out["error"] = "".join(traceback.format_exception(type(e), e, e.__traceback__))[-1500:]
    finally:
        shutil.rmtree(tmp, ignore_errors=True)
    sys.stdout.write("\n" + json.dumps(out) + "\n")
    sys.stdout.flush()
    os._exit(0)


if __name__ == "__main__":
    pl = json.load(sys.stdin)
    if pl.get("mode") == "blocks":
        blocks(pl)
    main(pl)
