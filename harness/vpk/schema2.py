"""A second module with a class of the SAME NAME as one of harness/vpk/schema.py (classes are
identified by module + qualified name, never by the bare name)."""
from experimaestro import Param

from .schema import N


class Leaf(N):
    """same name, same parameter names as a subset of schema.Leaf, another module (another type identifier)"""
    i: Param[int]
    s: Param[str] = "a"
