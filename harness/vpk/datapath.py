"""Classes with DataPath parameters (data files copied when a configuration is saved): outside the Coq model of C12,
used by the directed probe harness/drive_c12data.py."""
from typing import List

from experimaestro import Config, Param, DataPath


class D(Config):
    x: Param[int]
    d: DataPath


class DHolder(Config):
    a: Param[D]
    b: Param[D]
    l: Param[List[D]] = []
