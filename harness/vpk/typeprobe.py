"""Classes for the directed probes of harness/drive_typeprobe.py: how a class gets its type identifier and its
parameter declarations (outside the Coq model, which takes type identifiers and argument tables as data)."""
from typing import Dict, List, Optional, Union

from experimaestro import Config, Param, Meta, setmeta


class NamedBase(Config):
    """the class-method form of __xpmid__ names the class AND its descendants (docs/experiments/config.md)"""
    x: Param[int] = 0

    @classmethod
    def __xpmid__(cls):
        return "vpk.named." + cls.__name__.lower()


class NamedChild(NamedBase):
    y: Param[int] = 0


class Fixed(Config):
    """a string __xpmid__ names this class only"""
    __xpmid__ = "vpk.fixed"
    x: Param[int] = 0


class FixedChild(Fixed):
    y: Param[int] = 0


class Enc(Config):
    class Opt(Config):
        x: Param[int] = 0


class Dec(Config):
    class Opt(Config):
        x: Param[int] = 0


# ---- a diamond: the first branch re-declares a parameter as Meta; the MRO lets the first parent win
class DBase(Config):
    x: Param[int] = 1
    z: Param[int] = 0


class DLeft(DBase):
    x: Meta[int] = 1


class DRight(DBase):
    pass


class Diamond(DLeft, DRight):
    pass


# ---- a configuration-valued default holding an optional parameter explicitly set to None
class OptB(Config):
    o: Param[Optional[int]] = 3


class HolderB(Config):
    sub: Param[OptB] = OptB(o=None)


# ---- a dictionary whose values are ints OR dictionaries (two levels at most)
class UD(Config):
    d: Param[Dict[str, Union[int, Dict[str, int]]]]


# ---- a list default holding a meta-flagged configuration
class MLeaf(Config):
    x: Param[int] = 0


class MHolder(Config):
    l: Param[List[MLeaf]] = [setmeta(MLeaf(x=1), True)]
    y: Param[int] = 0
