"""Fixed schema library for the identifier / serialisation / sealing checks (DESIGN.md 5.1).

Every class is importable by module path (never __main__).  Slots that hold
configurations are typed with the common base `N`, so that any node can be placed
anywhere and arbitrary sharing and cycles can be built.
"""
from enum import Enum, IntEnum
from pathlib import Path
from typing import Dict, List, Optional

from experimaestro import (Config, Constant, LightweightTask, Meta, Option, Param, Task, deprecate, field, pathgenerator)
from typing import Annotated


class Color(Enum):
    RED = 1
    GREEN = 2
    BLUE = 3


class Shape(Enum):
    DOT = "."
    BOX = "#"


class Level(IntEnum):
    LOW = 1
    HIGH = 2


class Mode(str, Enum):
    FAST = "fast"
    SLOW = "slow"


TRACE = []      # the tasks executed (python objects), in order


class N(Config):
    """Common base of every node class (no parameter)"""


class Leaf(N):
    i: Param[int]
    f: Param[float] = 1.5
    s: Param[str] = "a"
    b: Param[bool] = False
    oi: Param[Optional[int]]
    os_: Param[Optional[str]]
    e: Param[Color] = Color.RED
    sh: Param[Optional[Shape]]
    od: Param[Optional[int]] = 5
    m: Meta[int] = 3
    op: Option[str] = "o"
    k: Constant[int] = 7
    mp: Meta[Optional[Path]]
    pg: Annotated[Path, pathgenerator("out.txt")]


class Inner(N):
    x: Param[int] = 0
    c: Param[Optional[N]]
    d: Param[Optional[N]]
    mc: Meta[Optional[N]]
    oc: Option[Optional[N]]
    name: Param[str] = ""


class Bag(N):
    li: Param[List[int]] = []
    lf: Param[Optional[List[float]]]
    ls: Param[Optional[List[str]]]
    lc: Param[List[N]] = []
    dc: Param[Dict[str, N]] = {}
    di: Param[Optional[Dict[str, int]]]
    ds: Param[Optional[Dict[str, str]]]
    ll: Param[Optional[List[List[int]]]]
    dd: Param[Optional[Dict[str, Dict[str, int]]]]
    ld: Param[Optional[List[Dict[str, int]]]]
    dl: Param[Optional[Dict[str, List[N]]]]
    mlc: Meta[List[N]] = []
    lp: Meta[Optional[List[Path]]]
    le: Param[Optional[List[Color]]]
    ddd: Param[Optional[Dict[str, Dict[str, Dict[str, int]]]]]
    # nested containers of configurations WITH a default (meta-flagged members two levels down)
    llc: Param[List[List[N]]] = [[]]
    dlc: Param[Dict[str, List[N]]] = {"a": []}


class Req(N):
    """required values of each scalar kind, no default"""
    a: Param[int]
    b: Param[str]
    c: Param[N]


# ---- tasks ---------------------------------------------------------------
class TaskA(Task, N):
    x: Param[int] = 0
    c: Param[Optional[N]]
    l: Param[List[N]] = []
    out: Annotated[Path, pathgenerator("result.txt")]

    def execute(self):
        TRACE.append(self)


class TaskOut(Task, N):
    """its output is a fresh configuration marked as produced by this task"""
    x: Param[int] = 0
    c: Param[Optional[N]]

    def task_outputs(self, dep):
        return dep(Leaf(i=self.x))

    def __len__(self):
        # a task that is also a container (as a dataset would be): falsy for even x, the default included
        return abs(self.x) % 2

    def execute(self):
        TRACE.append(self)


class TaskSelf(Task, N):
    """its output is one of its own parameters, marked as produced by this task"""
    x: Param[int] = 0
    c: Param[N]

    def task_outputs(self, dep):
        return dep(self.c)

    def execute(self):
        TRACE.append(self)


class TaskSelfG(Task, N):
    """TaskSelf extended with a generated-path parameter (same type identifier): the path generator asks for the
    identifier of the task while the graph is being sealed, before the output mark is set"""
    __xpmid__ = "vpk.schema.taskself"
    x: Param[int] = 0
    c: Param[N]
    lg: Annotated[Path, pathgenerator("log.txt")]

    def task_outputs(self, dep):
        return dep(self.c)

    def execute(self):
        TRACE.append(self)


class Pre(LightweightTask, N):
    v: Param[int] = 0
    c: Param[Optional[N]]

    def __bool__(self):
        # falsy for even v, the default included: nothing in the library may depend on the truth value of a configuration
        return abs(self.v) % 2 == 1

    def execute(self):
        TRACE.append(self)


class Init(LightweightTask, N):
    v: Param[int] = 0
    w: Meta[int] = 0

    def execute(self):
        TRACE.append(self)


# ---- deprecation -----------------------------------------------------------
class NewL(N):
    i: Param[int] = 0
    c: Param[Optional[N]]


@deprecate
class OldL(NewL):
    pass


class NewT(Task, N):
    x: Param[int] = 0
    c: Param[Optional[N]]

    def execute(self):
        TRACE.append(self)


@deprecate
class OldT(NewT):
    pass


# ---- class variants under one __xpmid__ (a class extended with defaulted /
#      Meta / generated parameters): V1 is the old definition, V2 the new one
class V1(N):
    __xpmid__ = "vpk.schema.v"
    x: Param[int]
    c: Param[Optional[N]]


class V2(N):
    __xpmid__ = "vpk.schema.v"
    x: Param[int]
    c: Param[Optional[N]]
    y: Param[int] = 3
    aa: Param[str] = "dflt"
    z: Meta[str] = "meta"
    oz: Param[Optional[N]]
    g: Annotated[Path, pathgenerator("g.txt")]
    # new parameters whose defaults are falsy
    n0: Param[int] = 0
    fl: Param[bool] = False
    em: Param[str] = ""
    el: Param[List[int]] = []
    # new parameters whose default is WRITTEN in another accepted type than the declared one
    fz: Param[float] = 1
    iz: Param[int] = 2.0


# ---- constants / type identifiers (C03) -------------------------------------
class K1(N):
    __xpmid__ = "vpk.schema.k"
    x: Param[int] = 0
    k: Constant[int] = 1


class K2(N):
    __xpmid__ = "vpk.schema.k"
    x: Param[int] = 0
    k: Constant[int] = 2


class W1(N):
    x: Param[int] = 0
    c: Param[Optional[N]]


class W2(N):
    x: Param[int] = 0
    c: Param[Optional[N]]


class Kind(Enum):
    """a module-level enumeration with the same bare name and members as the one nested in EH"""
    KA = "top-a"
    KB = "top-b"


class EH(N):
    """enumerations that are also ints / strs; an enumeration nested in the class (qualified name EH.Kind)"""
    class Kind(Enum):
        KA = 1
        KB = 2

    lv: Param[Level] = Level.LOW
    md: Param[Optional[Mode]]
    x: Param[int] = 0
    kd: Param[Optional[Kind]]


class GenV(N):
    """a GENERATED parameter that is not a path (its value appears when the configuration is sealed)"""
    x: Param[int] = 0
    gs: Param[int] = field(default_factory=lambda: 42)


class GenC(N):
    """a GENERATED parameter whose value is a configuration (it appears when the configuration is sealed and must be
    sealed with it)"""
    x: Param[int] = 0
    gc: Param[N] = field(default_factory=lambda: Inner(x=7))


class S2(N):
    """two sibling strings (the unterminated-string collision family)"""
    a: Param[str]
    b: Param[str] = ""


CLASSES = {c.__name__: c for c in [K1, K2, W1, W2, S2, GenV, GenC, EH, TaskSelf, TaskSelfG, Leaf, Inner, Bag, Req, TaskA, TaskOut, Pre, Init, NewL, OldL, NewT, OldT, V1, V2]}
ENUMS = {"Color": Color, "Shape": Shape, "Level": Level, "Mode": Mode, "EHKind": EH.Kind}


def _register_schema2():
    from . import schema2
    CLASSES["Leaf2"] = schema2.Leaf


_register_schema2()
