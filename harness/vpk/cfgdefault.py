"""Classes with CONFIGURATION-VALUED defaults (outside the identifier model: the comparison with the default goes
through TypeConfig.__eq__).  Used only by the directed probes of harness/drive_cfgdefault.py."""
from pathlib import Path

from experimaestro import Config, Task, Param, Meta, field, PathGenerator


class A(Config):
    x: Param[int] = 0
    verbose: Meta[bool] = False
    p: Meta[Path] = field(default_factory=PathGenerator("p.txt"))


class Holder(Config):
    sub: Param[A] = A(x=1)


class TD(Task):
    a: Param[A] = A(x=1)
    out: Meta[Path] = field(default_factory=PathGenerator("out.txt"))

    def execute(self):
        pass


class Prod(Task):
    """its output is a configuration EQUAL (parameter values) to the default of Holder.sub"""
    e: Param[int] = 0

    def task_outputs(self, dep):
        return dep(A(x=1))

    def execute(self):
        pass
