"""C02 - the identifier ignores everything documented as outside the signature."""
import json
from concurrent.futures import ThreadPoolExecutor

from vcommon import Check, main_wrapper, run_impl
import identgen
from check_c01 import HEADER


def run(c: Check):
    c.rule = ("random configuration graphs, each followed by 1-4 successive documented-neutral edits at random nodes "
              "(value of a Meta/Option/Path parameter, a configuration placed under an ignored parameter, a parameter "
              "set to its default vs left unset, an optional set to None vs left unset, tags, any change inside a "
              "configuration flagged meta, a meta-flagged configuration added as list element or dict value, class "
              "extended with defaulted/Meta/generated parameters); identifiers of all original nodes must be unchanged; "
              "non-trivial = edited node has depth >= 1 (is referenced by another node) or the graph has >= 4 nodes; "
              "distinct by (graph, edit chain)")
    c.build()
    c.props()
    ngraphs = 90 if c.quick else 2500
    g = identgen.Gen(c.rng)
    chains = []
    if c.replay:
        rp = json.load(open(c.replay))["replay"]
        if "chain" in rp:
            chains.append(dict(descs=rp["chain"], kinds=rp.get("kinds", [])))
        ngraphs = 0
    for _ in range(ngraphs):
        d = g.graph(p_cycle=0.25, p_meta=0.6)
        descs, kinds = [d], []
        for _ in range(c.rng.choice([1, 2, 3, 4])):
            r = identgen.neutral_edit(c.rng, descs[-1], g)
            if r is None:
                break
            descs.append(r[0])
            kinds.append(r[1])
        if len(descs) > 1:
            chains.append(dict(descs=descs, kinds=kinds))
    cases = []
    for ch in chains:
        n0 = len(ch["descs"][0]["nodes"])
        hist = [dict(op="full", n=i) for i in range(n0)] + [dict(op="raw", n=i) for i in range(n0)]
        for k_, d in enumerate(ch["descs"]):
            case = dict(desc=d, histories=[hist], chain=ch)
            if k_ == 0 and n0 >= 2:
                # pairs (default, value) for the default test of configuration-valued defaults; equal classes first
                same = [(i, j) for i in range(n0) for j in range(n0) if i != j and d["nodes"][i]["cls"] == d["nodes"][j]["cls"]]
                pool = same * 3 + [(i, j) for i in range(n0) for j in range(n0)]
                case["default_pairs"] = [list(c.rng.choice(pool)) for _ in range(4)]
            cases.append(case)
    chunks = [cases[i::16] for i in range(16)]

    def drive(chunk):
        if not chunk:
            return []
        return run_impl("drive_ident.py", dict(cases=[dict(desc=x["desc"], histories=x["histories"],
                                                           default_pairs=x.get("default_pairs")) for x in chunk]),
                        timeout=1500)

    with ThreadPoolExecutor(max_workers=16) as ex:
        results = list(ex.map(drive, chunks))
    for ch, res in zip(chunks, results):
        for x, r in zip(ch, res):
            x["res"] = r
    coq_cases = []
    for x in cases:
        r = x["res"]
        if r["export"] is None:
            c.count("build-failed")
            continue
        if identgen.in_model(r["export"]) and not r["answers"][0][0].startswith("build-exc"):
            coq_cases.append(dict(export=r["export"], ops=x["histories"][0], answers=r["answers"][0], desc=x["desc"],
                                  default_pairs=x.get("default_pairs"), default_test=r.get("default_test")))
    # oracle: along each chain the identifiers of the original nodes never change
    for ch in chains:
        xs = [x for x in cases if x["chain"] is ch]
        base = xs[0]["res"]["answers"][0]
        c.evaluations += len(xs) - 1
        referenced = json.dumps(ch["descs"][0]).count('"ref"')
        for k, x in enumerate(xs[1:]):
            kind = ch["kinds"][k]
            ans = list(x["res"]["answers"][0])
            if len(ans) != len(base) or len(base) == 1:
                c.count("edited-graph-not-buildable")
                break
            if kind.startswith("inside-meta:"):
                # the edited configuration's own identifier legitimately changes; every other node's must not
                kind, i = kind.split(":")
                n0 = len(ch["descs"][0]["nodes"])
                base = list(base)
                for j in ([int(i), n0 + int(i)] if int(i) < n0 else []):
                    base[j] = ans[j]
            c.count("edit:" + kind)
            if len(ch["descs"][0]["nodes"]) >= 4 or referenced:
                c.nontrivial.add(json.dumps([ch["descs"][0], ch["kinds"][:k + 1]], sort_keys=True))
            if ans != base:
                diff = [i for i, (a, b) in enumerate(zip(base, ans)) if a != b]
                c.violation(f"C02:neutral-edit-changes-identifier:{kind}",
                            f"a signature-neutral edit ({kind}) changed an identifier",
                            dict(chain=ch["descs"][:k + 2], kinds=ch["kinds"][:k + 1], before=base, after=ans,
                                 differing_requests=diff))
                break
    c.samples = [dict(before=ch["descs"][0], kinds=ch["kinds"], after=ch["descs"][-1]) for ch in chains[:2]]
    bad = c.corr_shards("corr", HEADER, coq_cases,
                        lambda k: identgen.g_icase(k["export"], k["ops"], k["answers"]), "check_case", shard=60)
    c.extra["disagreeing_cases"] = [dict(desc=coq_cases[i]["desc"], ops=coq_cases[i]["ops"],
                                         answers=coq_cases[i]["answers"]) for i in bad[:5]]
    # the default test for defaults that hold configurations (is_default of the repaired implementation = is_default_sig
    # of the model), on pairs (default, value) of configurations of the exported graphs
    from vcommon import gnat, glist
    dcases = [k for k in coq_cases if k.get("default_pairs") and k.get("default_test") is not None]
    got = c.nat_shards("default", HEADER, dcases,
                       lambda k: "(" + identgen.g_icase(k["export"], [], []) + ", "
                       + glist(f"({gnat(d_)}, {gnat(v_)})" for d_, v_ in k["default_pairs"]) + ")",
                       "default_pairs_icase", shard=60)
    for k, ans in zip(dcases, got):
        if ans is None:
            continue
        impl = [1 if t else 0 for t in k["default_test"]]
        for (d_, v_), a_, i_ in zip(k["default_pairs"], ans, impl):
            c.count("default-test:" + ("same-node" if d_ == v_ else "is-default" if i_ else "differs"))
        if ans != impl:
            c.violation("C02:default-test-differs-from-model",
                        "HashComputer.is_default on a pair (default, value) of configurations answers differently from the model's "
                        "is_default_sig (both hashed alike)", dict(chain=[k["desc"]], kinds=[], pairs=k["default_pairs"],
                                                                    implementation=impl, model=ans))
    # directed probe outside the modelled domain: configuration-valued defaults (compared through TypeConfig.__eq__)
    pr = run_impl("drive_cfgdefault.py", {}, timeout=300)
    c.count("probe:config-valued-default")
    if pr["c02_same_as_default"] != pr["c02_default"]:
        c.violation("C02:neutral-edit-changes-identifier:explicit-default:config-valued-default",
                    "a sub-configuration explicitly set to (a copy of) its configuration-valued default changes the identifier",
                    dict(probe="harness/drive_cfgdefault.py", got=pr))
    if pr["c02_meta_param_differs"] != pr["c02_default"]:
        c.violation("C02:neutral-edit-changes-identifier:meta-param-under-config-valued-default",
                    "Holder(sub=A(x=1, verbose=True)) and Holder() differ although verbose is a Meta parameter and A(x=1) is the default",
                    dict(probe="harness/drive_cfgdefault.py", got=pr))
    # directed probes outside the model: argument tables under multiple inheritance (a Param re-declared as Meta by the
    # first branch of a diamond stays ignored), and a configuration-valued default holding an explicit None
    pr3 = run_impl("drive_typeprobe.py", {}, timeout=300)
    c.count("probe:diamond-and-none-default")
    if not pr3["diamond_x_ignored"] or pr3["diamond_ids"][0] != pr3["diamond_ids"][1] or pr3["diamond_ids"][0] == pr3["diamond_ids"][2]:
        c.violation("C02:neutral-edit-changes-identifier:meta-parameter-in-diamond",
                    "class Diamond(DLeft, DRight): DLeft re-declares x as Meta; changing x must not change the identifier (and z must)",
                    dict(probe="harness/drive_typeprobe.py", got=pr3))
    md = pr3["meta_in_default"]
    if len(set(md)) != 1:
        c.violation("C02:neutral-edit-changes-identifier:unset-vs-explicit-default:meta-flagged-member-of-default",
                    "MHolder.l: Param[List[MLeaf]] = [setmeta(MLeaf(x=1), True)]: MHolder(), MHolder(l=<the same default>), "
                    "MHolder(l=[]) and MHolder().copy() must share one identifier (a meta-flagged member is outside the signature)",
                    dict(probe="harness/drive_typeprobe.py", got=pr3))
    nd = pr3["none_default"]
    if nd[0] != nd[1] or nd[0] == nd[2] or pr3["none_default_value"] is not None:
        c.violation("C02:neutral-edit-changes-identifier:unset-vs-explicit-default:none-inside-default",
                    "HolderB.sub: Param[OptB] = OptB(o=None) with o: Param[Optional[int]] = 3: HolderB() must be identified like "
                    "HolderB(sub=OptB(o=None)) and hold o = None", dict(probe="harness/drive_typeprobe.py", got=pr3))
    c.level_assumptions = [
        "SHA-256 is a parameter H of every theorem; run with the Gallina SHA-256 validated against hashlib by the correspondence",
        "tags, explicit/token dependencies, launcher, workspace and run mode are not part of the model's node at all "
        "(the hash model does not read them); their neutrality is checked on the implementation side only",
        "pre-tasks and init tasks are part of the signature (full identifier): an edit under an ignored parameter that "
        "changes the set of reachable pre-tasks is not a neutral edit; the generator avoids it",
        "neutrality of meta-flagged list/dict members is checked by the correspondence and the oracle; the Coq theorem "
        "covers meta-flagged parameter values and edits inside meta-flagged configurations",
    ]


if __name__ == "__main__":
    main_wrapper("C02", run)
