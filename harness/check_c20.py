"""C20 - deprecating a class keeps identifiers and makes old results reachable.

Workspace half: real job directories are created by real submits of the Old* classes of
harness/vpk_c20 (not yet deprecated), the classes are then @deprecate'd, partial manual repairs
are applied, and sequences of real fix_deprecated calls are observed (jobs/ tree after each call);
the Coq model (model/Deprecate.v) replays the same sequences inside coqc (corr/DeprecateCorr.v).
The step in between - the identity the repair command recomputes from a stored params.json - is observed too
(real load_job + identifier per job directory) and replayed by the model's loader and identifier (SHA-256) on
the real definitions; job graphs carry Meta[...] members and setmeta(True / False) flags at any position.
Identifier half (implementation side): graphs with deprecated classes at random positions have,
node by node, the identifier of the same graph written with the replacement classes.
"""
import copy
import hashlib
import json
import os
import time
from concurrent.futures import ThreadPoolExecutor

from vcommon import Check, InternalError, main_wrapper, run_impl, gz, glist, gbool, gnat, gopt, gbytes, ROOT
import identgen      # Gallina printers of values / class tables (shared with the identifier checks)

# ------------------------------------------------------------------ graph generator
LEAVES = ["NewLeaf", "OldLeaf", "OlderLeaf"]
MIDS = ["NewMid", "OldMid"]
TASKS = ["NewTask", "RenamedTask", "MovedTask"]
BIGS = ["NewBig", "OldBig"]
AUXES = ["NewAux", "OldAux"]
PLAINS = ["PlainLearner", "OldPlainLearner"]      # classes defined in a plain file (harness/vpk_c20_plain.py), not in a package
EQUIV = [LEAVES, MIDS, TASKS, BIGS, AUXES, PLAINS]
OLD = {"OldLeaf", "OlderLeaf", "OldMid", "RenamedTask", "MovedTask", "OldBig", "OldAux", "OldPlainLearner"}
OLD2NEW = {"OldLeaf": "NewLeaf", "OlderLeaf": "NewLeaf", "OldMid": "NewMid", "RenamedTask": "NewTask",
           "MovedTask": "NewTask", "OldBig": "NewBig", "OldAux": "NewAux", "OldPlainLearner": "PlainLearner"}
# parameters declared Meta[...] in vpk_c20 (ignored by the identifier unless the value is flagged setmeta(., False))
META_PARAMS = {"aux", "auxes"}
# parameters without a default, per family of classes (spec reductions never drop them)
REQUIRED = {"NewLeaf": {"v"}, "NewAux": {"x"}, "NewMid": {"w", "leaf"}, "Plain": {"z"}, "NewTask": {"x"},
            "Holder": {"n"}, "NewBig": {"n", "mid"}, "PlainLearner": {"x", "model"}, "PlainModel": {"layers"}}


def pick(rng, names, p_old):
    if rng.random() < p_old:
        return rng.choice(names[1:])
    return names[0]


def flag(rng, node, p_true, p_false):
    """setmeta(config, True / False) on the node: True = ignored wherever it is a member (parameter, list, dict),
    False = counted even when it is given through a Meta[...] parameter; absent = the declaration decides"""
    r = rng.random()
    if r < p_true:
        node["meta"] = True
    elif r < p_true + p_false:
        node["meta"] = False
    return node


def gen_leaf(rng, p):
    return flag(rng, {"c": pick(rng, LEAVES, p), "a": {"v": rng.randrange(3)}}, 0.08, 0.05)


def gen_aux(rng, p):
    """a value for a Meta[...] parameter: mostly forced into the identifier (False), sometimes left to the
    declaration (ignored) or explicitly ignored (True)"""
    a = {"x": rng.randrange(3)}
    if rng.random() < 0.4:
        a["leaf"] = gen_leaf(rng, p)
    return flag(rng, {"c": pick(rng, AUXES, p), "a": a}, 0.1, 0.6)


def gen_mid(rng, p):
    a = {"w": rng.randrange(3), "leaf": gen_leaf(rng, p)}
    if rng.random() < 0.3:
        a["opt"] = gen_leaf(rng, p)
    if rng.random() < 0.4:
        a["items"] = [gen_leaf(rng, p) for _ in range(rng.choice([1, 2, 3]))]
    if rng.random() < 0.3:
        a["table"] = {"dict": {k: gen_leaf(rng, p) for k in rng.sample(["a", "b", "c"], rng.choice([1, 2]))}}
    if rng.random() < 0.25:
        a["aux"] = gen_aux(rng, p)
    return flag(rng, {"c": pick(rng, MIDS, p), "a": a}, 0.05, 0.04)


def gen_plain(rng, p):
    a = {"z": rng.randrange(3)}
    if rng.random() < 0.7:
        a["sub"] = gen_mid(rng, p)
    return {"c": "Plain", "a": a}


def gen_task(rng, p):
    k = rng.choices(["task", "holder", "big", "plainfile"], [4, 4, 3, 1])[0]
    if k == "plainfile":
        return {"c": pick(rng, PLAINS, max(p, 0.6)),
                "a": {"x": rng.randrange(3), "model": {"c": "PlainModel", "a": {"layers": rng.randrange(3)}}}}
    if k == "task":
        a = {"x": rng.randrange(4)}
        if rng.random() < 0.4:
            a["leaf"] = gen_leaf(rng, p)
        if rng.random() < 0.4:
            a["aux"] = gen_aux(rng, p)
        return {"c": pick(rng, TASKS, max(p, 0.6)), "a": a}
    if k == "big":
        a = {"n": rng.randrange(3), "mid": gen_mid(rng, p)}
        if rng.random() < 0.3:
            a["aux"] = gen_aux(rng, p)
        return {"c": pick(rng, BIGS, p), "a": a}
    a = {"n": rng.randrange(3)}
    if rng.random() < 0.35:
        a["aux"] = gen_aux(rng, p)
    if rng.random() < 0.12:
        a["auxes"] = [gen_aux(rng, p) for _ in range(rng.choice([1, 2]))]
    if rng.random() < 0.6:
        a["mid"] = gen_mid(rng, p)
    if rng.random() < 0.5:
        a["leaves"] = [gen_leaf(rng, p) for _ in range(rng.choice([1, 2, 3]))]
    if rng.random() < 0.3:
        a["named"] = {"dict": {k: gen_mid(rng, p) for k in rng.sample(["k1", "k2"], rng.choice([1, 2]))}}
    if rng.random() < 0.3:
        a["plain"] = gen_plain(rng, p)
    if not set(a) - {"n", "aux", "auxes"}:
        a["leaves"] = [gen_leaf(rng, 0.9)]
    return {"c": "Holder", "a": a}


def walk(spec, f):
    if isinstance(spec, list):
        for s in spec:
            walk(s, f)
    elif isinstance(spec, dict):
        if "dict" in spec:
            for v in spec["dict"].values():
                walk(v, f)
        elif "c" in spec:
            f(spec)
            for v in spec["a"].values():
                walk(v, f)


def classes_of(spec):
    out = []
    walk(spec, lambda n: out.append(n["c"]))
    return out


def flags_of(spec):
    """which kinds of meta flags the graph carries: "false-in-meta-param" (a member forced into the identifier),
    "true" (a member ignored), "false-in-param" (an explicit False where it changes nothing)"""
    out = set()

    def go(s, in_meta):
        if isinstance(s, list):
            for x in s:
                go(x, in_meta)
        elif isinstance(s, dict):
            if "dict" in s:
                for v in s["dict"].values():
                    go(v, in_meta)
            elif "c" in s:
                if s.get("meta") is True:
                    out.add("true")
                elif s.get("meta") is False:
                    out.add("false-in-meta-param" if in_meta else "false-in-param")
                for k, v in s["a"].items():
                    go(v, k in META_PARAMS)
    go(spec, False)
    return out


def variant(rng, spec):
    """same graph, deprecated classes swapped for equivalent ones (same replacement)"""
    s = copy.deepcopy(spec)

    def f(n):
        for grp in EQUIV:
            if n["c"] in grp and rng.random() < 0.7:
                n["c"] = rng.choice(grp)
    walk(s, f)
    return s


def share(rng, spec):
    """make one leaf object shared between two positions (label / ref)"""
    s = copy.deepcopy(spec)
    leaves = []

    def f(n):
        if n["c"] in LEAVES:
            leaves.append(n)
    walk(s, f)
    if len(leaves) >= 2:
        a, b = leaves[0], rng.choice(leaves[1:])
        a["label"] = "s"
        b.clear()
        b["ref"] = "s"
    return s


def gen_graph(rng):
    p = rng.choice([0.3, 0.6, 0.9])
    g = rng.choices([gen_task, gen_mid, gen_plain, gen_leaf, gen_aux], [6, 2, 1, 1, 1])[0](rng, p)
    if rng.random() < 0.15:
        g = share(rng, g)
    return g


# ------------------------------------------------------------------ workspace cases
OPS = ["fix", "fixclean", "list", "listclean", "cli-fix", "cli-fixclean", "cli-list", "cli-listclean"]
OPW = [10, 8, 1, 2, 2, 2, 1, 1]
# the workspace designated by a path relative to the current directory (dedicated cases: see oracle)
OPS_REL = ["fix-rel", "fixclean-rel", "cli-fix-rel", "cli-fixclean-rel"]


def gen_case(rng, name, real):
    nj = rng.choice([1, 2, 2, 3, 3, 4])
    jobs, seen = [], set()
    while len(jobs) < nj:
        is_variant = bool(jobs) and rng.random() < 0.3
        if is_variant:
            spec = variant(rng, rng.choice(jobs)["spec"])
        else:
            spec = gen_task(rng, rng.choice([0.2, 0.6, 0.9]))
        key = json.dumps(spec, sort_keys=True)
        if key in seen:
            if rng.random() < 0.2:
                nj -= 1
            continue
        seen.add(key)
        # (a second directory of the same configuration is often the one that never finished, or the only finished one)
        jobs.append(dict(spec=spec, mode="gen", done=rng.random() < (0.6 if is_variant else 0.85)))
    if real:
        jobs[0]["mode"] = "run"
        jobs[0]["done"] = True
    manual = []
    r = lambda: rng.randrange(len(jobs))  # noqa: E731
    for t in range(rng.choice([0, 0, 0, 1, 1, 2, 3])):
        kind = rng.choices(["same", "other", "dangling", "extra", "chain", "future", "mkdir", "copy", "corrupt",
                            "rmparams", "mvnew", "linked-corrupt", "linked-claimant"], [4, 3, 4, 2, 1, 1, 2, 3, 2, 1, 2, 2, 2])[0]
        i, j = r(), r()
        if kind == "same":
            manual.append(["link", {"new": i}, {"old": i}])
        elif kind == "other":
            manual.append(["link", {"new": i}, {"old": j}])
        elif kind == "dangling":
            manual.append(["link", {"new": i}, {"fresh": f"d{t}"}])
        elif kind == "extra":
            manual.append(["link", {"fresh": f"e{t}"}, {"old": i}])
        elif kind == "chain":
            manual.append(["link", {"fresh": f"c{t}a"}, {"old": i}])
            manual.append(["link", {"fresh": f"c{t}b"}, {"fresh": f"c{t}a"}])
        elif kind == "future":
            manual.append(["link", {"fresh": f"f{t}"}, {"new": i}])
        elif kind == "mkdir":
            manual.append(["mkdir", {"new": i}, f"m{t}"])
        elif kind == "copy":
            manual.append(["copy", {"new": i}, j, f"{j}-{t}"])
        elif kind == "corrupt":
            manual.append(["corrupt", i])
        elif kind == "linked-corrupt":
            # an earlier repair linked the job, then its class was deleted from the code: the record cannot be loaded any more
            manual.append(["link", {"new": i}, {"old": i}])
            manual.append(["corrupt", i])
        elif kind == "linked-claimant":
            # an earlier repair gave the new identifier of job i to ANOTHER directory (usually of the same configuration:
            # a variant stored under another former identifier) - which may hold no result while i does
            manual.append(["link", {"new": i}, {"old": j}])
        elif kind == "rmparams":
            manual.append(["rmparams", i])
        else:
            manual.append(["mvnew", i])
    ops = [rng.choices(OPS, OPW)[0] for _ in range(rng.choice([1, 2, 2, 3, 3, 4]))]
    if rng.random() < 0.5:
        ops.append(ops[-1])          # repeated call
    if rng.random() < 0.08:
        ops = [rng.choice(OPS_REL)] * rng.choice([1, 2])
    elif rng.random() < 0.3:
        # interrupted repairs (the call is stopped at its n-th modification of the workspace: see CrashTap in the driver):
        # a chain of 1-6 interrupted calls, each going a little further than the previous one, then the same command run to
        # its end - after 0-2 ordinary calls, on a workspace with or without manual partial repairs
        base = rng.choices(["fixclean", "cli-fixclean", "fix", "cli-fix"], [6, 2, 3, 1])[0]
        chain = [f"{base}^{rng.choices([0, 1, 2, 3], [5, 3, 1, 1])[0]}" for _ in range(rng.choice([1, 2, 3, 4, 5, 6]))]
        ops = ops[:rng.choice([0, 0, 0, 1, 2])] + chain + [base] + ([base] if rng.random() < 0.3 else [])
    return dict(name=name, jobs=jobs, manual=manual, ops=ops, real_resubmit=True)


# ------------------------------------------------------------------ observed trees
def tkey(k):
    return (k[0], k[1])


def tree_map(tree):
    return {tkey(e["k"]): e for e in tree}


def resolve(tm, k, hops=41):
    for _ in range(hops):
        e = tm.get(k)
        if e is None:
            return None
        if "link" not in e:
            return k, e
        k = tkey(e["link"]) if len(e["link"]) == 2 else None
    return None


def expected_recomp(case, ans):
    """marker -> expected (type, id) recomputed from its params.json, or None (cannot be loaded / no params).
    Independent of fix_deprecated: the identity of the graph written with the replacement classes."""
    new = [tkey((n["type"], n["id"])) for n in ans["new"]]
    corrupted, noparams, moved = set(), set(), set()
    exp = {}
    for ix in range(len(case["jobs"])):
        exp[f"{case['name']}:job{ix}"] = new[ix]
    for m, applied in zip(case["manual"], ans["manual_applied"]):
        if not applied:
            continue
        if m[0] == "corrupt":
            corrupted.add(m[1])
            exp[f"{case['name']}:job{m[1]}"] = None
        elif m[0] == "rmparams":
            noparams.add(m[1])
            exp[f"{case['name']}:job{m[1]}"] = None
        elif m[0] == "copy":
            j = m[2]
            exp[f"manual-copy:{m[3]}"] = None if (j in corrupted or j in noparams) else new[j]
        elif m[0] == "mkdir":
            exp[f"manual-dir:{m[2]}"] = None
        elif m[0] == "mvnew":
            moved.add(m[1])
    return exp, moved


def well_shaped(tm, exp):
    """hypothesis of the cleanup-mode idempotence theorem, evaluated on an observed tree"""
    for k, e in tm.items():
        if "link" in e:
            t = tm.get(tkey(e["link"])) if len(e["link"]) == 2 else None
            if t is None or "link" in t or not t["params"] or exp.get(t["mark"]) is None:
                return False
    for k, e in tm.items():
        if "link" not in e and e["params"]:
            n = exp.get(e["mark"])
            if n is not None and n[1] != k[1]:
                t = tm.get(n)
                if t is not None and "link" not in t:
                    return False
    return True


class Rekey:
    """cases that only differ from the others by the way the workspace is designated and that show the symptom (links
    with a relative target): whatever goes wrong there is reported under one key"""

    def __init__(self, c, key, why="workspace designated by a path relative to the current directory"):
        self.c, self.key, self.why = c, key, why

    def violation(self, key, what, data):
        self.c.violation(self.key, f"[{self.why}] {what} (clause {key})", data)


def finished(k, e, n):
    """the directory holds a result: <name>.done under the name of the task it was stored under (or of its replacement)"""
    return k[0].rsplit(".", 1)[-1] in e["done"] or n[0].rsplit(".", 1)[-1] in e["done"]


def oracle(c, case, ans):
    """The property restated over the implementation's observables (no model involved)."""
    # the symptom of a relative workspace path: a link whose target is not a path of jobs/ (the relative path of the old
    # directory, interpreted from the link's own directory); whatever fails in such a case is reported under one key
    if any(op.endswith("-rel") for op in case["ops"]) and any(
            "link" in e and len(e["link"]) != 2 for op in ans["ops"] for e in op["after"]):
        c = Rekey(c, "C20:relative-workspace-path")
    # classes defined in a plain file whose record the repair command cannot load: whatever follows from it is one finding
    if any(rc.get("state") == "failed" and set(classes_of(j["spec"])) & set(PLAINS) and f"{case['name']}:job{ix}" in
           expected_recomp(case, ans)[0] and expected_recomp(case, ans)[0][f"{case['name']}:job{ix}"] is not None
           for ix, (j, rc) in enumerate(zip(case["jobs"], ans.get("recomputed", [])))):
        c = Rekey(c, "C20:recompute-fails:plain-file-classes",
                  "classes defined in a plain file (not a package) and a job with a sub-configuration: load_objects executes the "
                  "file once per object, the configuration-mode validation fails, `deprecated list` silently skips the job")
    exp, moved = expected_recomp(case, ans)
    state = ans["before"]
    info = dict(case=case)
    prev = None
    any_fix = any_crash = False
    index = ans.get("index_before", [])
    # (0) what the repair command recomputes from a stored params.json (its loader, the classes as they are now) is
    #     the identity of the same graph written with the replacement classes: the directory is linked / moved
    #     where a re-submit looks for it
    for ix, (j, rc) in enumerate(zip(case["jobs"], ans.get("recomputed", []))):
        mk = f"{case['name']}:job{ix}"
        n = exp.get(mk)
        if n is None or ix in moved or rc["state"] == "absent":
            continue
        kind = "meta-flagged-graph" if flags_of(j["spec"]) else "unflagged-graph"
        where = dict(info, job=ix, spec=j["spec"], stored_under=case["old"][ix]["id"], recomputed=rc,
                     replacement=ans["new"][ix], flags=sorted(flags_of(j["spec"])))
        if rc["state"] != "ok":
            c.violation("C20:recompute-fails:" + kind, "the repair command cannot load a params.json written by a submit: "
                        "the directory is never made reachable under the new identifier", where)
        elif (rc["type"], rc["id"]) != n:
            c.violation("C20:recomputed-identity-differs:" + kind,
                        "the identity the repair command recomputes from params.json is not the identity of the same graph "
                        "written with the replacement classes: the stored result is linked / moved where a re-submit never looks",
                        where)
    for ix, op in enumerate(ans["ops"]):
        tb, ta = tree_map(state), tree_map(op["after"])
        where = dict(info, op_index=ix, op=op["op"], before=state, after=op["after"])
        crashed = bool(op.get("crashed"))       # an injected interruption: the exception is ours
        if op["error"] and not crashed:
            c.violation("C20:fix-raised", f"fix_deprecated raised {op['error']}", where)
        # (1) never deletes job data
        marks_b = {e["mark"]: e for e in state if "link" not in e}
        marks_a = {e["mark"]: e for e in op["after"] if "link" not in e}
        for mk, e in marks_b.items():
            if mk not in marks_a:
                c.violation("C20:data-lost:" + ("cleanup" if op["cleanup"] else "link"),
                            f"job data {mk} is gone after fix_deprecated(fix={op['fix']}, cleanup={op['cleanup']})", where)
            elif not set(e["done"]) <= set(marks_a[mk]["done"]):
                c.violation("C20:done-marker-lost", f"a .done marker of {mk} disappeared", where)
        # (9) ... nor the record of a job: a params.json that was a complete document still is one - also when the command is
        #     interrupted at any point (full device, kill)
        for mk, e in marks_b.items():
            if mk in marks_a and e.get("params_ok") and not marks_a[mk].get("params_ok"):
                c.violation("C20:interrupted-repair:job-record-destroyed" if crashed else "C20:job-record-destroyed",
                            f"params.json of {mk} was a complete document before the call and is "
                            + ("missing" if not marks_a[mk]["params"] else "truncated / unreadable") + " after it"
                            + (f" (the call was interrupted at its modification #{op['op'].partition('^')[2]}: {op.get('crash_at')}): "
                               "the job can never be repaired again and every later `deprecated list` stops at that folder" if crashed else ""),
                            where)
        # (2) a listing call changes nothing
        if not op["fix"] and op["after"] != state:
            c.violation("C20:list-modifies:" + ("cleanup-without-fix" if op["cleanup"] else "plain"),
                        "deprecated list without --fix modified the jobs tree"
                        + (" (the links of an earlier repair were removed although --cleanup is announced as ignored)"
                           if op["cleanup"] else ""), where)
        # (3) every directory stored under a former identifier is reachable under the new one
        if crashed:
            any_fix, any_crash = False, True      # what must hold of an interrupted state is (1), (8), (9); the next call completes
        if op["fix"] and not crashed:
            any_fix = True
            for k, e in tb.items():
                if "link" in e or not e["params"]:
                    continue
                n = exp.get(e["mark"])
                if n is None or n[1] == k[1]:
                    continue
                contested = any(k2 != k and "link" not in e2 and e2["params"] and exp.get(e2["mark"]) == n
                                for k2, e2 in tb.items())
                at = tb.get(n)
                r0 = resolve(tb, n)
                future = {exp.get(e2["mark"]) for e2 in tb.values() if "link" not in e2}
                if at is None:
                    free = True
                elif r0 is not None:
                    free = r0[0] == k and tkey(at.get("link", ("", ""))) == k   # previously linked by an earlier repair
                else:
                    # dangling link: replaced, unless another repair of this call brings its target to life
                    free = "link" in at and tkey(at["link"]) not in future and tkey(at["link"]) not in tb
                r1 = resolve(ta, n)
                mode = "cleanup" if op["cleanup"] else "link"
                if not op["cleanup"] and r1 is None:
                    c.violation("C20:new-path-missing:link", f"after --fix the new path {n} of {e['mark']} does not exist", where)
                if free and not contested:
                    if r1 is None or r1[1]["mark"] != e["mark"]:
                        c.violation(f"C20:not-reachable:{mode}",
                                    f"after fix (cleanup={op['cleanup']}) the new path of {e['mark']} does not lead to its data",
                                    dict(where, dir=k, new=n))
                elif not op["cleanup"] and r0 is not None and r0[0] != k:
                    # occupied by different data: left untouched
                    if r1 is None or r1[0] != r0[0] or r1[1]["mark"] != r0[1]["mark"]:
                        c.violation("C20:occupied-path-altered", "a new path occupied by different data was altered",
                                    dict(where, dir=k, new=n))
            # (7) two directories stored under two former identifiers of ONE configuration (class renamed twice, ...): only
            #     one of them can sit under the new identifier; when one of them holds a result, a re-submit must find a result
            claim = {}
            for k, e in tb.items():
                if "link" not in e and e["params"] and exp.get(e["mark"]) is not None and exp[e["mark"]][1] != k[1]:
                    claim.setdefault(exp[e["mark"]], []).append((k, e))
            for n, cl in claim.items():
                if len(cl) < 2 or n in tb or not any(finished(k, e, n) for k, e in cl):
                    continue
                r1 = resolve(ta, n)
                if r1 is None or not any(r1[1]["mark"] == e["mark"] and finished(k, e, n) for k, e in cl):
                    c.violation("C20:resubmit-misses-result:two-former-identifiers",
                                "two directories were stored under two former identifiers of the same configuration and one of them "
                                "holds a finished result; after the repair the new identifier leads to the one WITHOUT a result "
                                "(the first the file system listed): a re-submit runs the job again although a result exists",
                                dict(where, new=n, claimants=[dict(dir=k, mark=e["mark"], done=e["done"]) for k, e in cl],
                                     leads_to=None if r1 is None else r1[1]["mark"]))
            # (7') ... also when the new identifier is ALREADY a link (left by an earlier repair) to a claimant without result
            #      while another claimant holds one [open finding: link mode leaves such a link as it is, warning only]
            for n, cl in claim.items():
                at = tb.get(n)
                r0 = resolve(tb, n)
                if at is None or "link" not in at or r0 is None or not any(finished(k, e, n) for k, e in cl):
                    continue
                cands = cl + [(r0[0], r0[1])] if exp.get(r0[1]["mark"]) == n else None
                if cands is None or finished(r0[0], r0[1], n):
                    continue
                r1 = resolve(ta, n)
                if r1 is None or not any(r1[1]["mark"] == e["mark"] and finished(k, e, n) for k, e in cands):
                    c.violation("C20:resubmit-misses-result:earlier-link-to-folder-without-result",
                                "the new identifier is a link left by an earlier repair to a directory of the same configuration that "
                                "holds no result; another directory stored under a former identifier holds the result; the repair "
                                "leaves the link as it is (warning only): a re-submit does not find the existing result",
                                dict(where, new=n, linked_to=r0[1]["mark"], claimants=[dict(dir=k, mark=e["mark"], done=e["done"]) for k, e in cl]))
            # (10) --cleanup: a link towards a directory whose record cannot be loaded (nothing can be recomputed for it: it will
            #      not be moved) is not removed - what was reachable stays reachable
            if op["cleanup"]:
                for x, e in tb.items():
                    r0 = resolve(tb, x) if "link" in e else None
                    if r0 is None or not r0[1]["params"] or exp.get(r0[1]["mark"]) is not None:
                        continue
                    r1 = resolve(ta, x)
                    if r1 is None or r1[1]["mark"] != r0[1]["mark"]:
                        c.violation("C20:cleanup-makes-reachable-job-unreachable",
                                    f"{r0[1]['mark']} was reachable through the link {x} (an earlier repair); its record cannot be loaded any more "
                                    "(class deleted from the code, module not importable), so --fix --cleanup does not move it - but its first "
                                    "pass has removed the link: the job is not reachable any more", dict(where, link=x))
        # (8) the experiment indices (xp/<name>/jobs/<type>/<id>, links made by the scheduler) still lead to the data they led to
        idx_b = index
        index = op.get("index", index)
        for ent in idx_b:
            if ent["mark"] is None:
                continue
            if not any(e2["xp"] == ent["xp"] and e2["folder"] == ent["folder"] and e2["mark"] == ent["mark"] for e2 in index):
                c.violation("C20:interrupted-repair:experiment-index-broken" if crashed else
                            "C20:experiment-index-broken:" + ("cleanup" if op["cleanup"] else "link"),
                            f"the job {ent['mark']} belongs to experiment {ent['xp']} (xp/{ent['xp']}/{ent['folder']}/{'/'.join(ent['k'])} "
                            "led to its directory); after the repair no entry of that experiment leads to it: the link dangles since the "
                            "directory was moved, `orphans` lists the moved directory and `orphans --clean` deletes the data",
                            dict(where, entry=ent, index_after=index, orphans=ans.get("orphans")))
        # (5) a second identical repair is a no-op
        if prev is not None and not crashed and op["fix"] and (prev["fix"], prev["cleanup"]) == (op["fix"], op["cleanup"]):
            if not op["cleanup"] or well_shaped(tree_map(prev["_before"]), exp):
                if op["after"] != state:
                    c.violation("C20:not-idempotent:" + ("cleanup" if op["cleanup"] else "link"),
                                "repeating the same repair changed the tree again", dict(where, first_before=prev["_before"]))
        op["_before"] = state
        prev = None if crashed else op
        state = op["after"]
    # (8') ... and `orphans` (listing only) does not report a directory that an experiment referred to before the repair
    listed = set((ans.get("orphans") or {}).get("listed", []))
    if listed and ans["ops"]:
        last = {e["mark"]: e for e in ans["ops"][-1]["after"] if "link" not in e}
        for ent in ans.get("index_before", []):
            e = last.get(ent["mark"])
            if ent["mark"] is not None and e is not None and "/".join(e["k"]) in listed:
                c.violation("C20:interrupted-repair:experiment-index-broken" if any_crash else
                            "C20:experiment-index-broken:" + ("cleanup" if any(op["cleanup"] and op["fix"] for op in ans["ops"]) else "link"),
                            f"the job {ent['mark']} belonged to experiment {ent['xp']} before the repair; afterwards `orphans` reports its "
                            "directory as belonging to no experiment (`orphans --clean` would delete it)",
                            dict(info, entry=ent, orphans=ans["orphans"], final=ans["ops"][-1]["after"]))
    # (4) re-submitting the replacement finds the existing result
    for ix, (j, o, r) in enumerate(zip(case["jobs"], case["old"], ans["resubmit"])):
        mk = f"{case['name']}:job{ix}"
        if not any_fix or ix in moved or not o["done"] or r.get("mark") != mk or exp.get(mk) is None:
            continue     # (a directory whose params.json is missing or unreadable is never examined by the repair)
        renamed = o["name"] != ans["new"][ix]["name"]
        key = "C20:resubmit-misses-result:" + ("task-renamed" if renamed else "same-name")
        if any_crash:       # an earlier call was interrupted and the command was run again to its end
            key = "C20:interrupted-repair:result-not-found-after-rerun"
        if not r["done_visible"]:
            c.violation(key, "the repaired path leads to the old job directory, but its .done marker is not visible "
                        "under the name of the replacement task: a re-submit runs the job again",
                        dict(info, job=ix, old=o, new=ans["new"][ix], resubmit=r, final=ans["final"]))
        real = r.get("real")
        if real and (real["state"] != "DONE" or real["ran_after"] != real["ran_before"]):
            c.violation(key, "a real re-submit of the replacement task ran the job again instead of finding the result",
                        dict(info, job=ix, old=o, new=ans["new"][ix], resubmit=r, final=ans["final"]))
    for op in ans["ops"]:
        op.pop("_before", None)


# ------------------------------------------------------------------ Gallina rendering
class Intern:
    def __init__(self):
        self.t = {}

    def __call__(self, s):
        return self.t.setdefault(s, len(self.t) + 1)


def g_case(item):
    case, ans = item
    mods, names, ids = Intern(), Intern(), Intern()

    def gk(k):
        t, i = k
        m, _, n = t.rpartition(".")
        return f"(mkkey {mods(m)} {names(n)} {ids(i)})"

    exp, _ = expected_recomp(case, ans)

    def g_init(e):
        n = exp.get(e["mark"])
        rc = "None" if (n is None or not e["params"]) else f"(Some {gk(n)})"
        return f"Dir (mkdata {marks(e['mark'])} {gbool(e['params'])} {rc} {glist(str(names(x)) for x in e['done'])})"

    marks = Intern()
    init = glist(f"({gk(tkey(e['k']))}, " + (f"Link {gk(tkey(e['link']))}" if "link" in e else g_init(e)) + ")"
                 for e in ans["before"])

    def g_o(e):
        if "link" in e:
            return f"({gk(tkey(e['k']))}, OLink {gk(tkey(e['link']))})"
        return (f"({gk(tkey(e['k']))}, ODir {marks(e['mark'])} {gbool(e['params'])} "
                f"{glist(str(names(x)) for x in e['done'])})")

    ops = []
    for op in ans["ops"]:
        loops = op["loops"]
        if op["fix"] and op["cleanup"]:      # two loops; an interrupted call may not have reached the second one
            o1, o2 = (loops[0] if loops else []), (loops[1] if len(loops) >= 2 else [])
        else:
            o1, o2 = [], (loops[0] if loops else [])
        if op.get("examined") is not None:
            o2 = op["examined"]      # the directories in the order the main loop examined them (links are skipped by both)
        ops.append(f"{{| o_fix := {gbool(op['fix'])}; o_cleanup := {gbool(op['cleanup'])}; o_crash := {gbool(op.get('crashed'))}; "
                   f"o_ord1 := {glist(gk(tkey(k)) for k in o1)}; o_ord2 := {glist(gk(tkey(k)) for k in o2)}; "
                   f"o_after := {glist(g_o(e) for e in op['after'])} |}}")
    return f"({init}, {glist(ops)})"


def load_items(case, ans, classes_now):
    """one observation per job directory whose params.json the repair command can be expected to load: the class
    table of now, the submitted graph and the definitions its params.json holds (phase A, over the same indices),
    what the real loader + identifier answered (phase B), and the identity of the replacement graph"""
    exp, moved = expected_recomp(case, ans)
    pyix = {cl["py"]: i for i, cl in enumerate(classes_now)}
    out = []
    for ix, (o, rc) in enumerate(zip(case["old"], ans.get("recomputed", []))):
        n = exp.get(f"{case['name']}:job{ix}")
        if n is None or ix in moved or rc["state"] not in ("ok", "failed") or "graph" not in o:
            continue
        if any(d["id"] < 0 or d["py"] not in pyix for d in o["defs"]) or any(x["py"] not in pyix for x in o["graph"]):
            continue
        out.append(dict(classes=classes_now, pyix=pyix, graph=o["graph"], defs=o["defs"],
                        real=(rc["type"], rc["id"]) if rc["state"] == "ok" else None, repl=n,
                        case=dict(jobs=[case["jobs"][ix]], manual=[], ops=case["ops"][:1])))
    return out


def g_deprecation(before, now):
    """the class table before @deprecate, the deprecations in the order python performs them (class definition order:
    a class is deprecated when its definition is executed), and the class table afterwards"""
    ix = {cl["py"]: i for i, cl in enumerate(now)}
    steps = [(ix[cl["py"]], ix[cl["parent"]]) for cl in now if cl["deprecated"]]
    return (f"({identgen.g_classes(before)}, {glist(f'({gnat(a)}, {gnat(b)})' for a, b in steps)}, {identgen.g_classes(now)})")


def g_tid_id(p):
    return f"({gbytes(p[0].encode('utf-8'))}%N, {gbytes(bytes.fromhex(p[1]))}%N)"


def g_load(it):
    pyix = it["pyix"]
    nodes = [dict(x, cls=pyix[x["py"]]) for x in it["graph"]]

    def g_def(d):
        fields = glist(f"({gbytes(k)}%N, {identgen.g_value(v)})" for k, v in d["fields"])
        return (f"{{| d_id := {gnat(d['id'])}; d_cls := {gnat(pyix[d['py']])}; d_fields := {fields}; "
                f"d_pre := {glist(gnat(q) for q in d['pre'])}; d_init := {glist(gnat(q) for q in d['init'])}; "
                f"d_meta := {gopt(d['meta'], gbool)}; d_task := {gopt(d['task'], gnat)} |}}")
    return (f"{{| l_classes := {identgen.g_classes(it['classes'])}; l_heap := {identgen.g_heap(nodes)}; "
            f"l_defs := {glist(g_def(d) for d in it['defs'])}; l_root := 0%nat; "
            f"l_real := {gopt(it['real'], g_tid_id)}; l_repl := {g_tid_id(it['repl'])} |}}")


def representable(ans):
    for tree in [ans["before"]] + [op["after"] for op in ans["ops"]]:
        for e in tree:
            if "link" in e and len(e["link"]) != 2:
                return False
            if "link" not in e and e["mark"] is None:
                return False
    return True


# ------------------------------------------------------------------ running the implementation
def chunks(l, n):
    k = max(1, (len(l) + n - 1) // n)
    return [l[i:i + k] for i in range(0, len(l), k)]


def run_workspaces(c, cases):
    """phase A then phase B on every case; cases with a really executed job run in small separate driver
    processes under a short timeout (a hang of the real scheduler is not this property's business: the case
    is then re-done without real execution and counted)"""
    root = c.scratch() / "ws"
    root.mkdir(exist_ok=True)

    def is_real(case):
        return any(j["mode"] == "run" for j in case["jobs"])

    def phase_a(part, timeout):
        return run_impl("drive_c20.py", dict(phase="A", root=str(root), cases=part), timeout=timeout,
                        extra_env={"VPK_C20_DEPRECATED": "0"})

    def both(part, timeout):
        olds = phase_a(part, timeout)
        again = []
        for case, o in zip(part, olds):
            paths = [(x["type"], x["id"]) for x in o]
            if len(set(paths)) != len(paths):
                # two specs with the same former identity (they differ in ignored members only): one job directory;
                # keep the first, drop the manual repairs that name the others, and submit again in a fresh workspace
                drop = sorted((i for i, q in enumerate(paths) if q in paths[:i]), reverse=True)
                for i in drop:
                    del case["jobs"][i]
                    case["manual"] = [reindex(m, i) for m in case["manual"] if i not in job_refs(m)]
                case["name"] += "d"
                dups.append(len(drop))
                again.append(case)
            else:
                case["old"] = o
        if again:
            for case, o in zip(again, phase_a(again, timeout)):
                paths = [(x["type"], x["id"]) for x in o]
                if len(set(paths)) != len(paths):
                    raise InternalError("two jobs with the same former identity after pruning: " + json.dumps(case["jobs"]))
                case["old"] = o
        return run_impl("drive_c20.py", dict(phase="B", root=str(root), cases=part), timeout=timeout,
                        extra_env={"VPK_C20_DEPRECATED": "1"})

    def one(part):
        if not is_real(part[0]):
            return both(part, 1500)
        try:
            return both(part, 240)
        except InternalError as e:
            if "rc=124" not in str(e):
                raise
            hung.append(len(part))
            for case in part:
                case["name"] += "x"
                for j in case["jobs"]:
                    j["mode"] = "gen"
            return both(part, 1500)

    hung, dups = [], []
    plain = [x for x in cases if not is_real(x)]
    real = [x for x in cases if is_real(x)]
    parts = chunks(plain, 16) + chunks(real, max(1, (len(real) + 3) // 4))
    with ThreadPoolExecutor(max_workers=16) as ex:
        res = list(ex.map(one, [p for p in parts if p]))
    byname = {}
    for part, answers in zip([p for p in parts if p], res):
        for case, ans in zip(part, answers):
            byname[id(case)] = ans
    if hung and hasattr(c, "count"):
        c.count("real-run-chunks-timed-out(re-done without execution)", len(hung))
    if dups and hasattr(c, "count"):
        c.count("jobs-dropped(same former identity as another job of the case)", sum(dups))
    return [byname[id(case)] for case in cases]


class Collector:
    """stands for a Check while shrinking: records the keys the oracle reports"""

    def __init__(self):
        self.found = {}

    def violation(self, key, what, data):
        self.found.setdefault(key, (what, data))


def job_refs(m):
    if m[0] == "link":
        return [r[x] for r in (m[1], m[2]) for x in ("old", "new") if x in r]
    if m[0] == "mkdir":
        return [m[1][x] for x in ("old", "new") if x in m[1]]
    if m[0] == "copy":
        return [m[1][x] for x in ("old", "new") if x in m[1]] + [m[2]]
    return [m[1]]


def reindex(m, drop):
    m = copy.deepcopy(m)

    def fix(i):
        return i - 1 if i > drop else i
    for r in m[1:3]:
        if isinstance(r, dict):
            for x in ("old", "new"):
                if x in r:
                    r[x] = fix(r[x])
    if m[0] == "copy":
        m[2] = fix(m[2])
    if m[0] in ("corrupt", "rmparams", "mvnew"):
        m[1] = fix(m[1])
    return m


def spec_reductions(spec):
    """smaller graphs: one optional member, one list / dict element or one meta flag less"""
    sites = []

    def go(s, path):
        if isinstance(s, list):
            for i, x in enumerate(s):
                if len(s) > 1:
                    sites.append((path, "del", i))
                go(x, path + [i])
        elif isinstance(s, dict):
            if "dict" in s:
                for k, v in s["dict"].items():
                    if len(s["dict"]) > 1:
                        sites.append((path + ["dict"], "del", k))
                    go(v, path + ["dict", k])
            elif "c" in s:
                if "meta" in s:
                    sites.append((path, "del", "meta"))
                for k, v in s["a"].items():
                    if k not in REQUIRED[OLD2NEW.get(s["c"], s["c"])]:
                        sites.append((path + ["a"], "del", k))
                    go(v, path + ["a", k])
    go(spec, [])
    for path, _, k in sites:
        s2 = copy.deepcopy(spec)
        at = s2
        for q in path:
            at = at[q]
        del at[k]
        if '"ref"' in json.dumps(s2) and '"label"' not in json.dumps(s2):
            continue            # the labelled occurrence of a shared node was dropped
        yield s2


def reductions(case):
    base = {k: copy.deepcopy(case[k]) for k in ("jobs", "manual", "ops")}
    if len(base["jobs"]) > 1:
        for i in range(len(base["jobs"])):
            c2 = copy.deepcopy(base)
            del c2["jobs"][i]
            c2["manual"] = [reindex(m, i) for m in c2["manual"] if i not in job_refs(m)]
            yield c2
    for i in range(len(base["manual"])):
        c2 = copy.deepcopy(base)
        del c2["manual"][i]
        yield c2
    if len(base["ops"]) > 1:
        for i in range(len(base["ops"])):
            c2 = copy.deepcopy(base)
            del c2["ops"][i]
            yield c2
    for i, j in enumerate(base["jobs"]):
        if j["mode"] == "run":
            c2 = copy.deepcopy(base)
            c2["jobs"][i]["mode"] = "gen"
            yield c2
    for i, j in enumerate(base["jobs"]):
        for s2 in spec_reductions(j["spec"]):
            c2 = copy.deepcopy(base)
            c2["jobs"][i]["spec"] = s2
            yield c2


def shrink(c, case, key, rounds=10):
    """greedy: drop jobs / manual repairs / calls / members of the graphs while the oracle still reports the same key
    on the real code"""
    cur = {k: case[k] for k in ("jobs", "manual", "ops")}
    best = None
    tag = hashlib.sha1(key.encode()).hexdigest()[:6]
    for rnd in range(rounds):
        if time.time() - c.t0 > 150:          # a failing run stays within a few minutes: report what was reached
            break
        cands = [dict(cd, name=f"s{tag}r{rnd}c{i}", real_resubmit=True)
                 for i, cd in enumerate(reductions(cur))]
        if not cands:
            break
        answers = run_workspaces(c, cands)
        c.extra["shrink_runs"] = c.extra.get("shrink_runs", 0) + len(cands)
        nxt = None
        for cd, ans in zip(cands, answers):
            col = Collector()
            oracle(col, cd, ans)
            if key in col.found:
                nxt = (cd, col.found[key])
                break
        if nxt is None:
            break
        cur = {k: nxt[0][k] for k in ("jobs", "manual", "ops")}
        best = nxt[1]
    return cur, best


def shape(case, ans):
    exp, _ = expected_recomp(case, ans)
    sig = []
    for e in ans["before"]:
        if "link" in e:
            sig.append("L")
        else:
            n = exp.get(e["mark"])
            sig.append("D0" if n is None else ("D=" if n[1] == e["k"][1] else "D!"))
    return "".join(sorted(sig)) + "|" + ",".join(case["ops"]) + "|" + json.dumps(case["manual"])


def run(c: Check):
    c.rule = ("workspace case = 1-4 real job directories submitted under former identities (Old* classes of vpk_c20 before "
              "@deprecate, at the root and/or nested; members given through Meta[...] parameters and members flagged "
              "setmeta(True / False) in parameters, lists and dicts), 0-3 manual partial repairs, 1-5 real fix_deprecated / CLI calls; "
              "non-trivial = at least one directory whose recomputed identifier differs from its name and at least one call "
              "with --fix, distinct by (tree shape, calls, manual repairs); identifier graph non-trivial = contains a deprecated class")
    if not os.environ.get("VERIF_DEV_NOBUILD"):   # development only: files not yet in _CoqProject
        c.build()
    c.props()
    gold = json.load(open(ROOT / "golden" / "c20.json"))
    n_ws, n_real, n_gr = (170, 8, 1500) if c.quick else (3600, 48, 24000)
    cases, graphs = [], []
    if c.replay:
        rp = json.load(open(c.replay))["replay"]
        if "case" in rp:
            cs = {k: rp["case"][k] for k in ("jobs", "manual", "ops")}
            cases.append(dict(cs, name="replay0", real_resubmit=True))
        if "graph" in rp:
            graphs.append(rp["graph"])
        n_ws = n_real = n_gr = 0
    for ix, g in enumerate(gold.get("cases", [])):
        cases.append(dict(copy.deepcopy(g), name=f"gold{ix}", real_resubmit=True))
    graphs.extend(gold.get("graphs", []))
    for ix in range(n_ws):
        cases.append(gen_case(c.rng, f"w{ix}", real=ix < n_real))
    for _ in range(n_gr):
        graphs.append(gen_graph(c.rng))

    # ---- workspace half
    # small independent driver calls, run beside the workspaces: the class table after / before @deprecate, the directed probes
    probes = [{"c": "DefHolder", "a": {"n": n, "leaf": {"c": cl, "a": {"v": 1}}}} for n in (0, 1) for cl in ("OldLeaf", "OlderLeaf")]
    side = ThreadPoolExecutor(max_workers=3)
    f_now = side.submit(run_impl, "drive_c20.py", dict(phase="C"), extra_env={"VPK_C20_DEPRECATED": "1"})
    f_before = side.submit(run_impl, "drive_c20.py", dict(phase="C"), extra_env={"VPK_C20_DEPRECATED": "0"})
    f_probes = side.submit(run_impl, "drive_c20.py", dict(phase="I", graphs=probes), timeout=600,
                           extra_env={"VPK_C20_DEPRECATED": "1"})
    answers = run_workspaces(c, cases) if cases else []
    classes_now = f_now.result()
    items, loads = [], []
    col = Collector()
    for case, ans in zip(cases, answers):
        c.evaluations += 1
        exp, _ = expected_recomp(case, ans)
        loads.extend(load_items(case, ans, classes_now))
        for j in case["jobs"]:
            fl = flags_of(j["spec"])
            c.count("job:meta-flags=" + ("+".join(sorted(fl)) if fl else "none"))
        for rc in ans.get("recomputed", []):
            c.count("recompute:" + rc["state"])
        c.count(f"jobs={len(case['jobs'])}")
        c.count(f"manual={sum(ans['manual_applied'])}")
        for m, ap in zip(case["manual"], ans["manual_applied"]):
            if ap:
                c.count("manual:" + m[0] + (":" + "+".join(sorted(list(m[1])[:1] + list(m[2])[:1])) if m[0] == "link" else ""))
        for op, r in zip(case["ops"], ans["ops"]):
            c.count("op:" + (op.partition("^")[0] + "^interrupted" if "^" in op else op))
            if "^" in op:
                c.count("interruption:" + (f"at-{r['crash_at']}" if r.get("crashed") else "none(the call made fewer modifications)"))
        for j in case["jobs"]:
            cl = classes_of(j["spec"])
            c.count("job:root-deprecated" if cl[0] in OLD else "job:root-current")
            c.count("job:nested-deprecated" if any(x in OLD for x in cl[1:]) else "job:nested-current")
        stale = [e for e in ans["before"] if "link" not in e and exp.get(e["mark"]) is not None
                 and exp[e["mark"]][1] != e["k"][1]]
        c.count(f"stale-dirs={len(stale)}")
        for r in ans["resubmit"]:
            c.count("resubmit:" + ("done-visible" if r["done_visible"] else ("reached" if r["exists"] else "not-reached")))
            if "real" in r:
                c.count("resubmit-real:" + r["real"]["state"] + (":reran" if r["real"]["ran_after"] != r["real"]["ran_before"] else ":not-rerun"))
        if stale and any(op["fix"] for op in ans["ops"]):
            c.nontrivial.add("ws:" + shape(case, ans))
            if any("false-in-meta-param" in flags_of(j["spec"]) for j in case["jobs"]):
                c.count("nontrivial-with-a-member-forced-into-the-identifier(meta=False)")
        oracle(col, case, ans)
        if representable(ans):
            items.append((case, ans))
        else:
            c.count("not-representable")
    known_open = {k["key"] for k in c.known() if k.get("property") == "C20" and k.get("status") == "open"}

    def shrunk(kv):
        key, (what, data) = kv
        if key in known_open:            # recorded finding: reported as such, no descent on the real code
            return key, what, data
        small, best = shrink(c, data["case"], key)
        return (key,) + (best if best is not None else (what, data))

    with ThreadPoolExecutor(max_workers=4) as ex:          # one greedy descent per reported key, on the real code
        for key, what, data in list(ex.map(shrunk, list(col.found.items()))):
            c.violation(key, what, data)
    c.samples = [dict(jobs=x[0]["jobs"], manual=x[0]["manual"], ops=x[0]["ops"], before=x[1]["before"],
                      after_last=x[1]["ops"][-1]["after"], resubmit=x[1]["resubmit"]) for x in items[:2]]
    header = ("From Coq Require Import ZArith List Bool.\nFrom XV Require Import model.Deprecate corr.DeprecateCorr.\n"
              "Import ListNotations.\nOpen Scope Z_scope.\n")
    bad = c.corr_shards("corr", header, items, g_case, "check_case", shard=150) if items else []
    # the step that produces the recomputed identity: the model's loader (model/Serial.v load_into) run on the real
    # params.json definitions, then the model's identifier with SHA-256, against what the real loader + identifier
    # answered and against the identity of the replacement graph
    lheader = ("From Coq Require Import ZArith NArith List Bool.\nFrom XV Require Import core.Value model.Hash model.Serial "
               "model.Deprecate corr.DeprecateCorr.\nImport ListNotations.\n")
    lbad = c.corr_shards("load", lheader, loads, g_load, "check_load", shard=120 if c.quick else 400) if loads else []
    # what @deprecate does to the class table: the model's `deprecate` applied to the real table before must give the real table after
    classes_before = f_before.result()
    if cases:
        if any(cl["deprecated"] for cl in classes_before) or [cl["py"] for cl in classes_before] != [cl["py"] for cl in classes_now]:
            raise InternalError("phase C: class tables before / after @deprecate are not aligned")
        c.count("deprecated-classes", sum(1 for cl in classes_now if cl["deprecated"]))
        c.corr_shards("deprecate", lheader, [(classes_before, classes_now)], lambda x: g_deprecation(*x), "check_deprecate", shard=1)
    c.extra["disagreeing_loads"] = [dict(loads[i]["case"], real=loads[i]["real"], replacement=loads[i]["repl"]) for i in lbad[:3]]
    if lbad:
        # diagnostic only: do the disagreeing directories behave like a loader that restores only a truthy meta flag?
        sub = [loads[i] for i in lbad[:100]]
        body = (lheader + "Definition cases := [\n" + ";\n".join(g_load(x) for x in sub) + "].\n"
                "Eval vm_compute in (map check_load_truthy cases).\n")
        rc, out, err = c.coq_eval("loaddiag", body, 600)
        if rc == 0:
            c.extra["disagreeing_loads_matching_truthy_only_meta_loader"] = f"{out.count('true')}/{len(sub)}"
    c.extra["disagreeing_cases"] = [dict(case={k: items[i][0][k] for k in ("jobs", "manual", "ops")},
                                         observed=items[i][1]) for i in bad[:3]]
    if bad and os.environ.get("VERIF_C20_DUMP"):         # development aid: every disagreeing case, with its Gallina term
        json.dump([dict(case={k: items[i][0][k] for k in ("jobs", "manual", "ops")}, observed=items[i][1],
                        gallina=g_case(items[i])) for i in bad], open(os.environ["VERIF_C20_DUMP"], "w"))
    if bad:
        # diagnostic only (no obligation): do the disagreeing cases behave like the literal model of the pinned commit?
        sub = [items[i] for i in bad[:150]]
        body = (header + "Definition cases := [\n" + ";\n".join(g_case(x) for x in sub) + "].\n"
                "Eval vm_compute in (map check_case_prefix cases).\n")
        rc, out, err = c.coq_eval("prefixdiag", body, 600)
        if rc == 0:
            c.extra["disagreeing_cases_matching_pinned_commit_model"] = f"{out.count('true')}/{len(sub)}"

    # ---- identifier half (implementation side; the model tie is Hash.v's)
    if graphs:
        parts = chunks(graphs, 8)
        with ThreadPoolExecutor(max_workers=16) as ex:
            dep = list(ex.map(lambda p: run_impl("drive_c20.py", dict(phase="I", graphs=p), timeout=1500,
                                                 extra_env={"VPK_C20_DEPRECATED": "1"}), parts))
            nodep = list(ex.map(lambda p: run_impl("drive_c20.py", dict(phase="I", graphs=p), timeout=1500,
                                                   extra_env={"VPK_C20_DEPRECATED": "0"}), parts))
        dep = [x for p in dep for x in p]
        nodep = [x for p in nodep for x in p]
        # directed probe (reported under its own key only): a deprecated-class instance equal to a parameter's DEFAULT
        # (a configuration-valued default) - Config.__eq__ compares the python classes, so the value is not recognised
        # as the default and is hashed, while the replacement's instance is skipped
        for g, a in zip(probes, f_probes.result()):
            c.evaluations += 1
            c.count("graph:probe-config-valued-default")
            if a["old"] != a["new"] or a["old_type"] != a["new_type"]:
                c.violation("C20:identifier-differs:config-valued-default",
                            "a deprecated-class instance equal to the (configuration-valued) default of a parameter is hashed, the "
                            "same value written with the replacement class is skipped as the default: the identifiers differ after "
                            "deprecation", dict(graph=g, deprecated=a))
        for g, a, b in zip(graphs, dep, nodep):
            c.evaluations += 1
            cl = classes_of(g)
            nold = sum(1 for x in cl if x in OLD)
            c.count(f"graph:nodes={min(len(cl), 12)}")
            c.count("graph:deprecated=" + ("0" if nold == 0 else "1" if nold == 1 else "2+"))
            c.count("graph:root=" + cl[0])
            if nold:
                c.nontrivial.add("g:" + json.dumps(g, sort_keys=True))
                # sanity of the experiment: without @deprecate the old classes do have another identity
                c.count("graph:old-identity-differs-before-deprecation=" + gbool(b["old"][-1] != b["new"][-1]))
            for i, (x, y) in enumerate(zip(a["old"], a["new"])):
                if x != y or a["old_type"][i] != a["new_type"][i]:
                    c.violation("C20:identifier-differs:" + a["old_cls"][i],
                                "a graph with a deprecated class does not have the identifier of the same graph "
                                "written with the replacement class", dict(graph=g, node=i, deprecated=a, plain=b))
                    break
        c.samples.append(dict(graph=graphs[-1], identifiers=dep[-1]))
        c.traces += len(graphs)
    c.level_assumptions = [
        "symbolic links, rename and unlink are atomic and behave as POSIX says; the kernel follows at most 40 links",
        "the order in which pathlib.Path.glob yields entries is the file system's, and the main loop may sort them: the first "
        "loop's order is recorded from glob, the main loop's from the calls to tools.jobs.load_job (one per examined "
        "directory), and given to the model; the theorems hold for every order",
        "job data = the directory content other than params.json (which --cleanup rewrites) and the marker files; "
        "links from outside jobs/ (xp/<name>/jobs/...) to a moved directory are not modelled",
        "identifier half: implementation-side oracle only in this file; the model tie (deprecated_same_ident on Hash.v) "
        "is added by the identifier model",
        "recomputed identity: the definitions of params.json are aligned with the submitted graph through the python ids the "
        "implementation wrote (same process as the submit); json round-trips ints, strings, lists and dicts; the class table "
        "of now is read by reflection from the real ObjectTypes after @deprecate",
    ]


if __name__ == "__main__":
    main_wrapper("C20", run)
