"""Debug helper: python dbg_ident.py <replay.json> [history index] - prints model vs implementation answers."""
import json, sys, subprocess, os
sys.path.insert(0, os.path.dirname(__file__))
import identgen
from vcommon import run_impl, COQFLAGS, GEN
rp = json.load(open(sys.argv[1]))
rp = rp.get("replay", rp)
hists = rp.get("histories") or [rp.get("history") or rp.get("ops")]
hi = int(sys.argv[2]) if len(sys.argv) > 2 else 0
res = run_impl("drive_ident.py", dict(cases=[dict(desc=rp["desc"], histories=[hists[hi]])]))[0]
print("build_errors", res["build_errors"])
print("impl", [a[:12] for a in res["answers"][0]])
txt = ("From Coq Require Import ZArith NArith List Bool.\nFrom XV Require Import core.Value model.Hash model.Cache corr.IdentCorr.\nImport ListNotations.\n"
       "Definition c := " + identgen.g_icase(res["export"], hists[hi], res["answers"][0]) + ".\n"
       "Definition short (a : answer) := match a with ADigest d => ADigest (firstn 6 d) | x => x end.\n"
       "Eval vm_compute in map short (run_case true c).\nEval vm_compute in check_case c.\n")
GEN.mkdir(exist_ok=True)
f = GEN / "dbg.v"
f.write_text(txt)
p = subprocess.run(["coqc"] + COQFLAGS + [str(f)], capture_output=True, text=True)
print(p.stdout[-3000:], p.stderr[-2000:])
for i, x in enumerate(res["export"]["nodes"]):
    print(i, res["export"]["classes"][x["cls"]]["py"], "meta", x["meta"], "task", x["task"], "pre", x["pre"], "init", x["init"], "sealed", x["sealed"],
          [(bytes(k).decode(), v if v["t"] not in ("str",) else bytes(v["b"]).decode()) for k, v in x["fields"]])
