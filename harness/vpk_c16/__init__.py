"""Importable task library of the C16 harness (never defined in __main__)."""
from experimaestro import Param, Task


class IndexedJob(Task):
    """A task that does nothing; the harness pre-creates its success marker."""

    x: Param[int]

    def execute(self):
        pass
