"""Importable task library of the C16 harness (never defined in __main__)."""
from experimaestro import Param, Task


class IndexedJob(Task):
    """A task that does nothing; the harness pre-creates its success marker."""

    x: Param[int]

    def execute(self):
        pass


class FlakyJob(Task):
    """A task that really runs: it fails unless the file named by $C16_FLAG exists."""

    x: Param[int]

    def execute(self):
        import os

        if not os.path.exists(os.environ["C16_FLAG"]):
            raise RuntimeError("flag is missing")
