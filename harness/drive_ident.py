"""Implementation driver for the identifier core: builds each described graph afresh for
each of its histories, exports the heap the real objects hold, runs the history.
Input  {"cases":[{"desc":..., "histories":[[op,...],...]}]}
Output [{"export":..., "build_errors":..., "answers":[[...],...]}] on the last line."""
import json
import sys
import tempfile
import shutil

import identlib
from experimaestro import experiment
from experimaestro.scheduler.workspace import RunMode


def main():
    payload = json.load(sys.stdin)
    wd = tempfile.mkdtemp(prefix="xpmverif-ident-")
    out = []
    try:
        with experiment(wd, "ident", port=-1, run_mode=RunMode.DRY_RUN):
            for case in payload["cases"]:
                res = dict(answers=[], export=None, build_errors=None)
                for hist in case["histories"]:
                    try:
                        b = identlib.Built(case["desc"], wd)
                        ex = b.export()
                        if res["export"] is None:
                            res["export"] = ex
                            res["build_errors"] = b.errors
                        elif ex != res["export"]:
                            res["nondeterministic_build"] = True
                        res["answers"].append(b.run_history(hist))
                        if case.get("default_pairs") and "default_test" not in res:
                            # the repaired default test on pairs (default, value) of configurations of this graph
                            from experimaestro.core.objects import HashComputer, ConfigPath

                            class _Arg:
                                def __init__(self, default):
                                    self.default = default
                            res["default_test"] = [
                                bool(HashComputer(None, ConfigPath()).is_default(_Arg(b.allobjs[d]), b.allobjs[v]))
                                for d, v in case["default_pairs"]]
                        if "export_after" not in res:
                            res["export_after"] = b.export()      # the state the FIRST history ends in
                    except Exception as e:  # noqa
                        res["answers"].append(["build-exc:" + type(e).__name__ + ":" + str(e)[:200]])
                out.append(res)
    finally:
        shutil.rmtree(wd, ignore_errors=True)
    sys.stderr = open("/dev/null", "w")
    print(json.dumps(out))


if __name__ == "__main__":
    main()
