"""Trace validation support for C05 / C11.

1. A Python mirror of coq/model/JobDir.v (lstep, gexec).  It is only a *search aid*: the witness
   it finds is re-executed by the Gallina model inside coqc (corr/JobDirCorr.v), which is the judge.
2. Extraction of the observed events from the shared event log of a scenario
   (scheduler line traces -> effects with [about-to, completed] intervals; body begin/end of the
   job processes as exact events; deaths of schedulers).
3. Search for a linearisation: exact events in log order, every scheduler effect inside its
   interval, hidden job-process effects (Exec, Lock, TestDone, RmFailed, TouchDone, WriteFailed,
   RmPid, Unlock) wherever they are enabled.
4. Rendering of the witness as Gallina.
"""
import re
from pathlib import Path

# ------------------------------------------------------------------ mirror of the model
PN, PX = ("PNone",), ("PExec",)


def alive(c):
    return c[0] not in ("PNone", "PExit")


def pinflight(c):
    return c[0] in ("PBody", "PTouch")


def sover(c):
    return c[0] in ("SIdle", "SFinal", "SDead")


class JD:
    __slots__ = ("done", "failed", "pidf", "lock", "script", "procs", "nprocs", "scheds",
                 "body_runs", "body_active", "inflight", "launches", "succ", "aborts", "done0")

    def __init__(self, done=False, failed=False, script="SEmpty"):
        self.done, self.failed, self.pidf, self.lock, self.script = done, failed, None, None, script
        self.procs, self.nprocs, self.scheds = {}, 0, {}
        self.body_runs = self.body_active = self.inflight = self.launches = self.succ = self.aborts = 0
        self.done0 = done

    def copy(self):
        n = JD.__new__(JD)
        for k in JD.__slots__:
            v = getattr(self, k)
            setattr(n, k, dict(v) if isinstance(v, dict) else v)
        return n

    def key(self):
        return (self.done, self.failed, self.pidf, self.lock, self.script, tuple(sorted(self.procs.items())),
                self.nprocs, tuple(sorted(self.scheds.items())), self.body_runs, self.inflight, self.aborts)

    def proc(self, p):
        return self.procs.get(p, PN)

    def sched(self, s):
        return self.scheds.get(s, ("SIdle",))


# the model of the repaired aio_process (an empty pid file is no information); the search aid only
FIXED = [True]


def release(a, l):
    return None if l == a else l


def lstep(l, st):
    """mirror of JobDir.lstep; returns a new JD or None"""
    k = l[0]
    n = st.copy()
    if k in ("LSubmit", "LTest1", "LPid", "LAdoptEnd", "LTest2", "LReady", "LDepFail", "LSLock", "LTest3", "LAbort", "LTrunc",
             "LWrite", "LSpawn", "LCreatePid", "LWritePid", "LSUnlock", "LWaitEnd", "LCrash"):
        s = l[1]
        c = st.sched(s)
        if k == "LSubmit":
            if not sover(c):
                return None
            n.scheds[s] = ("STest1",)
        elif k == "LTest1":
            if c[0] != "STest1":
                return None
            n.scheds[s] = ("SPid", st.done)
        elif k == "LPid":
            if c[0] != "SPid":
                return None
            if isinstance(st.pidf, int) and alive(st.proc(st.pidf)):
                n.scheds[s] = ("SAdopt", st.pidf)
            elif st.pidf == "empty" and not FIXED[0]:
                n.scheds[s] = ("SStuck",)
            else:
                n.scheds[s] = ("STest2", False, c[1])
        elif k == "LAdoptEnd":
            if c[0] != "SAdopt" or alive(st.proc(c[1])):
                return None
            n.scheds[s] = ("STest2", True, False)
        elif k == "LTest2":
            if c[0] != "STest2":
                return None
            if st.done:
                n.scheds[s] = ("SFinal", "VDone")
            elif c[1]:
                n.scheds[s] = ("SFinal", "VError")
            elif c[2]:
                n.scheds[s] = ("SFinal", "VDone")
            else:
                n.scheds[s] = ("SReady",)
        elif k == "LReady":
            if c[0] != "SReady":
                return None
            n.scheds[s] = ("SLock",)
        elif k == "LDepFail":
            if c[0] != "SReady":
                return None
            n.scheds[s] = ("SFinal", "VError")
        elif k == "LSLock":
            if c[0] != "SLock" or st.lock is not None:
                return None
            n.lock = ("S", s)
            n.scheds[s] = ("STest3",) if FIXED[0] else ("STrunc",)
        elif k == "LTest3":
            if c[0] != "STest3":
                return None
            if st.done:
                n.lock = release(("S", s), st.lock)
                n.scheds[s] = ("SFinal", "VDone")
            else:
                n.scheds[s] = ("STrunc",)
        elif k == "LAbort":
            if c[0] != "STrunc":
                return None
            n.lock = release(("S", s), st.lock)
            n.scheds[s] = ("SReady",)
        elif k == "LTrunc":
            if c[0] != "STrunc":
                return None
            if not FIXED[0]:
                n.script = "SEmpty"      # pinned code: the script is rewritten in place
            n.scheds[s] = ("SWrite",)
        elif k == "LWrite":
            if c[0] != "SWrite":
                return None
            n.script = "SFull"
            n.scheds[s] = ("SSpawn",)
        elif k == "LSpawn":
            if c[0] != "SSpawn":
                return None
            n.procs[st.nprocs] = PX
            n.nprocs = st.nprocs + 1
            n.launches += 1
            n.scheds[s] = ("SCreatePid", st.nprocs)
        elif k == "LCreatePid":
            if c[0] != "SCreatePid":
                return None
            n.pidf = "empty"
            n.scheds[s] = ("SWritePid", c[1])
        elif k == "LWritePid":
            if c[0] != "SWritePid":
                return None
            n.pidf = c[1]
            n.scheds[s] = ("SUnlock", c[1])
        elif k == "LSUnlock":
            if c[0] != "SUnlock":
                return None
            n.lock = release(("S", s), st.lock)
            n.scheds[s] = ("SWait", c[1])
        elif k == "LWaitEnd":
            if c[0] != "SWait":
                return None
            pc = st.proc(c[1])
            if pc[0] != "PExit":
                return None
            n.scheds[s] = ("SFinal", "VError" if pc[1] == "XFail" else "VDone")
        elif k == "LCrash":
            if c[0] == "SDead":
                return None
            n.lock = release(("S", s), st.lock)
            n.scheds[s] = ("SDead",)
        return n
    p = l[1]
    c = st.proc(p)
    if k == "LExec":
        if c[0] != "PExec":
            return None
        n.procs[p] = ("PLockW",) if st.script == "SFull" else ("PExit", "XNop")
    elif k == "LPLock":
        if c[0] != "PLockW" or st.lock is not None:
            return None
        n.lock = ("P", p)
        n.procs[p] = ("PTest",)
    elif k == "LPTest":
        if c[0] != "PTest":
            return None
        n.procs[p] = ("PRmPid", "XOk") if st.done else ("PRmFailed",)
    elif k == "LRmFailed":
        if c[0] != "PRmFailed":
            return None
        n.failed = False
        n.procs[p] = ("PBegin",)
    elif k == "LBegin":
        if c[0] != "PBegin":
            return None
        n.body_runs += 1
        n.body_active += 1
        n.inflight += 1
        n.procs[p] = ("PBody",)
    elif k == "LEnd":
        if c[0] != "PBody":
            return None
        n.body_active = max(0, st.body_active - 1)
        if l[2]:
            n.procs[p] = ("PTouch",)
        else:
            n.inflight = max(0, st.inflight - 1)
            n.aborts += 1
            n.procs[p] = ("PWriteFailed",)
    elif k == "LTouch":
        if c[0] != "PTouch":
            return None
        n.done = True
        n.inflight = max(0, st.inflight - 1)
        n.succ += 1
        if l[2]:
            n.procs[p] = ("PRmPid", "XOk")
        else:
            n.lock = release(("P", p), st.lock)
            n.procs[p] = ("PExit", "XOk")
    elif k == "LWriteFailed":
        if c[0] != "PWriteFailed":
            return None
        n.failed = True
        n.procs[p] = ("PRmPid", "XFail")
    elif k == "LRmPid":
        if c[0] != "PRmPid":
            return None
        n.pidf = None
        n.procs[p] = ("PUnlock", c[1])
    elif k == "LPUnlock":
        if c[0] != "PUnlock":
            return None
        n.lock = release(("P", p), st.lock)
        n.procs[p] = ("PExit", c[1])
    elif k == "LKill":
        if not alive(c):
            return None
        n.lock = release(("P", p), st.lock)
        if c[0] == "PBody":
            n.body_active = max(0, st.body_active - 1)
        if pinflight(c):
            n.inflight = max(0, st.inflight - 1)
        n.aborts += 1
        n.procs[p] = ("PExit", "XFail")
    else:
        raise ValueError(l)
    return n


def hidden_moves(st):
    """enabled hidden effects of job processes"""
    out = []
    for p, c in st.procs.items():
        k = c[0]
        if k == "PExec":
            out.append(("LExec", p))
        elif k == "PLockW" and st.lock is None:
            out.append(("LPLock", p))
        elif k == "PTest":
            out.append(("LPTest", p))
        elif k == "PRmFailed":
            out.append(("LRmFailed", p))
        elif k == "PTouch":
            out.append(("LTouch", p, False))
            out.append(("LTouch", p, True))
        elif k == "PWriteFailed":
            out.append(("LWriteFailed", p))
        elif k == "PRmPid":
            out.append(("LRmPid", p))
        elif k == "PUnlock":
            out.append(("LPUnlock", p))
    return out


class G:
    """composed state: list of JD, deps: {j: [d..]}"""

    def __init__(self, jobs, deps):
        self.jobs, self.deps = jobs, deps

    def key(self):
        return tuple(j.key() for j in self.jobs)


def gexec(m, g):
    if m[0] == "GDie":
        s = m[1]
        jobs = []
        for st in g.jobs:
            n = lstep(("LCrash", s), st)
            jobs.append(n if n is not None else st)
        return G(jobs, g.deps)
    _, j, l = m
    if l[0] == "LReady":
        if not all(g.jobs[d].sched(l[1]) == ("SFinal", "VDone") for d in g.deps.get(j, [])):
            return None
    if l[0] == "LDepFail":
        if not any(g.jobs[d].sched(l[1]) == ("SFinal", "VError") for d in g.deps.get(j, [])):
            return None
    n = lstep(l, g.jobs[j])
    if n is None:
        return None
    jobs = list(g.jobs)
    jobs[j] = n
    return G(jobs, g.deps)


# ------------------------------------------------------------------ source markers
MARK_TEXT = {
    "aio_submit": [("T", "if job.donepath.exists():"), ("PID", "process = await job.aio_process()"),
                   ("ADOPTWAIT", "code = await process.aio_code()"), ("START", "state = await self.aio_start(job)")],
    "aio_start": [("LOCK", "async with job.launcher.connector.lock(job.lockpath):"),
                  ("WAIT", "code = await process.aio_code()"), ("T3", "if job.donepath.exists():")],
    "aio_run": [("PREPARE", "scriptPath = self.prepare()"), ("SPAWN", "self._process = processbuilder.start(True)"),
                ("WPID", 'with self.pidpath.open("w") as fp:'), ("RUNSET", "self.state = JobState.RUNNING")],
}
FILES = {"aio_submit": "scheduler/base.py", "aio_start": "scheduler/base.py", "aio_run": "commandline.py"}


def load_markers(repo):
    """(func, lineno) -> marker name, from the source text of the tree under test.
    Returns None when the expected statements are not all found exactly once (twice for T):
    then no trace is validated (the oracle still runs)."""
    import ast
    out = {}
    for fn, fname in FILES.items():
        path = Path(repo) / "src" / "experimaestro" / fname
        src = path.read_text()
        tree = ast.parse(src)
        node = next((n for n in ast.walk(tree) if isinstance(n, ast.AsyncFunctionDef) and n.name == fn), None)
        if node is None:
            return None
        lines = src.splitlines()
        found = {}
        for ln in range(node.lineno, node.end_lineno + 1):
            text = lines[ln - 1].strip()
            for name, pat in MARK_TEXT[fn]:
                if text == pat:
                    found.setdefault(name, []).append(ln)
        for name, _ in MARK_TEXT[fn]:
            want = 2 if name == "T" else 1
            if name == "T3" and not found.get(name):
                continue        # the pinned aio_start has no marker test under the lock
            if len(found.get(name, [])) != want:
                return None
        for name, lns in found.items():
            if name == "T":
                out[(fn, lns[0])] = "T1"
                out[(fn, lns[1])] = "T2"
            else:
                out[(fn, lns[0])] = name
        out[(fn, node.lineno, "first")] = min(n.lineno for n in node.body)
    return out


# ------------------------------------------------------------------ log -> events
def parse_log(text):
    rows = []
    for i, line in enumerate(text.splitlines()):
        parts = line.split()
        if not parts:
            continue
        if parts[0] in ("begin", "end", "early", "late"):
            rows.append(dict(i=i, who="P", kind=parts[0], tag=int(parts[1]), pid=int(parts[2]),
                             res=parts[3] if len(parts) > 3 else None))
        else:
            rows.append(dict(i=i, who=parts[0], run=int(parts[1]), kind=parts[2], rest=parts[3:]))
    return rows


READS = ("T1", "PID", "ADOPTWAIT", "T2", "WAIT")


def extract(rows, markers, slot_of, job_of_tag, runs):
    """rows: parsed log.  slot_of: sid -> scheduler slot.  job_of_tag: tag -> job index.
    runs: list of dict(sid, run, end_i) - end_i = log index after which that scheduler process did
          nothing more (its death, or the end of its experiment).
    Returns items (see search) or raises ValueError when the log cannot be interpreted."""
    items = []
    has_t3 = any(v == "T3" for v in markers.values())
    cos = {}            # (sid, run, tag) -> state
    order = []

    def co(sid, run, tag):
        k = (sid, run, tag)
        if k not in cos:
            cos[k] = dict(open=None, seen_lock=0, first=True, wpid_i=None, returned=False, items=[])
            order.append(k)
        return cos[k]

    def add(st, sid, job, label, lo_i, hi_i, **kw):
        st["items"].append(dict(kind="F", move=("GOn", job, label), lo_i=lo_i, hi_i=hi_i, optional=False, **kw))

    for r in rows:
        if r["who"] == "P":
            if r["kind"] in ("early", "late"):
                continue
            if r["tag"] not in job_of_tag:
                continue
            job = job_of_tag[r["tag"]]
            if r["kind"] == "begin":
                items.append(dict(kind="X", i=r["i"], job=job, ospid=r["pid"], what="begin"))
            else:
                items.append(dict(kind="X", i=r["i"], job=job, ospid=r["pid"], what="end", ok=(r["res"] == "ok")))
            continue
        if r["kind"] == "R" and r["rest"][0] == "aio_start":
            tag = r["rest"][1]
            if tag != "None" and int(tag) in job_of_tag:
                st = co(r["who"], r["run"], int(tag))
                ac = st.pop("abort_candidate", None)
                if ac is not None and r["rest"][-1] != "ret=DONE":
                    add(st, r["who"], job_of_tag[int(tag)], ("LAbort", slot_of[r["who"]]), ac[0], r["i"])
            continue
        if r["kind"] == "R" and r["rest"][0] == "aio_submit":
            tag = r["rest"][1]
            if tag != "None" and int(tag) in job_of_tag:
                co(r["who"], r["run"], int(tag))["returned"] = True
            continue
        if r["kind"] != "L":
            continue
        fn, ln, tag = r["rest"][0], int(r["rest"][1]), r["rest"][2]
        if tag == "None" or int(tag) not in job_of_tag:
            continue
        tag = int(tag)
        sid, run = r["who"], r["run"]
        kv = dict(x.split("=", 1) for x in r["rest"][3:] if "=" in x)
        st = co(sid, run, tag)
        s, job = slot_of[sid], job_of_tag[tag]
        mk = markers.get((fn, ln))
        o = st["open"]
        if o is not None and o["fn"] == fn:
            name = o["name"]
            if name == "T1":
                add(st, sid, job, ("LTest1", s), o["i"], r["i"])
            elif name == "PID":
                add(st, sid, job, ("LPid", s), o["i"], r["i"])
            elif name == "ADOPTWAIT":
                st["items"][-1 if st["items"][-1]["move"][2][0] == "LPid" else len(st["items"]) - 1]["adopt"] = o.get("pid")
                add(st, sid, job, ("LAdoptEnd", s), o["i"], r["i"])
            elif name == "T2":
                add(st, sid, job, ("LTest2", s), o["i"], r["i"])
            elif name == "LOCK1":
                add(st, sid, job, ("LSLock", s), o["i"], r["i"])
                if not has_t3:
                    # no test under the lock in this tree: the model's (repaired) test is placed right behind the lock
                    add(st, sid, job, ("LTest3", s), o["i"], r["i"])
            elif name == "T3":
                add(st, sid, job, ("LTest3", s), o["i"], r["i"])
            elif name == "LOCK2":
                if st.get("prepared"):
                    add(st, sid, job, ("LSUnlock", s), o["i"], r["i"])
                else:
                    # leaving the lock without having prepared anything: the start was aborted (token not available) -
                    # or the marker was found under the lock (aio_start returns DONE): decided when aio_start returns
                    st["abort_candidate"] = (o["i"], r["i"])
            elif name == "PREPARE":
                st["prepared"] = True
                add(st, sid, job, ("LTrunc", s), o["i"], r["i"])
                add(st, sid, job, ("LWrite", s), o["i"], r["i"])
            elif name == "SPAWN":
                add(st, sid, job, ("LSpawn", s), o["i"], r["i"], ospid=int(kv["pid"]) if "pid" in kv else None)
            elif name == "WAIT":
                add(st, sid, job, ("LWaitEnd", s), o["i"], r["i"], code=kv.get("code"))
            st["open"] = None
        if st["first"]:
            st["first"] = False
            add(st, sid, job, ("LSubmit", s), r["i"], r["i"])
        if mk is None:
            continue
        if mk == "START":
            add(st, sid, job, ("LReady", s), r["i"], r["i"])
            st["seen_lock"] = 0
            st["prepared"] = False
        elif mk == "LOCK":
            st["seen_lock"] += 1
            st["open"] = dict(name="LOCK1" if st["seen_lock"] == 1 else "LOCK2", fn=fn, i=r["i"])
        elif mk == "WPID":
            if st["wpid_i"] is None:
                st["wpid_i"] = r["i"]
        elif mk == "RUNSET":
            lo = st["wpid_i"] if st["wpid_i"] is not None else r["i"]
            add(st, sid, job, ("LCreatePid", s), lo, r["i"])
            add(st, sid, job, ("LWritePid", s), lo, r["i"])
            st["wpid_i"] = None
        elif mk == "ADOPTWAIT":
            st["open"] = dict(name=mk, fn=fn, i=r["i"], pid=int(kv["pid"]) if "pid" in kv else None)
        else:
            st["open"] = dict(name=mk, fn=fn, i=r["i"])
    # ends of scheduler runs: effects in progress become optional; unfinished runs die
    ends = {(x["sid"], x["run"]): x for x in runs}
    unfinished = {}
    for (sid, run, tag) in order:
        st = cos[(sid, run, tag)]
        s, job = slot_of[sid], job_of_tag[tag]
        e = ends.get((sid, run))
        if e is None:
            raise ValueError(f"no end known for run {sid}/{run}")
        if not st["returned"]:
            unfinished.setdefault((sid, run), []).append((s, run, job))
            o = st["open"]
            opt = []
            if o is not None:
                if o["name"] == "LOCK1":
                    opt = [("LSLock", s)]
                elif o["name"] == "T3":
                    opt = []
                elif o["name"] == "PREPARE":
                    opt = [("LTrunc", s), ("LWrite", s)]
                elif o["name"] == "SPAWN":
                    opt = [("LSpawn", s)]
                elif o["name"] == "LOCK2":
                    opt = [("LSUnlock", s)] if st.get("prepared") else []
            if st["wpid_i"] is not None:
                opt = [("LCreatePid", s), ("LWritePid", s)]
                o = dict(i=st["wpid_i"])
            for l in opt:
                st["items"].append(dict(kind="F", move=("GOn", job, l), lo_i=o["i"], hi_i=e["dead_i"], optional=True,
                                        ospid=None))
        for it in st["items"]:
            it["co"] = (s, run, job)
            items.append(it)
    for (sid, run), colist in unfinished.items():
        e = ends[(sid, run)]
        items.append(dict(kind="F", move=("GDie", slot_of[sid]), lo_i=e["last_i"], hi_i=e["dead_i"], optional=False,
                          co=(slot_of[sid], run, "die"), after=colist))
    return items


def index_items(items):
    """order exact events by log index; translate lo_i/hi_i of the fuzzy ones into counts of exact
    events (an effect completed at log index h happened before every exact event logged after h)"""
    exact = sorted((it for it in items if it["kind"] == "X"), key=lambda it: it["i"])
    xi = [it["i"] for it in exact]
    cos = {}
    for it in items:
        if it["kind"] == "F":
            it["lo"] = sum(1 for x in xi if x < it["lo_i"])
            it["hi"] = sum(1 for x in xi if x < it["hi_i"])
            if it["hi"] < it["lo"]:
                it["hi"] = it["lo"]
            cos.setdefault(it["co"], []).append(it)
    return exact, cos


# ------------------------------------------------------------------ search for a linearisation
def search(init_jobs, deps, exact, cos, final, limit=200000):
    """init_jobs: list of (done, failed).  final: dict(done=[..], failed=[..], pid=[..bool],
    views={(slot, job): 'VDone'|'VError'}).  Returns (witness, None) or (None, reason).
    witness: list of ('X'|'F'|'H', move, lo, hi)"""
    import sys
    sys.setrecursionlimit(20000)
    g0 = G([JD(d, f, "SEmpty") for d, f in init_jobs], deps)
    conames = sorted(cos, key=lambda c: (c[0], c[1], str(c[2])))
    seen = set()
    budget = [limit]
    best = [0, None]

    def final_ok(g):
        for j, st in enumerate(g.jobs):
            if any(alive(c) for c in st.procs.values()):
                return False
            if st.done != final["done"][j] or st.failed != final["failed"][j]:
                return False
            if (0 if st.pidf is None else 1 if st.pidf == "empty" else 2) != final["pid"][j]:
                return False
        for (slot, job), v in final["views"].items():
            if g.jobs[job].sched(slot) != ("SFinal", v):
                return False
        return True

    def dfs(k, ptr, g, pidmap, unknown_used, trail):
        key = (k, ptr, g.key(), pidmap)
        if key in seen:
            return None
        seen.add(key)
        budget[0] -= 1
        if budget[0] <= 0:
            return None
        prog = k + sum(ptr)
        if prog > best[0]:
            best[0], best[1] = prog, (k, ptr)
        all_f = all(ptr[ci] >= len(cos[c]) for ci, c in enumerate(conames))
        if k == len(exact) and all_f:
            if final_ok(g):
                return trail
        # (a) a scheduler effect inside its interval
        for ci, c in enumerate(conames):
            if ptr[ci] >= len(cos[c]):
                continue
            it = cos[c][ptr[ci]]
            if not (it["lo"] <= k):
                continue
            if it.get("after") and not all(ptr[conames.index(a)] >= len(cos[a]) for a in it["after"] if a in cos):
                continue
            nptr = ptr[:ci] + (ptr[ci] + 1,) + ptr[ci + 1:]
            if it["move"][0] == "GDie":
                if k <= it["hi"]:
                    g2 = gexec(it["move"], g)
                    r = dfs(k, nptr, g2, pidmap, unknown_used, trail + (("F", it["move"], it["lo"], it["hi"]),))
                    if r is not None:
                        return r
                continue
            if k <= it["hi"]:
                g2 = gexec(it["move"], g)
                if g2 is not None:
                    pm = pidmap
                    ok = True
                    lab = it["move"][2]
                    job = it["move"][1]
                    if lab[0] == "LSpawn":
                        newp = g.jobs[job].nprocs
                        pm = pidmap + ((job, it.get("ospid"), newp),)
                    if lab[0] == "LPid":
                        pc = g2.jobs[job].sched(lab[1])
                        if "adopt" in it:
                            want = next((mp for (jj, op, mp) in pidmap if jj == job and op == it["adopt"]), None)
                            ok = pc[0] == "SAdopt" and (it["adopt"] is None or want is None or pc[1] == want)
                        else:
                            ok = pc[0] != "SAdopt"
                    if lab[0] == "LWaitEnd" and it.get("code") not in (None, "None"):
                        pc = g2.jobs[job].sched(lab[1])
                        ok = (pc == ("SFinal", "VDone")) == (it["code"] == "0")
                    if ok:
                        r = dfs(k, nptr, g2, pm, unknown_used, trail + (("F", it["move"], it["lo"], it["hi"]),))
                        if r is not None:
                            return r
            if it["optional"]:
                # the effect did not happen: neither do the later ones of this coroutine
                sk = ptr[:ci] + (len(cos[c]),) + ptr[ci + 1:]
                r = dfs(k, sk, g, pidmap, unknown_used, trail)
                if r is not None:
                    return r
        # (b) the next exact event
        if k < len(exact):
            blocked = False
            for ci, c in enumerate(conames):
                if ptr[ci] < len(cos[c]):
                    it = cos[c][ptr[ci]]
                    if it["hi"] <= k and not it["optional"]:
                        blocked = True
            if not blocked:
                x = exact[k]
                if True:
                    cands = [mp for (jj, op, mp) in pidmap if jj == x["job"] and op == x["ospid"]]
                    if not cands:
                        # a process whose creation was not logged (its scheduler died right after Popen)
                        cands = [mp for (jj, op, mp) in pidmap if jj == x["job"] and op is None]
                    for mp in cands:
                        lab = ("LBegin", mp) if x["what"] == "begin" else ("LEnd", mp, x["ok"])
                        mv = ("GOn", x["job"], lab)
                        g2 = gexec(mv, g)
                        if g2 is not None:
                            pm = tuple((jj, (x["ospid"] if (jj == x["job"] and mp2 == mp and op is None) else op), mp2)
                                       for (jj, op, mp2) in pidmap)
                            r = dfs(k + 1, ptr, g2, pm, unknown_used, trail + (("X", mv, 0, 0),))
                            if r is not None:
                                return r
        # (c) a hidden effect of a job process
        for j, st in enumerate(g.jobs):
            for lab in hidden_moves(st):
                mv = ("GOn", j, lab)
                g2 = gexec(mv, g)
                if g2 is not None:
                    r = dfs(k, ptr, g2, pidmap, unknown_used, trail + (("H", mv, 0, 0),))
                    if r is not None:
                        return r
        return None

    w = dfs(0, tuple(0 for _ in conames), g0, (), False, ())
    if w is None:
        why = "search budget exhausted" if budget[0] <= 0 else "no linearisation accepted by the model"
        return None, dict(reason=why, progress=best[1], explored=len(seen))
    return list(w), None


# ------------------------------------------------------------------ Gallina rendering
def g_label(l):
    k = l[0]
    if k in ("LEnd", "LTouch"):
        return f"({k} {l[1]} {'true' if l[2] else 'false'})"
    return f"({k} {l[1]})"


def g_move(m):
    if m[0] == "GDie":
        return f"(GDie {m[1]})"
    return f"(GOn {m[1]} {g_label(m[2])})"


def g_witness(w):
    out = []
    for kind, mv, lo, hi in w:
        if kind == "X":
            out.append(f"WX {g_move(mv)}")
        elif kind == "F":
            out.append(f"WF {g_move(mv)} {lo} {hi}")
        else:
            out.append(f"WH {g_move(mv)}")
    return "[" + "; ".join(out) + "]"


def naive_witness(exact, cos):
    """when the search finds nothing: the observed events in log order, no hidden effect
    (the model will reject it; the case is reported as a disagreement)"""
    allit = []
    for c, its in cos.items():
        for it in its:
            if not it["optional"]:
                allit.append((it["hi_i"], 1, ("F", it["move"], it["lo"], it["hi"])))
    return [x[2] for x in sorted(allit, key=lambda t: (t[0], t[1]))]
