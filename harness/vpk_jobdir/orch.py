"""Scenario orchestration for the C05 / C11 harness: starts real experiment driver processes
(vpk_jobdir/xpdriver.py) on a shared workspace, kills them at chosen moments, controls the latch
files of the task bodies, and collects the shared event log, the result files and the final
contents of the job directories.  No experimaestro import here.

scenario = {
  id, kind: one|chain2|indep2, tags: [..],
  pre: {tag: {done: bool, failed: bool, stalepid: bool}}      (optional: markers made by hand)
  files: {name: content}                                      (control files created at the start)
  runs: [ {sid, slot, run, xpname, trace, kill: {n, sig, funcs} | null, maxwait} ],
  script: [ {when: COND, do: ACTION} ... ]                    (each fires once)
  timeout: seconds
}
COND  = {"t": secs} | {"phase": [sid, run, name]} | {"log": regex} | {"dead": [sid, run]} |
        {"all": [COND..]} | {"any": [COND..]} | {"after": [index of an earlier script entry, delay]}
ACTION= {"start": [sid, run]} | {"kill": [sid, run, sig]} | {"touch": name} | {"rm": name} |
        {"write": [name, content]}
"""
import json
import os
import re
import signal
import subprocess
import sys
import time
from pathlib import Path

PY = "/venv/bin/python"
HERE = Path(__file__).resolve().parent
SIGS = {"KILL": signal.SIGKILL, "TERM": signal.SIGTERM, "INT": signal.SIGINT}


def pid_alive(pid):
    try:
        os.kill(pid, 0)
    except ProcessLookupError:
        return False
    except PermissionError:
        return True
    # a zombie child of somebody else still answers; look at its state
    try:
        with open(f"/proc/{pid}/stat") as f:
            return f.read().rsplit(")", 1)[1].split()[0] != "Z"
    except OSError:
        return False


def job_dirs(ws):
    out = {}
    jobs = Path(ws) / "jobs"
    if not jobs.is_dir():
        return out
    for d in jobs.glob("*/*"):
        pj = d / "params.json"
        if not pj.is_file():
            continue
        try:
            tag = json.loads(pj.read_text())["objects"][-1]["fields"]["tag"]
        except Exception:
            continue
        out[int(tag)] = d
    return out


def snapshot(ws, tags, known=None):
    dirs = job_dirs(ws)
    for t, d in (known or {}).items():
        if Path(d).is_dir():
            dirs.setdefault(int(t), Path(d))
    snap = {}
    for t in tags:
        d = dirs.get(t)
        if d is None:
            snap[str(t)] = dict(dir=None, done=False, failed=False, pid=False)
            continue
        names = [p.name for p in d.iterdir() if p.exists()]      # a dangling alias is not a file
        pidf = next((d / n for n in names if n.endswith(".pid")), None)
        pidv = None
        if pidf is not None:
            try:
                pidv = json.loads(pidf.read_text()).get("pid")
            except Exception:
                pidv = "unreadable"
        failedf = next((d / n for n in names if n.endswith(".failed")), None)
        outf = next((d / n for n in names if n.endswith(".out")), None)
        try:
            outtext = outf.read_text()[:300] if outf is not None else None
        except OSError:
            outtext = None
        snap[str(t)] = dict(dir=str(d), done=any(n.endswith(".done") for n in names),
                            failed=failedf is not None, pid=pidf is not None, pidvalue=pidv, out=outtext,
                            failedcode=(failedf.read_text()[:20] if failedf is not None else None))
    return snap


def run_scenario(sc, base, repo, harness):
    wd = Path(base) / sc["id"]
    ctl, ws = wd / "ctl", wd / "ws"
    ctl.mkdir(parents=True, exist_ok=True)
    ws.mkdir(parents=True, exist_ok=True)
    (ctl / "events.log").touch()
    env = dict(os.environ)
    (wd / "mod").mkdir(exist_ok=True)
    pythonpath = f"{repo}/src:{harness}:{wd / 'mod'}"
    env.update(PYTHONPATH=pythonpath, PYTHONHASHSEED="0", PYTHONDONTWRITEBYTECODE="1",
               EXPERIMAESTRO_PYTHON_VERIF="1", XPM_WORKDIR=str(wd / "xpmhome"), HOME=str(wd / "home"))
    (wd / "home").mkdir(exist_ok=True)
    for name, content in (sc.get("files") or {}).items():
        (ctl / name).write_text(content)
    out = dict(id=sc["id"], problems=[])
    t_start = time.time()

    def spec_of(r):
        return dict(workdir=str(ws), xpname=r["xpname"], ctl=str(ctl), sid=r["sid"], run=r["run"],
                    result=str(wd / f"res.{r['sid']}.{r['run']}.json"),
                    workload=r.get("workload") or dict(kind=sc["kind"], tags=sc["tags"]),
                    trace=r.get("trace", True), kill=r.get("kill"), barrier=r.get("barrier"), post_delay=r.get("post_delay"), pause=r.get("pause"), pause_at=r.get("pause_at"), freeze=r.get("freeze"), trace_write=r.get("trace_write"), trace_process=r.get("trace_process"), debuglog=(str(wd / f"debug.{r['sid']}.{r['run']}.log") if r.get("debug") else None), maxlife=sc.get("timeout", 60) + 10,
                    maxwait=r.get("maxwait", sc.get("timeout", 60)), pythonpath=pythonpath)

    def launch(r, wait=False):
        sp = wd / f"spec.{r['sid']}.{r['run']}.json"
        sp.write_text(json.dumps(spec_of(r)))
        errf = open(wd / f"err.{r['sid']}.{r['run']}.txt", "w")
        renv = env if r.get("hashseed") is None else dict(env, PYTHONHASHSEED=str(r["hashseed"]))
        p = subprocess.Popen([PY, "-W", "ignore", str(HERE / "xpdriver.py"), str(sp)], env=renv, cwd=str(wd),
                             stdout=errf, stderr=errf, start_new_session=True)
        return p

    # hand-made markers (C05 b): ask a dry run where the job directories are
    if sc.get("pre"):
        r = dict(sid="D", run=0, xpname="dry", workload=dict(kind="paths", tags=sc["tags"]), trace=False)
        p = launch(r)
        try:
            p.wait(60)
        except subprocess.TimeoutExpired:
            p.kill()
            out["problems"].append("dry run timed out")
        try:
            info = json.loads((wd / "res.D.0.json").read_text())["jobs"]
        except Exception as e:  # noqa
            info = []
            out["problems"].append(f"dry run gave no paths: {e}")
        for j in info:
            pre = sc["pre"].get(str(j["tag"]))
            if not pre:
                continue
            Path(j["path"]).mkdir(parents=True, exist_ok=True)
            if pre.get("done"):
                Path(j["done"]).touch()
            if pre.get("failed"):
                Path(j["failed"]).write_text("1")
            if pre.get("stalepid"):
                # the pid of a process that is gone
                q = subprocess.Popen(["/bin/true"])
                q.wait()
                Path(j["pid"]).write_text(json.dumps({"type": "local", "pid": q.pid}))
                j["stalepid"] = q.pid
        out["pre_paths"] = info

    runs = {(r["sid"], r["run"]): r for r in sc["runs"]}
    procs = {}
    fired = {}
    deadline = t_start + sc.get("timeout", 60)
    logpath = ctl / "events.log"

    def log_text():
        try:
            return logpath.read_text()
        except OSError:
            return ""

    def cond(c, now, text):
        if "t" in c:
            return now - t_start >= c["t"]
        if "phase" in c:
            sid, run, name = c["phase"]
            return (ctl / f"phase.{sid}.{run}.{name}").exists()
        if "log" in c:
            return re.search(c["log"], text, re.M) is not None
        if "dead" in c:
            k = tuple(c["dead"])
            return k in procs and procs[k].poll() is not None
        if "all" in c:
            return all(cond(x, now, text) for x in c["all"])
        if "any" in c:
            return any(cond(x, now, text) for x in c["any"])
        if "after" in c:
            idx, delay = c["after"]
            return idx in fired and now - fired[idx] >= delay
        raise ValueError(c)

    def act(a):
        if "start" in a:
            k = tuple(a["start"])
            procs[k] = launch(runs[k])
        elif "kill" in a:
            sid, run, sig = a["kill"]
            p = procs.get((sid, run))
            if p is not None and p.poll() is None:
                # record where the log stood when the signal left
                with open(logpath, "ab") as f:
                    f.write(f"{sid} {run} EXTKILL {sig}\n".encode())
                try:
                    if sig.startswith("G"):
                        # as a terminal does (Ctrl-C, hang-up): the signal goes to the whole process group of the
                        # experiment (the driver is started in its own session, so it leads its group)
                        os.killpg(p.pid, getattr(signal, "SIG" + sig[1:]))
                    else:
                        os.kill(p.pid, SIGS[sig])
                except ProcessLookupError:
                    pass
        elif "touch" in a:
            (ctl / a["touch"]).touch()
        elif "rm" in a:
            try:
                (ctl / a["rm"]).unlink()
            except FileNotFoundError:
                pass
        elif "write" in a:
            (ctl / a["write"][0]).write_text(a["write"][1])
        elif "write_module" in a:
            name, src = a["write_module"]
            (wd / "mod" / f"{name}.py").write_text(src)
        elif "fix_deprecated" in a:
            # what `experimaestro deprecated list --fix` does
            code = ("import sys, logging; logging.disable(logging.CRITICAL); from pathlib import Path; "
                    "from experimaestro.tools.jobs import fix_deprecated; fix_deprecated(Path(sys.argv[1]), True, False)")
            rr = subprocess.run([PY, "-W", "ignore", "-c", code, str(ws)], env=env, cwd=str(wd), capture_output=True, text=True, timeout=60)
            with open(logpath, "ab") as f:
                f.write(f"FIX 0 fixed rc={rr.returncode}\n".encode())
            if rr.returncode != 0:
                out["problems"].append("fix_deprecated failed: " + rr.stderr[-300:])
        elif "silent_server" in a:
            # a TCP port that accepts connections (kernel backlog) and never answers
            import socket
            sk = socket.socket(socket.AF_INET, socket.SOCK_STREAM)
            sk.bind(("127.0.0.1", 0))
            sk.listen(16)
            servers[a["silent_server"]] = sk
            (ctl / a["silent_server"]).write_text(f"http://127.0.0.1:{sk.getsockname()[1]}/notify")
        elif "close_server" in a:
            sk = servers.pop(a["close_server"], None)
            if sk is not None:
                sk.close()
        elif "signal_log" in a:
            # send a signal to every process whose pid matches group 1 of the pattern in the log
            pat, sig = a["signal_log"]
            for m in re.finditer(pat, log_text(), re.M):
                try:
                    os.kill(int(m.group(1)), getattr(signal, "SIG" + sig))
                except OSError:
                    pass

    script = sc["script"]
    timed_out = False
    servers = {}
    lock_inodes = {}        # lock file -> inode when first seen: the file that carries the run lock must stay the same
    lock_changes = []

    def watch_locks():
        for lf in (ws / "jobs").glob("*/*/*.lock"):
            try:
                ino = lf.stat().st_ino
            except OSError:
                continue
            k = str(lf.relative_to(ws))
            if k not in lock_inodes:
                lock_inodes[k] = ino
            elif lock_inodes[k] != ino and (k, "replaced") not in lock_changes:
                lock_changes.append((k, "replaced"))
        for k in lock_inodes:
            if not (ws / k).exists() and (k, "removed") not in lock_changes:
                lock_changes.append((k, "removed"))

    while True:
        now = time.time()
        text = log_text()
        watch_locks()
        for i, e in enumerate(script):
            if i not in fired and cond(e["when"], now, text):
                act(e["do"])
                fired[i] = now
        all_fired = all(i in fired or e.get("optional") for i, e in enumerate(script))
        all_dead = all(p.poll() is not None for p in procs.values())
        if all_fired and all_dead:
            break
        if now > deadline:
            timed_out = True
            break
        time.sleep(0.01)
    out["timed_out"] = timed_out
    try:
        out["quiet_s"] = round(time.time() - logpath.stat().st_mtime, 2)
    except OSError:
        out["quiet_s"] = None
    out["alive_at_end"] = [f"{k[0]}.{k[1]}" for k, p in procs.items() if p.poll() is None]
    _t = log_text()
    out["jobs_alive_at_end"] = [x for x in sorted({int(m.group(1)) for m in re.finditer(r"^begin \d+ (\d+)", _t, re.M)} |
                                                  {int(m.group(1)) for m in re.finditer(r"pid=(\d+)", _t)}) if pid_alive(x)]
    out["latch_open"] = (ctl / "latch.all").exists()
    out["unfired"] = [i for i, e in enumerate(script) if i not in fired and not e.get("optional")]
    for sk in servers.values():
        sk.close()
    servers.clear()
    watch_locks()
    out["lock_changes"] = lock_changes
    # let everything that is still there finish, then make sure nothing survives the scenario
    (ctl / "latch.all").touch()
    text = log_text()
    for m in re.finditer(r"FROZEN (\d+)", text):
        try:
            os.kill(int(m.group(1)), signal.SIGCONT)
        except OSError:
            pass
    jobpids = sorted({int(m.group(1)) for m in re.finditer(r"^begin \d+ (\d+)", text, re.M)} |
                     {int(m.group(1)) for m in re.finditer(r"pid=(\d+)", text)})
    t1 = time.time()
    while time.time() - t1 < 20 and (any(p.poll() is None for p in procs.values()) or any(pid_alive(x) for x in jobpids)):
        time.sleep(0.02)
        if timed_out:
            break
    survivors = [x for x in jobpids if pid_alive(x)]
    # orphans whose pid was never logged: look for job scripts of this workspace
    try:
        ps = subprocess.run(["pgrep", "-f", str(ws)], capture_output=True, text=True, timeout=10).stdout.split()
        survivors += [int(x) for x in ps if int(x) != os.getpid()]
    except Exception:
        pass
    t1 = time.time()
    while survivors and time.time() - t1 < 10 and not timed_out:
        time.sleep(0.05)
        survivors = [x for x in survivors if pid_alive(x)]
    out["leftover"] = sorted(set(survivors))
    for p in procs.values():
        if p.poll() is None:
            try:
                os.killpg(p.pid, signal.SIGKILL)
            except Exception:
                pass
    for x in set(survivors):
        try:
            os.kill(x, signal.SIGKILL)
        except Exception:
            pass
    out["log"] = log_text()
    out["exit"] = {f"{k[0]}.{k[1]}": p.poll() for k, p in procs.items()}
    out["results"] = {}
    for k in procs:
        f = wd / f"res.{k[0]}.{k[1]}.json"
        if f.exists():
            try:
                out["results"][f"{k[0]}.{k[1]}"] = json.loads(f.read_text())
            except Exception:
                out["results"][f"{k[0]}.{k[1]}"] = None
        else:
            out["results"][f"{k[0]}.{k[1]}"] = None
    out["snapshot"] = snapshot(ws, sc["tags"], {j["tag"]: j["path"] for j in out.get("pre_paths", [])})
    out["token_files"] = sorted(str(p.relative_to(wd)) for p in (wd / "xpmhome").glob("tokens/*/*.token"))
    out["stderr"] = {}
    for k in procs:
        f = wd / f"err.{k[0]}.{k[1]}.txt"
        if f.exists():
            out["stderr"][f"{k[0]}.{k[1]}"] = f.read_text()[-600:]
    out["wall"] = round(time.time() - t_start, 2)
    return out


def run_all(scenarios, base, repo, harness, workers=6, deadline=None):
    """outcomes in the order of the scenarios; None for a scenario that was not started because the
    time budget of the tier was used up"""
    from concurrent.futures import ThreadPoolExecutor
    import shutil

    def one(sc):
        if deadline is not None and time.time() > deadline:
            return None
        try:
            o = run_scenario(sc, base, repo, harness)
        except Exception as e:  # noqa
            import traceback
            o = dict(id=sc["id"], problems=["orchestrator: " + traceback.format_exc()[-800:]], timed_out=False, unfired=[],
                     leftover=[], log="", exit={}, results={}, snapshot={}, stderr={}, wall=0, quiet_s=None, alive_at_end=[])
        shutil.rmtree(Path(base) / sc["id"], ignore_errors=True)
        return o

    with ThreadPoolExecutor(max_workers=workers) as ex:
        return list(ex.map(one, scenarios))
