"""Tiny real tasks whose body logs begin/end lines (one O_APPEND write each) and
waits for a latch file, so that the harness decides when a body finishes.

Every path used by the body is a Meta parameter: it does not enter the identifier, so the
same configuration submitted from different experiments / processes is the same job."""
import os
import time
from pathlib import Path

from experimaestro import Config, LightweightTask, Meta, Param, Task


def _append(path, line):
    fd = os.open(str(path), os.O_WRONLY | os.O_APPEND | os.O_CREAT, 0o644)
    try:
        os.write(fd, (line + "\n").encode())
    finally:
        os.close(fd)


def _body(tag, ctl: Path, maxwait: float):
    """begin line; wait for ctl/latch.<tag> (or ctl/latch.all); fail if ctl/fail.<tag> exists; end line"""
    log = ctl / f"body.{tag}.log"
    pid = os.getpid()
    _append(log, f"begin {pid}")
    _append(ctl / "events.log", f"begin {tag} {pid}")
    # what the body prints is part of the results of the job (<name>.out)
    print(f"output of {tag} {pid}", flush=True)  # noqa: T201
    t0 = time.time()
    while not ((ctl / f"latch.{tag}").exists() or (ctl / "latch.all").exists()):
        if time.time() - t0 > maxwait:
            _append(log, f"end {pid} timeout")
            _append(ctl / "events.log", f"end {tag} {pid} timeout")
            raise SystemExit(7)
        time.sleep(0.01)
    hold = ctl / f"hold.{tag}"
    if hold.exists():
        try:
            time.sleep(float(hold.read_text() or "0"))
        except ValueError:
            pass
    if (ctl / f"fail.{tag}").exists():
        # consume one failure token (a job may be asked to fail n times)
        try:
            n = int((ctl / f"fail.{tag}").read_text() or "1")
        except ValueError:
            n = 1
        if n > 0:
            (ctl / f"fail.{tag}").write_text(str(n - 1))
            _append(log, f"end {pid} fail")
            _append(ctl / "events.log", f"end {tag} {pid} fail")
            raise RuntimeError("asked to fail")
    # a notification URL that accepts connections and never answers (the end-of-job report then hangs)
    silent = ctl / "silent_url"
    if silent.exists():
        try:
            d = Path.cwd() / ".notifications"
            d.mkdir(exist_ok=True)
            (d / "vsilent").write_text(silent.read_text().strip())
        except OSError:
            pass
    # the process goes on working after its body has returned (non-daemon thread): it logs "late" at the very end
    linger = ctl / f"linger.{tag}"
    if linger.exists():
        import threading
        secs = float(linger.read_text() or "0")

        def late():
            # until the harness says so (ctl/unlinger.<tag>), at most `secs` seconds
            t1 = time.time()
            while not (ctl / f"unlinger.{tag}").exists() and time.time() - t1 < secs:
                time.sleep(0.01)
            _append(ctl / "events.log", f"late {tag} {pid}")
        threading.Thread(target=late, daemon=False).start()
    _append(log, f"end {pid} ok")
    _append(ctl / "events.log", f"end {tag} {pid} ok")
    if (ctl / f"exit0.{tag}").exists() or (ctl / "exit0.all").exists():
        # a body that leaves through sys.exit(0) (a wrapped command line entry point) instead of returning
        raise SystemExit(0)


class Latched(Task):
    """identifier = tag (and salt); ctl directory and time-out are Meta"""
    tag: Param[int]
    salt: Param[int] = 0
    ctl: Meta[Path]
    maxwait: Meta[float] = 60.0

    def execute(self):
        _body(self.tag, self.ctl, self.maxwait)


class LatchedAfter(Task):
    """second element of a chain: depends on a Latched job"""
    tag: Param[int]
    dep: Param[Latched]
    ctl: Meta[Path]
    maxwait: Meta[float] = 60.0

    def execute(self):
        # the dependency must have finished successfully before this body starts
        deplog = self.ctl / f"body.{self.dep.tag}.log"
        ok = deplog.exists() and any(l.startswith("end") and l.endswith(" ok") for l in deplog.read_text().splitlines())
        if not ok:
            _append(self.ctl / "events.log", f"early {self.tag} {os.getpid()}")
        _body(self.tag, self.ctl, self.maxwait)


class Counted(Task):
    """no latch: appends one line to a counter file and finishes"""
    tag: Param[int]
    ctl: Meta[Path]

    def execute(self):
        _append(self.ctl / f"count.{self.tag}", f"run {os.getpid()}")


class OutCfg(Config):
    """the output configuration of SlowOut"""
    pass


class SlowOut(Task):
    """a task whose (user-defined) task_outputs takes `delay` seconds: the window in which the job is registered and
    its output not yet known"""
    tag: Param[int]
    delay: Meta[float] = 0.6
    ctl: Meta[Path]

    def task_outputs(self, dep):
        time.sleep(self.delay)
        return dep(OutCfg())

    def execute(self):
        _append(self.ctl / "events.log", f"begin {self.tag} {os.getpid()}")
        _append(self.ctl / "events.log", f"end {self.tag} {os.getpid()} ok")


class PreT(LightweightTask):
    """a pre-task (executed in the job process before the body)"""
    v: Param[int]

    def execute(self):
        pass
