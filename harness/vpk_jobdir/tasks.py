"""Tiny real tasks whose body logs begin/end lines (one O_APPEND write each) and
waits for a latch file, so that the harness decides when a body finishes.

Every path used by the body is a Meta parameter: it does not enter the identifier, so the
same configuration submitted from different experiments / processes is the same job."""
import os
import time
from pathlib import Path

from experimaestro import Meta, Param, Task


def _append(path, line):
    fd = os.open(str(path), os.O_WRONLY | os.O_APPEND | os.O_CREAT, 0o644)
    try:
        os.write(fd, (line + "\n").encode())
    finally:
        os.close(fd)


def _body(tag, ctl: Path, maxwait: float):
    """begin line; wait for ctl/latch.<tag> (or ctl/latch.all); fail if ctl/fail.<tag> exists; end line"""
    log = ctl / f"body.{tag}.log"
    pid = os.getpid()
    _append(log, f"begin {pid}")
    _append(ctl / "events.log", f"begin {tag} {pid}")
    t0 = time.time()
    while not ((ctl / f"latch.{tag}").exists() or (ctl / "latch.all").exists()):
        if time.time() - t0 > maxwait:
            _append(log, f"end {pid} timeout")
            _append(ctl / "events.log", f"end {tag} {pid} timeout")
            raise SystemExit(7)
        time.sleep(0.01)
    if (ctl / f"fail.{tag}").exists():
        # consume one failure token (a job may be asked to fail n times)
        try:
            n = int((ctl / f"fail.{tag}").read_text() or "1")
        except ValueError:
            n = 1
        if n > 0:
            (ctl / f"fail.{tag}").write_text(str(n - 1))
            _append(log, f"end {pid} fail")
            _append(ctl / "events.log", f"end {tag} {pid} fail")
            raise RuntimeError("asked to fail")
    hold = ctl / f"hold.{tag}"
    if hold.exists():
        try:
            time.sleep(float(hold.read_text() or "0"))
        except ValueError:
            pass
    _append(log, f"end {pid} ok")
    _append(ctl / "events.log", f"end {tag} {pid} ok")


class Latched(Task):
    """identifier = tag (and salt); ctl directory and time-out are Meta"""
    tag: Param[int]
    salt: Param[int] = 0
    ctl: Meta[Path]
    maxwait: Meta[float] = 60.0

    def execute(self):
        _body(self.tag, self.ctl, self.maxwait)


class LatchedAfter(Task):
    """second element of a chain: depends on a Latched job"""
    tag: Param[int]
    dep: Param[Latched]
    ctl: Meta[Path]
    maxwait: Meta[float] = 60.0

    def execute(self):
        # the dependency must have finished successfully before this body starts
        deplog = self.ctl / f"body.{self.dep.tag}.log"
        ok = deplog.exists() and any(l.startswith("end") and l.endswith(" ok") for l in deplog.read_text().splitlines())
        if not ok:
            _append(self.ctl / "events.log", f"early {self.tag} {os.getpid()}")
        _body(self.tag, self.ctl, self.maxwait)


class Counted(Task):
    """no latch: appends one line to a counter file and finishes"""
    tag: Param[int]
    ctl: Meta[Path]

    def execute(self):
        _append(self.ctl / f"count.{self.tag}", f"run {os.getpid()}")
