"""Importable task package of the C05 / C11 harness (job-directory protocol)."""
