"""Scenario generators, oracles and correspondence-case builders shared by check_c05.py / check_c11.py."""
import re

from vpk_jobdir import replay

KILLFUNCS = ["aio_start", "aio_run"]
KINDS = {"one": dict(tags=[1], deps={}), "chain2": dict(tags=[1, 2], deps={1: [0]}), "indep2": dict(tags=[1, 2], deps={}),
         "tok2": dict(tags=[1, 2], deps={}),     # tok2: two independent jobs sharing a counter token of total 1
         "tok1": dict(tags=[1], deps={})}        # tok1: one job that needs the only unit of a counter token


# ------------------------------------------------------------------ scenario builders
def sc_reference(kind):
    """an undisturbed traced run: gives the number of executed lines of aio_start/aio_run"""
    return dict(id=f"ref-{kind}", kind=kind, tags=KINDS[kind]["tags"], timeout=60, files={"latch.all": ""},
                runs=[dict(sid="S0", slot=0, run=0, xpname="x")],
                script=[dict(when={"t": 0}, do={"start": ["S0", 0]})], meta=dict(family="reference", kind=kind))


def sc_restart(ident, kind, kill, latch, sig, second_kill=None):
    """C11: run 0 of experiment x is killed (kill = {'line': n} | {'phase': name}), run 1 follows.
    latch: 'free' (bodies never wait), 'early' (released after the death, before the restart),
           'late' (released when the restarted experiment has submitted everything)"""
    tags = KINDS[kind]["tags"]
    runs = [dict(sid="S0", slot=0, run=0, xpname="x"), dict(sid="S0", slot=0, run=1, xpname="x")]
    script = [dict(when={"t": 0}, do={"start": ["S0", 0]})]
    files = {}
    if latch == "free":
        files["latch.all"] = ""
    if "line" in kill:
        runs[0]["kill"] = dict(n=kill["line"], sig=sig, funcs=KILLFUNCS)
        if kind == "chain2" and latch != "free":
            # the second job can only be started after the first one finished
            script.append(dict(when={"log": r"^begin 1 "}, do={"touch": "latch.1"}))
        # if the line is never reached because a body is waiting: let the bodies go after a while
        script.append(dict(when={"all": [{"t": 12}, {"phase": ["S0", 0, "submitted"]}]}, do={"touch": "latch.all"}, optional=True))
    else:
        ph = kill["phase"]
        if ph == "start":
            cond = {"phase": ["S0", 0, "start"]}
        elif ph == "entered":
            cond = {"phase": ["S0", 0, "entered"]}
        elif ph == "submitted":
            cond = {"phase": ["S0", 0, "submitted"]}
        elif ph.startswith("spawn:"):
            cond = {"log": rf"^S0 0 L aio_run \d+ {ph.split(':')[1]} pid="}
        elif ph.startswith("running:"):
            cond = {"log": rf"^begin {ph.split(':')[1]} "}
        elif ph.startswith("between:"):
            # between dependent jobs: the first body is let go, the scheduler dies when it has ended
            script.append(dict(when={"log": r"^begin 1 "}, do={"touch": "latch.1"}))
            cond = {"log": r"^end 1 \d+ ok"}
        else:
            raise ValueError(ph)
        idx = len(script)
        script.append(dict(when=cond, do={"kill": ["S0", 0, sig]}))
        # a process that ignores the signal for too long (SIGINT is only a request) is killed
        script.append(dict(when={"after": [idx, 6.0]}, do={"kill": ["S0", 0, "KILL"]}, optional=True))
    i_dead = len(script)
    if latch == "early":
        script.append(dict(when={"dead": ["S0", 0]}, do={"touch": "latch.all"}))
        script.append(dict(when={"after": [i_dead, 1.0]}, do={"start": ["S0", 1]}))
    else:
        script.append(dict(when={"dead": ["S0", 0]}, do={"start": ["S0", 1]}))
    if second_kill is not None:
        # the restarted experiment is killed as well, a third run follows
        runs[1]["kill"] = dict(n=second_kill, sig="KILL", funcs=KILLFUNCS + ["aio_submit"])
        runs.append(dict(sid="S0", slot=0, run=2, xpname="x"))
        script.append(dict(when={"dead": ["S0", 1]}, do={"start": ["S0", 2]}))
        script.append(dict(when={"phase": ["S0", 2, "submitted"]}, do={"touch": "latch.all"}))
        script.append(dict(when={"all": [{"t": 14}, {"phase": ["S0", 1, "submitted"]}]}, do={"touch": "latch.all"}, optional=True))
    else:
        script.append(dict(when={"phase": ["S0", 1, "submitted"]}, do={"touch": "latch.all"}))
    return dict(id=ident, kind=kind, tags=tags, timeout=40, files=files, runs=runs, script=script,
                meta=dict(family="restart", kind=kind, kill=kill, latch=latch, sig=sig, second_kill=second_kill))


def sc_frozen_orphan(ident, n_spawn, sig="KILL", wait=2.5):
    """C11: the scheduler dies right after Popen (n_spawn-th executed line of aio_start/aio_run: the process exists,
    no pid file names it) and the job process is frozen (SIGSTOP) before it could do anything.  The experiment is run
    again: it finds nothing, launches a second process, whose body begins.  Only then is the orphan thawed; it must
    queue behind the running body and, when it gets the lock, find the marker and not run the body."""
    runs = [dict(sid="S0", slot=0, run=0, xpname="x", kill=dict(n=n_spawn, sig=sig, funcs=KILLFUNCS, freeze_child=True)),
            dict(sid="S0", slot=0, run=1, xpname="x")]
    script = [dict(when={"t": 0}, do={"start": ["S0", 0]}),
              dict(when={"dead": ["S0", 0]}, do={"start": ["S0", 1]}),
              dict(when={"all": [{"log": r"^begin 1 "}, {"phase": ["S0", 1, "submitted"]}]},
                   do={"signal_log": [r"FROZEN (\d+)", "CONT"]})]
    script.append(dict(when={"after": [2, wait]}, do={"touch": "latch.all"}))
    script.append(dict(when={"t": 25}, do={"signal_log": [r"FROZEN (\d+)", "CONT"]}, optional=True))
    script.append(dict(when={"t": 27}, do={"touch": "latch.all"}, optional=True))
    return dict(id=ident, kind="one", tags=[1], timeout=45, files={}, runs=runs, script=script,
                meta=dict(family="restart", kind="one", kill={"line": n_spawn}, latch="late", sig=sig, second_kill=None,
                          frozen_orphan=True))


def sc_long_orphan(ident, kind, n, wait=7.0, sig="KILL"):
    """C11: the scheduler dies at its n-th executed line, chosen between Popen and the end of the writing of the pid
    file (no pid file, or an empty one): the job runs but cannot be adopted.  The experiment is run again and the job
    keeps running `wait` seconds after the second run has submitted everything: the second run must simply wait
    for it (the lock of the job is all that protects it), then report DONE and launch the dependents."""
    sc = sc_restart(ident, kind, {"line": n}, "late", sig)
    sc["script"] = [e for e in sc["script"] if not (e.get("optional") and e["do"] == {"touch": "latch.all"})]
    # replace the release of the latch (last entry: when the second run has submitted) by a delayed one
    sc["script"][-1] = dict(when={"phase": ["S0", 1, "submitted"]}, do={"write": ["noop", ""]})
    idx = len(sc["script"]) - 1
    sc["script"].append(dict(when={"after": [idx, wait]}, do={"touch": "latch.all"}))
    sc["timeout"] = 50
    sc["meta"]["long_orphan"] = wait
    return sc


def sc_toctou(ident, sig="KILL"):
    """C11: the job ends exactly while the restarted experiment looks for its process: the second run is held (line
    tracer) in CommandLineJob.aio_process after pidpath.is_file() answered True and before the file is read; the job is
    then let go, ends and removes its pid file; the second run resumes."""
    runs = [dict(sid="S0", slot=0, run=0, xpname="x"),
            dict(sid="S0", slot=0, run=1, xpname="x", trace_process=True,
                 pause_at=dict(func="aio_process", startswith="pinfo = json.loads(", until="go"))]
    script = [dict(when={"t": 0}, do={"start": ["S0", 0]}),
              dict(when={"log": r"^begin 1 "}, do={"kill": ["S0", 0, sig]}),
              dict(when={"dead": ["S0", 0]}, do={"start": ["S0", 1]}),
              dict(when={"log": r"^S0 1 PAUSE aio_process "}, do={"touch": "latch.all"}),
              dict(when={"all": [{"log": r"^S0 1 PAUSE aio_process "}, {"log": r"^end 1 \d+ ok"}]}, do={"write": ["noop", ""]}),
              dict(when={"after": [4, 1.5]}, do={"touch": "go"}),
              dict(when={"t": 30}, do={"touch": "go"}, optional=True)]
    return dict(id=ident, kind="one", tags=[1], timeout=40, files={}, runs=runs, script=script,
                meta=dict(family="restart", kind="one", kill={"phase": "running:1"}, latch="late", sig=sig, second_kill=None,
                          toctou=True))


def sc_token_empty_pid(ident, n, thaw=2.0):
    """C11 with a token: one job needs the only unit of a token; the scheduler dies at its n-th executed line, chosen
    right after pidpath.open("w") (pid file created, empty), and the job process is frozen before it could take its
    lock (a slow start).  The experiment is run again; the process is thawed `thaw` seconds after the second run has
    submitted.  The second run must not sit on the job lock waiting for a pid file nobody will ever write."""
    runs = [dict(sid="S0", slot=0, run=0, xpname="x", kill=dict(n=n, sig="KILL", funcs=KILLFUNCS, freeze_child=True)),
            dict(sid="S0", slot=0, run=1, xpname="x")]
    script = [dict(when={"t": 0}, do={"start": ["S0", 0]}),
              dict(when={"dead": ["S0", 0]}, do={"start": ["S0", 1]}),
              dict(when={"phase": ["S0", 1, "submitted"]}, do={"write": ["noop", ""]}),
              dict(when={"after": [2, thaw]}, do={"signal_log": [r"FROZEN (\d+)", "CONT"]}),
              dict(when={"t": 25}, do={"signal_log": [r"FROZEN (\d+)", "CONT"]}, optional=True)]
    return dict(id=ident, kind="tok1", tags=[1], timeout=40, files={"latch.all": ""}, runs=runs, script=script,
                meta=dict(family="restart", kind="tok1", kill={"line": n}, latch="free", sig="KILL", second_kill=None, token=True,
                          token_empty_pid=True))


def sc_token_restart(ident, sig, phase="running:1", latch="late"):
    """C11 with a token: two independent jobs share a counter token of total 1; the scheduler is killed while the
    first of them runs (it holds the token); the experiment is run again"""
    runs = [dict(sid="S0", slot=0, run=0, xpname="x"), dict(sid="S0", slot=0, run=1, xpname="x")]
    script = [dict(when={"t": 0}, do={"start": ["S0", 0]})]
    if phase == "running:1":
        cond = {"log": r"^begin \d+ "}
    else:
        cond = {"phase": ["S0", 0, phase]}
    script.append(dict(when=cond, do={"kill": ["S0", 0, sig]}))
    script.append(dict(when={"after": [1, 6.0]}, do={"kill": ["S0", 0, "KILL"]}, optional=True))
    if latch == "early":
        script.append(dict(when={"dead": ["S0", 0]}, do={"touch": "latch.all"}))
        script.append(dict(when={"after": [3, 1.0]}, do={"start": ["S0", 1]}))
    else:
        script.append(dict(when={"dead": ["S0", 0]}, do={"start": ["S0", 1]}))
        script.append(dict(when={"phase": ["S0", 1, "submitted"]}, do={"write": ["noop", ""]}))
        script.append(dict(when={"after": [4, 1.0]}, do={"touch": "latch.all"}))
    return dict(id=ident, kind="tok2", tags=[1, 2], timeout=45, files={}, runs=runs, script=script,
                meta=dict(family="restart", kind="tok2", kill={"phase": phase}, latch=latch, sig=sig, second_kill=None, token=True))


def sc_compete(ident, nsched, delays, hold, fail_first, kill=None, latch_at=None, barrier=True):
    """C05 (c): nsched experiments with different names on one workspace submit the same job.
    barrier: every experiment waits, once entered, for a common go file, then delays[k] seconds"""
    runs, script = [], []
    files = {"hold.1": str(hold)}
    if latch_at is None:
        files["latch.all"] = ""
    else:
        script.append(dict(when={"after": [0, latch_at]}, do={"touch": "latch.all"}))
    if fail_first:
        files["fail.1"] = "1"
    for k in range(nsched):
        sid = f"S{k}"
        r = dict(sid=sid, slot=k, run=0, xpname=f"x{k}")
        if barrier:
            r.update(barrier="go", post_delay=delays[k])
            script.append(dict(when={"t": 0}, do={"start": [sid, 0]}))
        else:
            script.append(dict(when={"t": delays[k]}, do={"start": [sid, 0]}))
        runs.append(r)
    go = dict(when={"all": [{"phase": [f"S{k}", 0, "entered"]} for k in range(nsched)]} if barrier else {"t": 0}, do={"touch": "go"})
    script.insert(0, go)
    if kill is not None:
        k, n = kill
        runs[k]["kill"] = dict(n=n, sig="KILL", funcs=KILLFUNCS + ["aio_submit"])
        runs.append(dict(sid=f"S{k}", slot=k, run=1, xpname=f"x{k}"))
        script.append(dict(when={"dead": [f"S{k}", 0]}, do={"start": [f"S{k}", 1]}))
    return dict(id=ident, kind="one", tags=[1], timeout=50, files=files, runs=runs, script=script,
                meta=dict(family="compete", nsched=nsched, delays=delays, hold=hold, fail_first=fail_first, kill=kill,
                          latch_at=latch_at, barrier=barrier))


def sc_orphan(ident, n, nlater, latch_delay, hold):
    """C05 (c) / C11: experiment x0 is killed at its n-th executed line (chosen right after Popen, around the write
    of the pid file), leaving a job process nobody recorded; nlater other experiments then submit the same job
    while that process is still in its body"""
    runs = [dict(sid="S0", slot=0, run=0, xpname="x0", kill=dict(n=n, sig="KILL", funcs=KILLFUNCS + ["aio_submit"]))]
    script = [dict(when={"t": 0}, do={"start": ["S0", 0]})]
    for k in range(1, nlater + 1):
        runs.append(dict(sid=f"S{k}", slot=k, run=0, xpname=f"x{k}"))
        script.append(dict(when={"dead": ["S0", 0]}, do={"start": [f"S{k}", 0]}))
    idx = len(script)
    script.append(dict(when={"all": [{"phase": [f"S{k}", 0, "submitted"]} for k in range(1, nlater + 1)]}, do={"write": ["noop", ""]}))
    script.append(dict(when={"after": [idx, latch_delay]}, do={"touch": "latch.all"}))
    script.append(dict(when={"all": [{"t": 15}, {"dead": ["S0", 0]}]}, do={"touch": "latch.all"}, optional=True))
    return dict(id=ident, kind="one", tags=[1], timeout=50, files={"hold.1": str(hold)}, runs=runs, script=script,
                meta=dict(family="compete", nsched=nlater + 1, delays=[], hold=hold, fail_first=False, kill=[0, n],
                          latch_at=latch_delay, barrier=False, orphan=True))


def sc_double(ident, n_lock, nsched, hold, fail_first):
    """C05 (c): a forced double launch.  Every experiment is held (by the line tracer) at the line where aio_start
    takes the job lock, i.e. after all of them found neither marker nor pid file; they are then let go one after
    the other, each when the previous one has written its pid file: nsched job processes for one job"""
    funcs = ["aio_submit"] + KILLFUNCS
    runs, script = [], []
    files = {"hold.1": str(hold), "latch.all": ""}
    if fail_first:
        files["fail.1"] = "1"
    for k in range(nsched):
        runs.append(dict(sid=f"S{k}", slot=k, run=0, xpname=f"x{k}", pause=dict(n=n_lock, funcs=funcs, until=f"go{k}")))
        script.append(dict(when={"t": 0}, do={"start": [f"S{k}", 0]}))
    allp = {"all": [{"log": rf"^S{k} 0 PAUSE "} for k in range(nsched)]}
    script.append(dict(when=allp, do={"touch": "go0"}))
    for k in range(1, nsched):
        script.append(dict(when={"all": [allp, {"log": rf"^S{k - 1} 0 R aio_run 1 "}]}, do={"touch": f"go{k}"}))
    return dict(id=ident, kind="one", tags=[1], timeout=50, files=files, runs=runs, script=script,
                meta=dict(family="compete", nsched=nsched, delays=[], hold=hold, fail_first=fail_first, kill=None,
                          latch_at=None, barrier=False, double=True))


def sc_truncated(ident, n_lock, n_spawn):
    """C05 / C06: a job process reads its script while another scheduler is rewriting it.  Both experiments are held
    at the line that takes the job lock (neither marker nor pid file seen).  x0 goes on: its job process is frozen
    as soon as it exists; x0 writes the pid file, unlocks and waits.  x1 then takes the lock and is held inside
    PythonScriptBuilder.write, after open("wt") and before the text reaches the file; the frozen process is thawed:
    the interpreter reads an empty script."""
    funcs = ["aio_submit"] + KILLFUNCS
    runs = [dict(sid="S0", slot=0, run=0, xpname="x0", pause=dict(n=n_lock, funcs=funcs, until="go0"),
                 freeze=dict(n=n_spawn, funcs=funcs)),
            dict(sid="S1", slot=1, run=0, xpname="x1", pause=dict(n=n_lock, funcs=funcs, until="go1"), trace_write=True,
                 pause_at=dict(func="write", startswith='out.write("#!', until="go1b"))]
    allp = {"all": [{"log": r"^S0 0 PAUSE "}, {"log": r"^S1 0 PAUSE "}]}
    script = [dict(when={"t": 0}, do={"start": ["S0", 0]}), dict(when={"t": 0}, do={"start": ["S1", 0]}),
              dict(when=allp, do={"touch": "go0"}),
              dict(when={"all": [allp, {"log": r"^S0 0 R aio_run 1 "}]}, do={"touch": "go1"}),
              dict(when={"log": r"^S1 0 PAUSE write "}, do={"signal_log": [r"FROZEN (\d+)", "CONT"]}),
              dict(when={"any": [{"log": r"^S0 0 R aio_submit 1 "}, {"after": [4, 4.0]}]}, do={"touch": "go1b"}),
              dict(when={"t": 30}, do={"signal_log": [r"FROZEN (\d+)", "CONT"]}, optional=True)]
    return dict(id=ident, kind="one", tags=[1], timeout=50, files={"latch.all": ""}, runs=runs, script=script,
                meta=dict(family="compete", nsched=2, delays=[], hold=0, fail_first=False, kill=None, latch_at=None,
                          barrier=False, truncated=True))


def sc_triple(ident, n_lock, hold=2.5):
    """C05 (c): three launches of one job, the first ending WITHOUT success.  The three experiments are held at the
    job-lock line (nothing seen).  x0 launches P0 and x1, right behind it, P1 (forced double launch): one of them
    gets the lock, its body lasts `hold` seconds and fails, the other one waits for the lock and then runs the body;
    when that second body has begun x2 is let go: it must block on the job lock until the body has ended (and its
    process then finds the marker) - whatever happened to the lock file in between."""
    funcs = ["aio_submit"] + KILLFUNCS
    runs, script = [], []
    for k in range(3):
        runs.append(dict(sid=f"S{k}", slot=k, run=0, xpname=f"x{k}", pause=dict(n=n_lock, funcs=funcs, until=f"go{k}")))
        script.append(dict(when={"t": 0}, do={"start": [f"S{k}", 0]}))
    allp = {"all": [{"log": rf"^S{k} 0 PAUSE "} for k in range(3)]}
    script.append(dict(when=allp, do={"touch": "go0"}))
    # x1 takes the job lock as soon as x0 has released it, before P0 (still starting) gets it: P0 and P1 both queue
    script.append(dict(when={"all": [allp, {"log": r"^S0 0 R aio_run 1 "}]}, do={"touch": "go1"}))
    script.append(dict(when={"all": [allp, {"log": r"(?s)^begin 1 .*^begin 1 "}]}, do={"touch": "go2"}))
    script.append(dict(when={"t": 30}, do={"touch": "go2"}, optional=True))
    return dict(id=ident, kind="one", tags=[1], timeout=55, files={"hold.1": str(hold), "latch.all": "", "fail.1": "1"},
                runs=runs, script=script,
                meta=dict(family="compete", nsched=3, delays=[], hold=hold, fail_first=True, kill=None, latch_at=None,
                          barrier=False, triple=True))


def sc_linger(ident, sig="KILL", linger=20.0):
    """C11: chain of two jobs; the process of the first one goes on working after its body returned (marker written,
    pid file still there, a non-daemon thread logs "late" at the very end, when the harness lets it).  The scheduler
    is killed as soon as the body has ended; the experiment is run again at once; the process is let go 1.5 s after
    the second run has submitted everything: the dependent may only begin once the process of its dependency is
    gone, as in a run that was not killed."""
    sc = sc_restart(ident, "chain2", {"phase": "between:1"}, "free", sig)
    sc["files"]["linger.1"] = str(linger)
    n = len(sc["script"])
    sc["script"].append(dict(when={"phase": ["S0", 1, "submitted"]}, do={"write": ["noop", ""]}))
    sc["script"].append(dict(when={"after": [n, 1.5]}, do={"touch": "unlinger.1"}))
    sc["meta"]["linger"] = linger
    return sc


def sc_silent_eoj(ident, sig="KILL", extra=2.5):
    """C11: the end-of-job report of the job process hangs (a notification URL that accepts the connection and
    never answers).  The scheduler is killed as soon as the body has ended and the experiment is run again while the
    job process is still in its clean-up (the silent server is closed `extra` seconds after the second run has
    submitted, or when that run is over): the body must not run again."""
    runs = [dict(sid="S0", slot=0, run=0, xpname="x"), dict(sid="S0", slot=0, run=1, xpname="x")]
    script = [dict(when={"t": 0}, do={"silent_server": "silent_url"}),
              dict(when={"after": [0, 0.0]}, do={"start": ["S0", 0]}),
              dict(when={"log": r"^end 1 \d+ ok"}, do={"kill": ["S0", 0, sig]}),
              dict(when={"dead": ["S0", 0]}, do={"start": ["S0", 1]}),
              dict(when={"phase": ["S0", 1, "submitted"]}, do={"write": ["noop", ""]}, optional=True),
              dict(when={"any": [{"dead": ["S0", 1]}, {"after": [4, extra]}]}, do={"close_server": "silent_url"})]
    return dict(id=ident, kind="one", tags=[1], timeout=45, files={"latch.all": ""}, runs=runs, script=script,
                meta=dict(family="restart", kind="one", kill={"phase": "end:1"}, latch="free", sig=sig, second_kill=None,
                          silent_eoj=True))


def sc_done_marker(ident, pre, nsched, concurrent, real_first, exit0=False):
    """C05 (b): the success marker is there (made by hand, or by a real first experiment); later
    experiments submit the job"""
    runs, script = [], []
    files = {"latch.all": ""}
    first = None
    if real_first:
        runs.append(dict(sid="S9", slot=nsched, run=0, xpname="first"))
        script.append(dict(when={"t": 0}, do={"start": ["S9", 0]}))
        first = {"dead": ["S9", 0]}
    for k in range(nsched):
        sid = f"S{k}"
        runs.append(dict(sid=sid, slot=k, run=0, xpname=f"later{k}"))
        if concurrent or k == 0:
            when = first if first is not None else {"t": 0.05 * k}
            if first is not None and k > 0:
                when = {"all": [first, {"phase": ["S0", 0, "start"]}]}
        else:
            when = {"dead": [f"S{k - 1}", 0]}
        script.append(dict(when=when, do={"start": [sid, 0]}))
    if exit0:
        files["exit0.all"] = ""     # the body ends with sys.exit(0) instead of returning
    sc = dict(id=ident, kind="one", tags=[1], timeout=50, files=files, runs=runs, script=script,
              meta=dict(family="done-marker", pre=pre, nsched=nsched, concurrent=concurrent, real_first=real_first,
                        exit0=exit0))
    if pre and not real_first:
        sc["pre"] = {"1": pre}
    return sc


def sc_threaddup(ident, offsets, delay=0.6):
    """C05 (a), threads: duplicates submitted from other threads `offsets` seconds after the first submission began,
    i.e. (offset < delay) while it is still computing its output"""
    return dict(id=ident, kind="one", tags=[1], timeout=50, files={},
                runs=[dict(sid="S0", slot=0, run=0, xpname="t", trace=False,
                           workload=dict(kind="threaddup", tags=[1], offsets=offsets, delay=delay))],
                script=[dict(when={"t": 0}, do={"start": ["S0", 0]})],
                meta=dict(family="threaddup", offsets=offsets, delay=delay))


_REN_HEAD = ("from pathlib import Path\nfrom experimaestro import Task, Param, Meta, deprecate\n"
             "from vpk_jobdir.tasks import _body\n\n\n")
_REN_BODY = ("    tag: Param[int]\n    ctl: Meta[Path]\n    maxwait: Meta[float] = 60.0\n\n"
             "    def execute(self):\n        _body(self.tag, self.ctl, self.maxwait)\n")
REN_OLD = _REN_HEAD + "class Learn(Task):\n" + _REN_BODY
REN_NEW = _REN_HEAD + "class Train(Task):\n" + _REN_BODY + "\n\n@deprecate\nclass Learn(Train):\n    pass\n"


def sc_renamed(ident, running):
    """C05 with a renamed task (generated module: Learn, later Train with Learn as deprecated alias) and
    `deprecated list --fix` (tools.jobs.fix_deprecated) between the experiments.
    running=False: the first --fix is run while the job has no result yet, the job then succeeds, --fix is run
    again, a later experiment submits the task under its new name: the body must not run again.
    running=True: --fix and the submission under the new name happen while the job is still running under its old
    name: no second body."""
    wl_old = dict(kind="renamed", module="vren_tasks", cls="Learn", tags=[1])
    wl_new = dict(kind="renamed", module="vren_tasks", cls="Train", tags=[1])
    runs = [dict(sid="S0", slot=0, run=0, xpname="old", workload=wl_old, trace=False),
            dict(sid="S1", slot=1, run=0, xpname="new", workload=wl_new, trace=False)]
    script = [dict(when={"t": 0}, do={"write_module": ["vren_tasks", REN_OLD]}),
              dict(when={"after": [0, 0.0]}, do={"start": ["S0", 0]}),
              dict(when={"log": r"^begin 1 "}, do={"write_module": ["vren_tasks", REN_NEW]}),
              dict(when={"after": [2, 0.1]}, do={"fix_deprecated": True})]
    if running:
        script += [dict(when={"after": [3, 0.1]}, do={"start": ["S1", 0]}),
                   dict(when={"phase": ["S1", 0, "submitted"]}, do={"write": ["noop", ""]}),
                   dict(when={"after": [5, 2.5]}, do={"touch": "latch.all"})]
    else:
        script += [dict(when={"after": [3, 0.1]}, do={"touch": "latch.all"}),
                   dict(when={"dead": ["S0", 0]}, do={"fix_deprecated": True}),
                   dict(when={"after": [5, 0.1]}, do={"start": ["S1", 0]})]
    return dict(id=ident, kind="one", tags=[1], timeout=50, files={}, runs=runs, script=script,
                meta=dict(family="renamed", running=running))


def sc_hashseed(ident, seeds, npre=3):
    """C05: a job with `npre` pre-tasks is run by a first experiment process, then submitted again by later processes
    with other hash seeds (PYTHONHASHSEED): same identifier, the body runs once"""
    wl = dict(kind="pretasks", tags=[1], npre=npre)
    runs, script = [], []
    for k, sd in enumerate(seeds):
        runs.append(dict(sid=f"S{k}", slot=k, run=0, xpname=f"x{k}", workload=wl, trace=False, hashseed=sd))
        script.append(dict(when=({"t": 0} if k == 0 else {"dead": [f"S{k - 1}", 0]}), do={"start": [f"S{k}", 0]}))
    return dict(id=ident, kind="one", tags=[1], timeout=50, files={"latch.all": ""}, runs=runs, script=script,
                meta=dict(family="hashseed", seeds=seeds, npre=npre))


def sc_history(ident, ops):
    """C05 (a): one experiment process executing a submission history"""
    return dict(id=ident, kind="one", tags=sorted({op[1] for op in ops if op[0] in ("submit", "finish")}), timeout=70,
                files={}, runs=[dict(sid="S0", slot=0, run=0, xpname="h", trace=False, workload=dict(kind="history", ops=ops))],
                script=[dict(when={"t": 0}, do={"start": ["S0", 0]})], meta=dict(family="history", ops=ops))


# ------------------------------------------------------------------ reading a scenario outcome
def body_rows(rows, tag):
    return [r for r in rows if r["who"] == "P" and r["kind"] in ("begin", "end") and r["tag"] == tag]


def usable(out):
    return not out["timed_out"] and not out["leftover"] and not out["problems"] and not out["unfired"]


def run_ends(sc, rows):
    """per scheduler run: last_i (its last log row), dead_i (the process was certainly dead: first row of the
    next run of the same slot, else the end of the log)"""
    ends = []
    n = len(rows) + 1
    for r in sc["runs"]:
        mine = [x["i"] for x in rows if x["who"] == r["sid"] and x.get("run") == r["run"]]
        if not mine:
            continue
        nxt = [x["i"] for x in rows if x["who"] == r["sid"] and x.get("run", -1) > r["run"]]
        ends.append(dict(sid=r["sid"], run=r["run"], last_i=max(mine) + 0.25, dead_i=(min(nxt) - 0.25) if nxt else n))
    return ends


def build_case(sc, out, markers, budget=150000):
    """-> (case dict for Gallina, None) or (None, reason)"""
    if markers is None:
        return None, "source markers not found"
    if not usable(out):
        return None, "scenario did not end cleanly"
    rows = replay.parse_log(out["log"])
    tags = sc["tags"]
    job_of_tag = {t: i for i, t in enumerate(tags)}
    slot_of = {r["sid"]: r["slot"] for r in sc["runs"]}
    try:
        items = replay.extract(rows, markers, slot_of, job_of_tag, run_ends(sc, rows))
    except (ValueError, KeyError, IndexError) as e:
        return None, f"log not interpretable: {e}"
    exact, cos = replay.index_items(items)
    pre = sc.get("pre") or {}
    init = [(bool(pre.get(str(t), {}).get("done")), bool(pre.get(str(t), {}).get("failed"))) for t in tags]
    snap = out["snapshot"]
    final = dict(done=[snap[str(t)]["done"] for t in tags], failed=[snap[str(t)]["failed"] for t in tags],
                 pid=[(0 if not snap[str(t)]["pid"] else 1 if snap[str(t)].get("pidvalue") in (None, "unreadable") else 2)
                      for t in tags], views={})
    # a stale pid file made by hand stays unless a job process removes it: the model has no such file
    for i, t in enumerate(tags):
        if pre.get(str(t), {}).get("stalepid") and final["pid"][i] and snap[str(t)].get("pidvalue") == _stale(out, t):
            final["pid"][i] = 0
    last_run = {}
    for r in sc["runs"]:
        last_run[r["sid"]] = max(last_run.get(r["sid"], -1), r["run"])
    for r in sc["runs"]:
        if r["run"] != last_run[r["sid"]]:
            continue
        res = out["results"].get(f"{r['sid']}.{r['run']}")
        if not res or "jobs" not in res or out["exit"].get(f"{r['sid']}.{r['run']}") != 0:
            continue
        if any(x["kind"] in ("KILL", "EXTKILL") for x in rows if x["who"] == r["sid"] and x.get("run") == r["run"]):
            continue
        for j in res["jobs"]:
            if j["state"] in ("DONE", "ERROR") and j["tag"] in job_of_tag:
                final["views"][(r["slot"], job_of_tag[j["tag"]])] = "VDone" if j["state"] == "DONE" else "VError"
    deps = KINDS[sc["kind"]]["deps"]
    w, why = replay.search(init, deps, exact, cos, final, limit=budget)
    found = w is not None
    if w is None:
        if why["reason"].startswith("search budget"):
            return None, "search budget exhausted"
        if sc["kind"] == "tok2":
            # the model has no token: a retry of aio_start after a failed token acquisition is not expressible
            return None, "token scenario not explained by the token-free model"
        w = replay.naive_witness(exact, cos)
    runs = [sum(1 for r in body_rows(rows, t) if r["kind"] == "begin") for t in tags]
    case = dict(deps=deps, init=init, w=w, nexact=len(exact), done=final["done"], failed=final["failed"], pid=final["pid"],
                runs=runs, views=sorted((s, j, v) for (s, j), v in final["views"].items()), found=found, why=why)
    return case, None


def _stale(out, tag):
    for j in out.get("pre_paths") or []:
        if j["tag"] == tag:
            return j.get("stalepid")
    return None


def g_bool(b):
    return "true" if b else "false"


def g_case(c):
    deps = "[" + "; ".join(f"({j}, [{'; '.join(str(d) for d in ds)}])" for j, ds in sorted(c["deps"].items())) + "]"
    init = "[" + "; ".join(f"({g_bool(d)}, {g_bool(f)})" for d, f in c["init"]) + "]"
    views = "[" + "; ".join(f"({s}, {j}, {v})" for s, j, v in c["views"]) + "]"
    bl = lambda l: "[" + "; ".join(g_bool(x) for x in l) + "]"  # noqa
    return ("{| c_deps := %s; c_init := %s; c_w := %s; c_nexact := %d; c_done := %s; c_failed := %s; c_pid := %s; "
            "c_runs := [%s]; c_views := %s |}" % (deps, init, replay.g_witness(c["w"]), c["nexact"], bl(c["done"]),
                                                  bl(c["failed"]), "[" + "; ".join(str(int(x)) for x in c["pid"]) + "]",
                                                  "; ".join(str(x) for x in c["runs"]), views))


CORR_HEADER = ("From Coq Require Import List Bool Arith ZArith.\nFrom XV Require Import model.JobDir corr.JobDirCorr.\n"
               "Import ListNotations.\n")


# ------------------------------------------------------------------ oracles (model independent)
def intervals_ok(rows, tag):
    """begin/end lines of one job identifier: never two bodies at once, no begin after a successful end.
    Returns (overlap, rerun_after_success) as lists of row indices"""
    overlap, rerun = [], []
    inside = None
    succeeded = False
    for r in body_rows(rows, tag):
        if r["kind"] == "begin":
            if inside is not None:
                overlap.append(r["i"])
            if succeeded:
                rerun.append(r["i"])
            inside = r["pid"]
        else:
            if inside == r["pid"]:
                inside = None
            if r["res"] == "ok":
                succeeded = True
    return overlap, rerun


def count_begins(rows, tag):
    return sum(1 for r in body_rows(rows, tag) if r["kind"] == "begin")


def short_log(out, n=60):
    lines = [l for l in out["log"].splitlines() if " L " not in l]
    return lines[:n]
