"""Experiment driver process of the C05 / C11 harness.

    python xpdriver.py <spec.json>

Runs `with experiment(workdir, name, port=-1)` on the real implementation, submits a small
workload of latch-controlled tasks (vpk_jobdir.tasks) and reports what it saw.  Optionally traces
the executed lines of Scheduler.aio_submit / aio_start / CommandLineJob.aio_run into the shared
event log and kills itself at the n-th executed line.

spec = {
  workdir, xpname, ctl, sid, run, result,
  workload: {kind: "one"|"chain2"|"indep2", tags: [..]}  |  {kind: "history", ops: [...]},
  trace: bool, kill: {n, sig, funcs} | null, start_delay, maxlife, maxwait, pythonpath
}
"""
import json
import os
import signal
import sys
import threading
import time
from pathlib import Path

SPEC = json.load(open(sys.argv[1]))
CTL = Path(SPEC["ctl"])
SID = SPEC["sid"]
RUN = SPEC.get("run", 0)
_EVFD = os.open(str(CTL / "events.log"), os.O_WRONLY | os.O_APPEND | os.O_CREAT, 0o644)


def ev(line):
    os.write(_EVFD, (f"{SID} {RUN} {line}\n").encode())


def phase(name):
    (CTL / f"phase.{SID}.{RUN}.{name}").write_text(str(os.getpid()))
    ev(f"phase {name}")


def watchdog(seconds):
    def bye():
        ev("watchdog")
        os._exit(9)
    t = threading.Timer(seconds, bye)
    t.daemon = True
    t.start()


# ---------------------------------------------------------------- line tracer
TRACED = {"aio_submit": "scheduler/base.py", "aio_start": "scheduler/base.py", "aio_run": "commandline.py"}
if SPEC.get("trace_process"):
    TRACED["aio_process"] = "commandline.py"  # CommandLineJob.aio_process: the look-up of a running process
if SPEC.get("trace_write"):
    TRACED["write"] = "scriptbuilder.py"     # PythonScriptBuilder.write: the job script is rewritten in place
KILL = SPEC.get("kill")
PAUSE = SPEC.get("pause")      # {n, funcs, until}: at the n-th executed line wait for a control file
_pcount = [0]
PAUSE_AT = SPEC.get("pause_at")  # {func, startswith, until}: wait before the first executed line with that text
_pa_done = [False]
FREEZE = SPEC.get("freeze")    # {n, funcs}: at the n-th executed line SIGSTOP the job process just created
_fcount = [0]
SIGS = {"KILL": signal.SIGKILL, "TERM": signal.SIGTERM, "INT": signal.SIGINT}
_count = [0]
_killed = [False]
_lastpid = [None]


def _pid_of(obj):
    try:
        inner = obj._process
        return int(inner.pid)
    except Exception:
        return None


def _describe(frame):
    loc = frame.f_locals
    job = loc.get("job") or loc.get("self")
    tag = None
    try:
        tag = job.config.tag
    except Exception:
        pass
    extra = []
    p = loc.get("process")
    if p is None and frame.f_code.co_name == "aio_run":
        p = getattr(loc.get("self"), "_process", None)
    pid = _pid_of(p) if p is not None else None
    if pid is not None:
        extra.append(f"pid={pid}")
    try:
        extra.append(f"state={job.state.name}")
    except Exception:
        pass
    if "code" in loc:
        extra.append(f"code={loc['code']}")
    _lastpid[0] = pid
    return tag, " ".join(extra)


def _local(frame, event, arg):
    if event == "line":
        fn = frame.f_code.co_name
        tag, extra = _describe(frame)
        counted = KILL is not None and fn in KILL["funcs"] and not _killed[0]
        if counted:
            _count[0] += 1
        if PAUSE is not None and fn in PAUSE["funcs"]:
            _pcount[0] += 1
            if _pcount[0] == PAUSE["n"]:
                ev(f"PAUSE {fn} {frame.f_lineno} {tag}")
                tp = time.time()
                while not (CTL / PAUSE["until"]).exists() and time.time() - tp < 25:
                    time.sleep(0.002)
                ev(f"RESUME {fn} {frame.f_lineno} {tag}")
        if FREEZE is not None and fn in FREEZE["funcs"]:
            _fcount[0] += 1
            if _fcount[0] == FREEZE["n"] and _lastpid[0] is not None:
                try:
                    os.kill(_lastpid[0], signal.SIGSTOP)
                    ev(f"FROZEN {_lastpid[0]}")
                except OSError:
                    pass
        if PAUSE_AT is not None and not _pa_done[0] and fn == PAUSE_AT["func"]:
            import linecache
            if linecache.getline(frame.f_code.co_filename, frame.f_lineno).strip().startswith(PAUSE_AT["startswith"]):
                _pa_done[0] = True
                ev(f"PAUSE {fn} {frame.f_lineno} {tag}")
                tp = time.time()
                while not (CTL / PAUSE_AT["until"]).exists() and time.time() - tp < 25:
                    time.sleep(0.002)
                ev(f"RESUME {fn} {frame.f_lineno} {tag}")
        ev(f"L {fn} {frame.f_lineno} {tag} {extra}")
        if counted and _count[0] == KILL["n"]:
            _killed[0] = True
            if KILL.get("freeze_child") and _lastpid[0] is not None:
                # the job process just created is frozen before it can do anything (it is thawed by the harness)
                try:
                    os.kill(_lastpid[0], signal.SIGSTOP)
                    ev(f"FROZEN {_lastpid[0]}")
                except OSError:
                    pass
            ev(f"KILL {KILL['n']} {KILL['sig']} {fn} {frame.f_lineno} {tag}")
            os.kill(os.getpid(), SIGS[KILL["sig"]])
    elif event == "return" and arg is not None and not hasattr(arg, "__await__"):
        # the coroutine function returned (a suspension yields a future instead)
        fn = frame.f_code.co_name
        tag, extra = _describe(frame)
        name = getattr(arg, "name", None)
        ev(f"R {fn} {tag} ret={name if name is not None else type(arg).__name__}")
    return _local


def _global(frame, event, arg):
    co = frame.f_code
    suffix = TRACED.get(co.co_name)
    if suffix and co.co_filename.replace(os.sep, "/").endswith("experimaestro/" + suffix):
        return _local
    return None


def main():
    if SPEC.get("start_delay"):
        time.sleep(SPEC["start_delay"])
    watchdog(SPEC.get("maxlife", 90))
    import logging
    if SPEC.get("debuglog"):
        logging.basicConfig(filename=SPEC["debuglog"], level=logging.DEBUG, format="%(asctime)s %(threadName)s %(name)s %(message)s")
    else:
        logging.disable(logging.CRITICAL)
    if SPEC.get("trace") or KILL or PAUSE or PAUSE_AT or FREEZE:
        threading.settrace(_global)
        sys.settrace(_global)
    from experimaestro import experiment
    from experimaestro.scheduler import JobState
    from vpk_jobdir.tasks import Latched, LatchedAfter

    wl = SPEC["workload"]
    maxwait = float(SPEC.get("maxwait", 60))
    result = {"sid": SID, "run": RUN, "pid": os.getpid(), "jobs": [], "subs": []}
    phase("start")
    if wl["kind"] == "paths":
        # dry run: only tells where the job directories of the workload are
        from experimaestro.scheduler.workspace import RunMode
        with experiment(SPEC["workdir"], SPEC["xpname"], port=-1, run_mode=RunMode.DRY_RUN):
            for tag in wl["tags"]:
                cfg = Latched(tag=tag, ctl=CTL, maxwait=maxwait)
                cfg.submit()
                job = cfg.__xpm__.job
                result["jobs"].append(dict(tag=tag, path=str(job.path), name=job.name,
                                           done=str(job.donepath), failed=str(job.failedpath), pid=str(job.pidpath)))
        Path(SPEC["result"]).write_text(json.dumps(result))
        os._exit(0)
    xp = experiment(SPEC["workdir"], SPEC["xpname"], port=-1)
    with xp:
        xp.workspace.launcher.setenv("PYTHONPATH", SPEC["pythonpath"])
        phase("entered")
        if SPEC.get("barrier"):
            # all competing experiments submit at (nearly) the same moment
            tb = time.time()
            while not (CTL / SPEC["barrier"]).exists() and time.time() - tb < 30:
                time.sleep(0.001)
            if SPEC.get("post_delay"):
                time.sleep(SPEC["post_delay"])
        tasks = []
        if wl["kind"] == "renamed":
            # a task class of a generated module (two versions: Learn, then Train with Learn as deprecated alias)
            import importlib
            mod = importlib.import_module(wl["module"])
            cfg = getattr(mod, wl["cls"])(tag=wl["tags"][0], ctl=CTL, maxwait=maxwait)
            tasks.append((wl["tags"][0], cfg, cfg.submit()))
            ev(f"submitted {wl['tags'][0]}")
            phase("submitted")
        elif wl["kind"] == "pretasks":
            # a job with several pre-tasks: its identifier must not depend on the process (hash seed)
            from vpk_jobdir.tasks import PreT
            cfg = Latched(tag=wl["tags"][0], ctl=CTL, maxwait=maxwait)
            cfg.add_pretasks(*[PreT(v=i) for i in range(wl.get("npre", 3))])
            tasks.append((wl["tags"][0], cfg, cfg.submit()))
            result["identifier"] = cfg.__xpm__.identifier.all.hex()
            ev(f"submitted {wl['tags'][0]}")
            phase("submitted")
        elif wl["kind"] == "threaddup":
            # duplicates of one configuration submitted from other threads while the first submission is still
            # inside ConfigInformation.submit (its user-defined task_outputs is slow)
            from vpk_jobdir.tasks import SlowOut
            outs, errs = {}, {}

            def sub(name):
                try:
                    outs[name] = SlowOut(tag=wl["tags"][0], delay=wl.get("delay", 0.6), ctl=CTL).submit()
                except BaseException as e:  # noqa
                    errs[name] = type(e).__name__ + ": " + str(e)[:200]
            ths = [threading.Thread(target=sub, args=("first",))]
            for i, off in enumerate(wl["offsets"]):
                ths.append(threading.Thread(target=sub, args=(f"dup{i}",)))
            ths[0].start()
            t0 = time.time()
            for th, off in zip(ths[1:], wl["offsets"]):
                time.sleep(max(0.0, off - (time.time() - t0)))
                th.start()
            for th in ths:
                th.join(30)
            result["thread_subs"] = [dict(name=k, is_first=(outs.get(k) is outs.get("first")), none=(outs.get(k) is None),
                                          type=type(outs.get(k)).__name__, error=errs.get(k)) for k in sorted(set(outs) | set(errs))]
            result["njobs"] = len(xp.scheduler.jobs)
            phase("submitted")
        elif wl["kind"] in ("tok1", "tok2"):
            # two independent jobs sharing a counter token of total 1
            token = xp.workspace.connector.createtoken("vtoken", 1)
            for tg in wl["tags"]:
                cfg = Latched(tag=tg, ctl=CTL, maxwait=maxwait)
                cfg.add_dependencies(token.dependency(1))
                tasks.append((tg, cfg, cfg.submit()))
                ev(f"submitted {tg}")
            phase("submitted")
        elif wl["kind"] in ("one", "chain2", "indep2"):
            tags = wl["tags"]
            a = Latched(tag=tags[0], ctl=CTL, maxwait=maxwait)
            tasks.append((tags[0], a, a.submit()))
            ev(f"submitted {tags[0]}")
            if wl["kind"] == "chain2":
                b = LatchedAfter(tag=tags[1], dep=tasks[0][2], ctl=CTL, maxwait=maxwait)
                tasks.append((tags[1], b, b.submit()))
                ev(f"submitted {tags[1]}")
            elif wl["kind"] == "indep2":
                b = Latched(tag=tags[1], ctl=CTL, maxwait=maxwait)
                tasks.append((tags[1], b, b.submit()))
                ev(f"submitted {tags[1]}")
            phase("submitted")
        elif wl["kind"] == "history":
            returned = []
            # which submissions hand a job to the scheduler: count the calls of Scheduler.aio_submit (an observation
            # from outside; the Job object reachable from a duplicate's configuration may be the registered one)
            calls = []
            _orig = xp.scheduler.aio_submit

            def _counted(job, _orig=_orig):
                calls.append(job)
                return _orig(job)
            xp.scheduler.aio_submit = _counted
            flags = []
            for op in wl["ops"]:
                if op[0] == "submit":
                    cfg = Latched(tag=op[1], ctl=CTL, maxwait=maxwait)
                    ncalls = len(calls)
                    out = cfg.submit()
                    same = next((i for i, r in enumerate(returned) if r is out), len(returned))
                    returned.append(out)
                    tasks.append((op[1], cfg, out))
                    flags.append(len(calls) > ncalls)
                    job = cfg.__xpm__.job
                    result["subs"].append(dict(
                        tag=op[1], ret=same, scheduled=flags[-1],
                        njobs=len(xp.scheduler.jobs), unfinished=xp.unfinishedJobs))
                    ev(f"submitted {op[1]} ret={same}")
                elif op[0] == "finish":
                    # let every running body of this tag end (ok or failing), wait for the scheduled jobs
                    tag, ok = op[1], op[2]
                    if not ok:
                        (CTL / f"fail.{tag}").write_text("1000")
                    elif (CTL / f"fail.{tag}").exists():
                        (CTL / f"fail.{tag}").unlink()
                    (CTL / f"latch.{tag}").touch()
                    states = []
                    for (t, cfg, out), fl in zip(tasks, flags):
                        job = cfg.__xpm__.job
                        fut = getattr(job, "_future", None)
                        if t == tag and fl and fut is not None:
                            try:
                                states.append(fut.result(timeout=maxwait).name)
                            except Exception as e:  # noqa
                                states.append("EXC:" + type(e).__name__)
                    (CTL / f"latch.{tag}").unlink()
                    result.setdefault("finishes", []).append(dict(tag=tag, ok=ok, states=states))
                    ev(f"finished {tag} {ok}")
                elif op[0] == "sleep":
                    time.sleep(op[1])
            # final observation, then leave without __exit__ (its wait() is not what is checked here)
            for t, cfg, out in tasks:
                job = cfg.__xpm__.job
                result["jobs"].append(dict(tag=t, state=job.state.name, launched=job._process is not None,
                                           scheduled=getattr(job, "_future", None) is not None))
            Path(SPEC["result"]).write_text(json.dumps(result))
            phase("exited")
            os._exit(0)
    # the with block is over: every job reached a final state (or the experiment was stopped)
    for t, cfg, out in tasks:
        job = cfg.__xpm__.job
        result["jobs"].append(dict(tag=t, state=job.state.name, launched=job._process is not None,
                                   scheduled=getattr(job, "_future", None) is not None))
    Path(SPEC["result"]).write_text(json.dumps(result))
    phase("exited")
    # do not linger on helper threads
    sys.stdout.flush()
    os._exit(0)


if __name__ == "__main__":
    try:
        main()
    except SystemExit:
        raise
    except BaseException as e:  # noqa
        import traceback
        ev("driver-exception " + type(e).__name__ + " " + str(e).replace("\n", " ")[:200])
        try:
            Path(SPEC["result"]).write_text(json.dumps({"sid": SID, "run": RUN, "exception": traceback.format_exc()[-2000:]}))
        except Exception:
            pass
        os._exit(3)
