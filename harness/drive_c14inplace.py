"""Directed probe for C14: the list / dict VALUES of a frozen configuration are plain Python containers handed out by
the parameter property; modifying them in place is an assignment attempt that nothing rejects.
Output: one JSON document on the last line: per attempt "rejected" / "accepted", and whether the identifier that a
fresh copy of the submitted task gets is still the identifier the job was given."""
import json
import shutil
import sys
import tempfile

from experimaestro import experiment
from experimaestro.scheduler.workspace import RunMode


def main():
    json.load(sys.stdin)
    from vpk import schema as m
    out = {}
    wd = tempfile.mkdtemp(prefix="xpmverif-c14inplace-")
    try:
        with experiment(wd, "c14inplace", port=-1, run_mode=RunMode.DRY_RUN):
            bag = m.Bag(li=[1, 2], di={"a": 1}, lc=[m.Leaf(i=1)])
            t = m.TaskOut(x=1, c=bag)
            t.submit(run_mode=RunMode.DRY_RUN)
            ident = t.__xpm__.full_identifier.all.hex()

            def attempt(name, fn):
                try:
                    fn()
                    out[name] = "accepted"
                except Exception as e:  # noqa
                    out[name] = "rejected:" + type(e).__name__
            attempt("list-append", lambda: bag.li.append(3))
            attempt("dict-setitem", lambda: bag.di.__setitem__("b", 2))
            attempt("config-list-append", lambda: bag.lc.append(m.Leaf(i=2)))
            # containers that are EMPTY when the configuration is sealed
            bag2 = m.Bag(li=[], di={}, lc=[])
            t2 = m.TaskOut(x=2, c=bag2)
            t2.submit(run_mode=RunMode.DRY_RUN)
            attempt("empty-list-append", lambda: bag2.li.append(3))
            attempt("empty-dict-setitem", lambda: bag2.di.__setitem__("b", 2))
            attempt("empty-config-list-append", lambda: bag2.lc.append(m.Leaf(i=2)))
            out["identifier_kept"] = t.__xpm__.full_identifier.all.hex() == ident
            out["content_identifier_same"] = t.copy().__xpm__.full_identifier.all.hex() == ident
    finally:
        shutil.rmtree(wd, ignore_errors=True)
    sys.stderr = open("/dev/null", "w")
    print(json.dumps(out))


if __name__ == "__main__":
    main()
