"""Shared by check_c04.py, check_c06.py, check_c07.py: workload generator, the properties restated
over the observables recorded by loopctl.py (oracles, independent of the Coq model), rendering
of workloads / traces as Gallina literals for corr/SchedCorr.v."""
import json
import random

from vcommon import gz, glist, gbool, gopt

EMBED = ["direct", "falsy", "list", "dict", "nested", "nested_list", "pre", "pre_task", "init", "explicit"]
# (also "pre_from": the pre-tasks of the value are taken over; only for the values of VTaskLoad, set after generation)

# the three directed schedules of DESIGN section 7 (#2, #3, #4); the schedule is a prefix, the run
# continues with the run's PRNG
W_RESUBMIT = {"tokens": [], "seed": 1, "jobs": [
    {"cls": "VTask", "name": "a", "embed": [], "toks": [], "code": 1, "marker": False},
    {"cls": "VTask", "name": "a", "embed": [], "toks": [], "code": 0, "marker": False, "copy_of": 0}],
    "schedule": [["submit", 0], ["deliver", [[0, "lockin"]]], ["deliver", [[0, "lockout"]]], ["deliver", [[0, "proc"]]],
                 ["deliver", [[0, "doneh"]]], ["submit", 1], ["deliver", [[1, "lockin"]]], ["deliver", [[1, "lockout"]]],
                 ["deliver", [[1, "proc"]]], ["deliver", [[1, "doneh"]]], ["exit"]]}
W_OVERWRITE = {"tokens": [3], "seed": 1, "jobs": [
    {"cls": "VTask", "name": "j1", "embed": [], "toks": [[0, 2]], "code": 0, "marker": False},
    {"cls": "VTask", "name": "j2", "embed": [], "toks": [[0, 1]], "code": 0, "marker": False}],
    "schedule": [["submit", 0], ["submit", 1], ["deliver", [[0, "lockin"]]], ["deliver", [[1, "lockin"]]],
                 ["deliver", [[0, "lockout"]]], ["deliver", [[1, "lockout"]]], ["deliver", [[1, "proc"]]],
                 ["deliver", [[0, "proc"]]], ["deliver", [[0, "doneh"]]], ["deliver", [[1, "doneh"]]], ["exit"]]}
W_ABORT = {"tokens": [1], "seed": 1, "jobs": [
    {"cls": "VTask", "name": "j1", "embed": [], "toks": [[0, 1]], "code": 0, "marker": False},
    {"cls": "VTask", "name": "j2", "embed": [], "toks": [[0, 1]], "code": 0, "marker": False}],
    "schedule": [["submit", 0], ["submit", 1], ["deliver", [[0, "lockin"]]], ["deliver", [[1, "lockin"]]],
                 ["deliver", [[0, "lockout"]]], ["deliver", [[0, "proc"]]], ["deliver", [[1, "lockout"]]],
                 ["deliver", [[0, "doneh"]]], ["exit"]]}
# a job whose process was left running by an earlier scheduler, one of its inputs fails meanwhile, a
# dependent is submitted in that window; then the old process ends well
W_ADOPT_FAIL = {"tokens": [], "seed": 1, "jobs": [
    {"cls": "VTask", "name": "d0", "embed": [], "toks": [], "code": 1, "marker": False, "copy_of": None, "adopt": None},
    {"cls": "VTask", "name": "d1", "embed": [[0, "list"]], "toks": [], "code": 0, "marker": False, "copy_of": None,
     "adopt": {"code": 0, "done": True}},
    {"cls": "VTask", "name": "d2", "embed": [[1, "direct"]], "toks": [], "code": 0, "marker": False, "copy_of": None, "adopt": None}],
    "schedule": [["submit", 0], ["submit", 1], ["deliver", [[0, "lockin"]]], ["deliver", [[0, "lockout"]]],
                 ["deliver", [[0, "proc"]]], ["deliver", [[0, "doneh"]]], ["submit", 2], ["deliver", [[1, "adopt"]]]]}
# a task whose truth value is False (a class with __len__, no items) used as a parameter of the next one
W_FALSY = {"tokens": [], "seed": 1, "jobs": [
    {"cls": "VTaskEmpty", "name": "e0", "embed": [], "toks": [], "code": 0, "marker": False, "copy_of": None, "adopt": None},
    {"cls": "VTask", "name": "e1", "embed": [[0, "direct"]], "toks": [], "code": 0, "marker": False, "copy_of": None, "adopt": None}],
    "schedule": [["submit", 0], ["submit", 1], ["deliver", [[1, "lockin"]]], ["deliver", [[0, "lockin"]]]]}
# a failed job submitted again with the Dependency objects of its first submission (a retry loop that keeps
# `dep = token.dependency(1)`): the object still says OK, check() sees no change
W_REUSE = {"tokens": [1], "seed": 1, "jobs": [
    {"cls": "VTask", "name": "r0", "embed": [], "toks": [[0, 1]], "code": 1, "marker": False, "copy_of": None, "adopt": None},
    {"cls": "VTask", "name": "r0", "embed": [], "toks": [[0, 1]], "code": 0, "marker": False, "copy_of": 0, "adopt": None, "reuse": True}],
    "schedule": [["submit", 0], ["deliver", [[0, "lockin"]]], ["deliver", [[0, "lockout"]]], ["deliver", [[0, "proc"]]],
                 ["deliver", [[0, "lockout"]]], ["deliver", [[0, "doneh"]]], ["submit", 1]]}
# copy_dependencies on the task that is submitted: are its own parameters still searched
W_COPYDEP = {"tokens": [], "seed": 1, "jobs": [
    {"cls": "VTask", "name": "c0", "embed": [], "toks": [], "code": 0, "marker": False, "copy_of": None, "adopt": None},
    {"cls": "VTask", "name": "c1", "embed": [], "toks": [], "code": 0, "marker": False, "copy_of": None, "adopt": None},
    {"cls": "VTask", "name": "c2", "embed": [[0, "direct"], [1, "copydep"]], "toks": [], "code": 0, "marker": False,
     "copy_of": None, "adopt": None}],
    "schedule": [["submit", 0], ["submit", 1], ["submit", 2]]}
WITNESSES = [W_RESUBMIT, W_OVERWRITE, W_ABORT, W_ADOPT_FAIL, W_FALSY, W_REUSE, W_COPYDEP]


def gen_workload(rng, profile="c06"):
    """A DAG of <= 7 jobs, <= 2 tokens (totals 1-4, heterogeneous requests), random exit codes,
    pre-existing markers, duplicates / re-submissions.  profile 'c04' varies the embeddings more
    and also passes the submitted object itself (not the value returned by submit())."""
    ntok = rng.choice([0, 1, 1, 1, 2, 2])
    tokens = [rng.choice([1, 1, 2, 3, 3, 4]) for _ in range(ntok)]
    n = rng.choice([1, 2, 3, 3, 4, 4, 5, 5, 6, 7])
    pfail = rng.choice([0.0, 0.15, 0.3, 0.5])
    pdep = rng.choice([0.15, 0.3, 0.5, 0.8])
    pmark = rng.choice([0.0, 0.0, 0.1, 0.25])
    pcopy = rng.choice([0.0, 0.1, 0.2, 0.35]) if profile != "c04" else rng.choice([0.0, 0.15, 0.3])
    padopt = rng.choice([0.0, 0.0, 0.15, 0.3])
    ptwice = rng.choice([0.0, 0.0, 0.1, 0.3])
    if profile == "c07":
        pfail, pdep = rng.choice([0.2, 0.35, 0.5]), rng.choice([0.4, 0.6, 0.8])
    jobs = []
    for j in range(n):
        # (a job whose process was left running by an earlier run is never copied: the marker of the copy
        #  would appear in the directory that process is expected to fill)
        plain = [i for i in range(j) if not jobs[i].get("adopt") and not jobs[i].get("over")]
        if j > 0 and plain and rng.random() < pcopy:
            cands = [i for i in plain if jobs[i]["code"] != 0] * 3 + plain
            i = rng.choice(cands)
            src = jobs[i]
            spec = dict(cls=src["cls"], name=src["name"], embed=[list(e) for e in src["embed"]],
                        copy_of=src.get("copy_of") if src.get("copy_of") is not None else i)
        else:
            embed, used = [], set()
            for k in range(j):
                if jobs[k].get("over"):
                    continue          # (its submission may be refused: nothing can be built on it)
                if rng.random() < pdep and len(embed) < 3:
                    # "direct" and "falsy" each fill one parameter of the task: at most once per job
                    hows = [h for h in EMBED if h not in used]
                    if jobs[k]["cls"] != "VTask" or jobs[k].get("copy_of") is not None:
                        hows.remove("pre_task")
                    extra = [h for h in ("direct", "list") if h in hows] * 2
                    if profile == "c04":
                        extra = [h for h in ("direct", "falsy", "nested") if h in hows]
                    how = rng.choice(hows + extra)
                    if how in ("direct", "falsy"):
                        used.add(how)
                    if profile == "c04" and how not in ("explicit", "pre_task") and rng.random() < 0.3:
                        how += "_obj"
                    embed.append([k, how])
            spec = dict(cls=rng.choice(["VTask", "VTask", "VTaskOut", "VTaskBag"]), name=f"t{j}", embed=embed, copy_of=None)
        toks = []
        for t, tot in enumerate(tokens):
            if rng.random() < 0.6:
                toks.append([t, rng.randint(1, tot)])
        # sometimes a second request on a token the job already asks for (the sum may exceed the total)
        if toks and rng.random() < ptwice:
            t, c = rng.choice(toks)
            toks.append([t, rng.randint(1, tokens[t])])
        spec["over"] = oversubscribed(tokens, toks)
        # the marker belongs to the job directory (identifier): once there, later submissions see it
        ident = spec["copy_of"] if spec.get("copy_of") is not None else j
        marker = rng.random() < pmark or any(x["marker"] for i, x in enumerate(jobs)
                                             if (x["copy_of"] if x.get("copy_of") is not None else i) == ident)
        # ... and it is there from the start of the run or not at all: a marker that appears while an earlier
        # submission of the same identifier is waiting (completion by another process; since 71b34c7 aio_start
        # looks again under the job lock and returns DONE without launching) is outside the model
        if spec.get("copy_of") is not None:
            marker = jobs[ident]["marker"]
        # a process of an earlier run may still be running for this job (never for a copy): exit code
        # retrievable or not, marker written or not when it ends (a marker that pre-exists stays)
        adopt = None
        if spec.get("copy_of") is None and rng.random() < padopt:
            code = rng.choice([None, None, 0, 1])
            adopt = dict(code=code, done=marker or (rng.random() < (0.8 if code == 0 else 0.35)))
        spec.update(toks=toks, code=1 if rng.random() < pfail else 0, marker=marker, adopt=adopt)
        jobs.append(spec)
    w = dict(tokens=tokens, jobs=jobs, seed=rng.randrange(1 << 30), pbatch=rng.choice([0.0, 0.15, 0.4]),
             pwait=rng.choice([0.0, 0.05, 0.15]))
    # which implementation of the counter token: ProcessCounterToken or the file-based CounterToken (separate
    # acquire/release code, same behaviour within one scheduler).  Drawn from a stream of its own.  A token on
    # which one job has two requests stays in-process (one token file per job: C08/C09's ground).
    krng = random.Random(w["seed"] ^ 0x70CE)
    w["tokkind"] = ["file" if krng.random() < 0.4 and not any(sum(1 for tt, _ in s["toks"] if tt == t) > 1 for s in jobs)
                    else "proc" for t in range(len(tokens))]
    # (round 6) the serializer pattern and the hand-over of an output
    uses = {k: [(j, how) for j, s in enumerate(jobs) for (kk, how) in s["embed"] if kk == k] for k in range(len(jobs))}
    single = lambda k: jobs[k].get("copy_of") is None and not any(s.get("copy_of") == k for s in jobs)  # noqa
    aspre = {k for s in jobs for (k, how) in s["embed"] if how.startswith("pre_task")}
    for k, s in enumerate(jobs):
        # VTaskLoad: the value is an unmarked configuration carrying a marked loader; consumers may take its
        # pre-tasks over (`pre_from`); it cannot be used as a pre-task or named as an explicit dependency
        if (s["cls"] in ("VTaskOut", "VTaskBag") and single(k) and not s.get("adopt") and krng.random() < 0.35
                and not any(how.split("_obj")[0] in ("explicit", "pre_task") for (_j, how) in uses[k])):
            s["cls"] = "VTaskLoad"
            for r, s2 in enumerate(jobs):
                if s2.get("copy_of") is not None:
                    continue              # (a copy follows its original: same parameters)
                group = [r] + [c for c, s3 in enumerate(jobs) if s3.get("copy_of") == r]
                for idx, e in enumerate(s2["embed"]):
                    if e[0] == k and not e[1].endswith("_obj") and e[1] != "falsy" and krng.random() < 0.6:
                        for c in group:
                            jobs[c]["embed"][idx][1] = "pre_from"
    for j, s in enumerate(jobs):
        # VTaskRelay: hands the output of its `direct` upstream on as its own output (the same object is
        # re-marked): nobody else uses that upstream
        d = [k for (k, how) in s["embed"] if how == "direct"]
        if (s["cls"] in ("VTask", "VTaskOut") and single(j) and j not in aspre and d and krng.random() < 0.5
                and not s.get("adopt")
                and jobs[d[0]]["cls"] in ("VTaskOut", "VTaskBag") and single(d[0]) and len(uses[d[0]]) == 1):
            s["cls"] = "VTaskRelay"
            # (no success marker for it: the harness writes the marker when the Job object is created, and the
            #  identifier - hence the directory - of a task that re-marks one of its parameters is not the same
            #  before and after task_outputs when pre-tasks are involved; identifiers are C01/C02's ground)
            s["marker"] = False
    # some plain tasks are collection-like: falsy as long as their `items` parameter is empty
    # a re-submission may come with the Dependency objects of the first one (same requests then)
    for s in jobs:
        root = s.get("copy_of")
        if (profile == "c06" and root is not None and jobs[root]["toks"] and not jobs[root].get("over")
                and krng.random() < 0.4):
            s["toks"] = [list(x) for x in jobs[root]["toks"]]
            s["over"] = False
            s["reuse"] = True
    # a callback of the job fails: the last processing of its watched outputs (helper thread, `doneh`), or a
    # listener of the scheduler when told about this job (`listener`); neither changes what the job is
    if profile == "c06":
        for s in jobs:
            if krng.random() < 0.08:
                s["raises"] = krng.choice(["doneh", "listener"])
    # (a copy has the class of its original; a task used as a pre-task stays a plain VTask)
    aspre = {k for s in jobs for (k, how) in s["embed"] if how.startswith("pre_task")}
    for i, s in enumerate(jobs):
        if s.get("copy_of") is None and s["cls"] == "VTask" and krng.random() < 0.25:
            group = [i] + [k for k, s2 in enumerate(jobs) if s2.get("copy_of") == i]
            if not (set(group) & aspre):
                for k in group:
                    jobs[k]["cls"] = "VTaskEmpty"
    return w


def partial_wakeups(w, t, c):
    """coverage: a release that leaves a token with units available while a job that asks more than one unit of
    it is still waiting, or that completes the units such a job waits for while the token was not empty"""
    kinds = w.get("tokkind") or ["proc"] * len(w["tokens"])
    prev = None
    for s in t["steps"]:
        av = s["snap"]["avail"]
        if prev is not None:
            for i, (a0, a1) in enumerate(zip(prev, av)):
                if a1 > a0 > 0:
                    for j, o in enumerate(s["snap"]["jobs"]):
                        if o is None or o["result"] is not None or o["launches"]:
                            continue
                        need = sum(cc for tt, cc in w["jobs"][j]["toks"] if tt == i)
                        if need > a0 and need >= 2:
                            c.count(f"release-on-nonempty-token-with-multi-unit-waiter:{kinds[i]}:" +
                                    ("enough" if need <= a1 else "still-short"))
        prev = av


def oversubscribed(tokens, toks):
    """the job asks some token for more than the token can ever give (summing its requests)"""
    tot = {}
    for t, c in toks:
        tot[t] = tot.get(t, 0) + c
    return any(v > tokens[t] for t, v in tot.items())


# ------------------------------------------------------------------------------ oracles
def oracle_rest(w, trace, report, pid="C06"):
    """the run comes to rest: the controller always finds the scheduler quiescent with nothing pending
    after finitely many deliveries (bound: maxsteps controller actions, normal runs need < 150)"""
    # the refusal at submission concerns exactly the jobs that can never start
    for k in (trace.get("refused") or {}):
        j = int(k)
        if str(trace["refused"][k]).startswith("at construction"):
            continue
        if not oversubscribed(w["tokens"], w["jobs"][j]["toks"]):
            report(f"{pid}:submission-refused-although-requests-fit",
                   f"submit() refused job {j} ({trace['refused'][k]}): its requests {w['jobs'][j]['toks']} fit the totals {w['tokens']}")
    if trace.get("foreign"):
        report(f"{pid}:dependency-check-outside-scheduler-loop",
               f"dependencychanged of job(s) {trace['foreign']} ran in a foreign thread (capacity increase of a file token): "
               f"_readyEvent.set() from there does not wake the loop")
    if trace.get("ended") != "maxsteps":
        return
    sn = last_snap(trace)
    lis = [j for j, o in enumerate(sn["jobs"]) if o is not None and o["registered"] and o["result"] is None
           and w["jobs"][j].get("raises") == "listener"]
    if lis:
        report(f"{pid}:livelock:listener-exception-restarts-job",
               f"job {lis[0]}: a listener raises while the job is started; aio_start returns WAITING, the job is READY again "
               f"and started again, for ever ({len(trace['steps'])} controller steps)")
        return
    stuck = [j for j, o in enumerate(sn["jobs"]) if o is not None and o["registered"] and o["result"] is None]
    twice = [j for j in stuck if oversubscribed(w["tokens"], w["jobs"][j]["toks"]) and sn["jobs"][j]["launches"] == 0]
    starts = sum(1 for s in trace["steps"] if s["act"][0] == "deliver" and any(op == "lockin" for (_, op) in s["act"][1]))
    if twice:
        report(f"{pid}:livelock:same-token-twice",
               f"job {twice[0]} asks token(s) {w['jobs'][twice[0]]['toks']} (totals {w['tokens']}): every request fits, their sum "
               f"does not; {starts} start attempts in {len(trace['steps'])} controller steps, never launched, the run never comes to rest")
    else:
        report(f"{pid}:livelock:run-does-not-come-to-rest",
               f"{len(trace['steps'])} controller steps ({starts} start attempts) without reaching a state at rest; jobs without result: {stuck}")



def resolve(trace, k):
    """the job whose coroutine stands for submission k (k itself unless submit() returned another job)"""
    seen = 0
    while trace["dup"][k] is not None and trace["dup"][k] >= 0 and seen < 20:
        k = trace["dup"][k]
        seen += 1
    return k


def pre_init_upstream(w, trace, k, seen=None):
    """the tasks held by the pre-tasks and init tasks of task k (searched by the code before it stops at k)"""
    seen = set() if seen is None else seen
    out = set()
    for (k2, how) in w["jobs"][k]["embed"]:
        base = how[:-4] if how.endswith("_obj") else how
        if base in ("pre", "pre_task", "init", "pre_from"):
            r = resolve(trace, k2)
            out.add(r)
            if r not in seen:
                seen.add(r)
                out |= pre_init_upstream(w, trace, r, seen)
    return out


def falsy_task(trace, k):
    """submission k is a task object whose truth value is False"""
    f = trace.get("falsy") or {}
    return bool(f.get(k, f.get(str(k), False)))


def hidden_by(spec):
    """the job uses one of the constructions that put a task mark over parameters of another origin"""
    hows = {h.split("_obj")[0] for (_k, h) in spec["embed"]}
    if "late" in hows:
        return "task-not-submitted-yet"
    if hows & {"copydep", "copydep_in"}:
        return "hidden-by-copied-mark"
    if "out_holder" in hows:
        return "hidden-by-output-mark"
    return None


def upstream(w, trace, j):
    """the jobs submission j depends on by its parameters: the tasks embedded in them"""
    return sorted({resolve(trace, k) for (k, how) in w["jobs"][j]["embed"]})


def upstream_allowed(w, trace, j):
    """... plus what may legitimately be added: the tasks held by the pre-tasks / init tasks of an
    embedded task object (the code searches them before it stops at that task)"""
    out = set()
    for (k, how) in w["jobs"][j]["embed"]:
        r = resolve(trace, k)
        out.add(r)
        if how != "explicit":
            out |= pre_init_upstream(w, trace, r)
    return out


def registered_upstream(trace, j):
    """job dependencies as registered by submit() (an observable: job.dependencies)"""
    return sorted({d[1] for d in (trace["deps"][j] or []) if d[0] == "job"})


def last_snap(trace):
    return trace["steps"][-1]["snap"] if trace["steps"] else None


def oracle_c06(w, trace, report):
    """final state truthful and stable; job.wait() returns it; wait() only after all final; nothing
    sleeps for ever.  report(key, what)"""
    steps = trace["steps"]
    njobs = len(w["jobs"])
    final = [None] * njobs
    resub = any(w["jobs"][j].get("copy_of") is not None and trace["dup"][j] is None and trace["deps"][j] is not None
                for j in range(njobs))
    prev_wait = "none"
    for si, s in enumerate(steps):
        sn = s["snap"]
        for j, o in enumerate(sn["jobs"]):
            if o is None or not o["registered"]:
                continue
            spec = w["jobs"][j]
            # stable
            if final[j] is not None and o["state"] != final[j]:
                report(f"C06:final-state-changed:{final[j]}->{o['state']}",
                       f"job {j} was {final[j]} and is {o['state']} after step {si}")
                final[j] = o["state"]
            if final[j] is None and o["state"] in ("DONE", "ERROR"):
                final[j] = o["state"]
            # truthful, and what waiting on the job returns
            ad = spec.get("adopt")
            if o["result"] is not None:
                if o["result"] not in ("DONE", "ERROR"):
                    report(f"C06:wait-returns-nonfinal:{o['result']}", f"job {j}: job.wait() = {o['result']}")
                else:
                    if ad:      # the process of an earlier run decides: exit code 0, or marker written
                        should = "DONE" if (ad["code"] == 0 or ad["done"]) else "ERROR"
                    else:
                        should = "DONE" if (spec["marker"] or (o["launches"] >= 1 and spec["code"] == 0)) else "ERROR"
                    if o["result"] != should:
                        report(f"C06:final-untruthful:{should}-reported-{o['result']}" + (":adopted-process" if ad else ""),
                               f"job {j}: marker={spec['marker']} adopted={ad} launches={o['launches']} code={spec['code']} "
                               f"but job.wait() = {o['result']}")
                if o["state"] != o["result"]:
                    report(f"C06:state-differs-from-wait:{o['result']}->{o['state']}",
                           f"job {j}: job.wait() = {o['result']}, job.state = {o['state']}")
            if ad and o["launches"] > 0:
                report("C06:adopted-job-relaunched", f"job {j} has a running process of an earlier run and was launched again")
            if o["launches"] > 1:
                report("C06:launched-twice", f"job {j} launched {o['launches']} times")
        if sn["unfinished"] < 0:
            report("C06:unfinished-negative" + (":after-resubmit" if resub else ""),
                   f"unfinishedJobs = {sn['unfinished']} after step {si}")
        # wait() only once every submitted job is final
        if sn["wait"] in ("returned", "raised") and (s["act"][0] in ("wait", "exit") or prev_wait == "blocked"):
            notfinal = [j for j, o in enumerate(sn["jobs"]) if o is not None and o["registered"] and o["result"] is None]
            if notfinal:
                report("C06:wait-early" + (":after-resubmit" if resub else ""),
                       f"experiment.wait() completed ({sn['wait']}) while jobs {notfinal} are not final")
        prev_wait = sn["wait"]
        # never hanging: at quiescence with nothing pending nothing may still be asleep
        if not sn["pending"]:
            asleep = sorted({o["state"] for o in sn["jobs"] if o is not None and o["registered"] and o["result"] is None})
            if asleep:
                reused = any(o is not None and o["registered"] and o["result"] is None and w["jobs"][jj].get("reuse")
                             for jj, o in enumerate(sn["jobs"]))
                lost = any(jj < len(sn["jobs"]) and sn["jobs"][jj] is not None and sn["jobs"][jj]["result"] is None
                           for (jj, _op) in (trace.get("lost") or []))
                report("C06:hang:helper-thread-exception-never-delivered" if lost else
                       "C06:hang:reused-dependency-object-never-ready" if reused else "C06:hang:jobs-asleep:" + "+".join(asleep),
                       f"after step {si}: nothing pending, nothing ready, jobs without final state: {asleep}")
            elif sn["wait"] == "blocked":
                report("C06:hang:wait-blocked-all-final" + (":after-resubmit" if resub else ""),
                       f"after step {si}: every job is final, experiment.wait() still blocked "
                       f"(unfinishedJobs={sn['unfinished']})")
            elif sn["unfinished"] != 0 and not asleep:
                report("C06:unfinished-nonzero-at-rest" + (":after-resubmit" if resub else ""),
                       f"after step {si}: every job final, unfinishedJobs = {sn['unfinished']}")


def oracle_c04(w, trace, report):
    """launch => every upstream job (as intended by the parameters) is DONE at that moment"""
    for e in trace.get("events", []):
        j = e["launch"]
        for k in upstream(w, trace, j):
            stt = e["states"][k]
            if stt != "DONE":
                how = sorted({h for (kk, h) in w["jobs"][j]["embed"] if resolve(trace, kk) == k})
                dupobj = any(h.endswith("_obj") and trace["dup"][kk] is not None for (kk, h) in w["jobs"][j]["embed"]
                             if resolve(trace, kk) == k)
                collected = ["job", k] in (trace["deps"][j] or [])
                key = "C04:launched-before-upstream-done:" + ("not-collected" if not collected else "collected")
                if not collected and hidden_by(w["jobs"][j]):
                    key += ":" + hidden_by(w["jobs"][j])
                elif not collected and any(falsy_task(trace, kk) for (kk, _h) in w["jobs"][j]["embed"] if resolve(trace, kk) == k):
                    key += ":falsy-task"
                elif dupobj and not collected:
                    key += ":duplicate-object"
                elif not collected:
                    key += ":" + "+".join(how)
                report(key, f"job {j} launched while upstream job {k} is {stt} (embedded as {how})")


def oracle_c04_deps(w, trace, report):
    """the job dependencies registered by submit() = the upstream tasks embedded in the parameters"""
    for j, spec in enumerate(w["jobs"]):
        deps = trace["deps"][j]
        if deps is None:
            continue
        got = sorted({d[1] for d in deps if d[0] == "job"})
        # the job object an upstream submission stands for (a duplicate stands for the registered job)
        want = upstream(w, trace, j)
        if got != want:
            missing = [k for k in want if k not in got]
            allowed = upstream_allowed(w, trace, j)
            extra = [k for k in got if k not in allowed]
            hows = sorted({h for (kk, h) in spec["embed"] if resolve(trace, kk) in missing})
            dupobj = any(h.endswith("_obj") and trace["dup"][kk] is not None for (kk, h) in spec["embed"]
                         if resolve(trace, kk) in missing)
            falsy = any(falsy_task(trace, kk) for (kk, _h) in spec["embed"] if resolve(trace, kk) in missing)
            if missing:
                key = "C04:dependency-missing:" + (hidden_by(spec) or ("falsy-task" if falsy else "duplicate-object" if dupobj
                                                                      else "+".join(hows)))
                report(key, f"job {j}: upstream {missing} (embedded as {hows}) not among the registered dependencies {got}")
            if extra:
                viadup = any(h.endswith("_obj") and trace["dup"][kk] is not None for (kk, h) in spec["embed"])
                viafalsy = any(falsy_task(trace, kk) for (kk, _h) in spec["embed"])
                report("C04:dependency-extra" + (":parameters-of-falsy-task" if viafalsy else
                                                 ":parameters-of-duplicate-object" if viadup else ""), f"job {j}: registered dependencies {extra} are not upstream tasks of its parameters")


def g_value(v):
    if v[0] == "atom":
        return "VAtom"
    if v[0] == "ref":
        return f"(VRef {v[1]})"
    if v[0] == "list":
        return "(VList " + glist(g_value(x) for x in v[1]) + ")"
    if v[0] == "dict":
        return "(VDict " + glist(f"({g_value(k)}, {g_value(x)})" for (k, x) in v[1]) + ")"
    raise ValueError(v)


def g_dcase(heapdump, observed, literal=False, copyfix=False):
    nodes = []
    for n in heapdump["nodes"]:
        nodes.append(f"{{| n_fields := {glist(g_value(v) for v in n['fields'])}; n_pre := {glist(map(str, n['pre']))}; "
                     f"n_init := {glist(map(str, n['init']))}; n_task := {gopt(n['task'], str)}; "
                     f"n_jobof := {gopt(n['jobof'], str)}; n_loaded := {gbool(n['loaded'])}; n_sub := None |}}")
    return (f"{{| d_heap := {glist(nodes)}; d_root := 0; d_explicit := {glist(map(str, heapdump['explicit']))}; "
            f"d_observed := {glist(map(str, observed))}; "
            f"d_falsy := {glist(str(i) for i, n in enumerate(heapdump['nodes']) if n.get('falsy'))}; d_literal := {gbool(literal)}; "
            f"d_copied := {glist(str(i) for i, n in enumerate(heapdump['nodes']) if n.get('copied'))}; d_copyfix := {gbool(copyfix)} |}}")


DEPS_HEADER = ("From Coq Require Import List Bool.\nFrom XV Require Import model.Deps corr.DepsCorr.\n"
               "Import ListNotations.\n")


def effective_failed_ancestor(w, trace, res, j, memo):
    """some chain of registered job dependencies k -> ... -> j where k ended ERROR and no job strictly between (nor j) had
    already succeeded in an earlier run (a job whose marker pre-existed is DONE whatever its inputs)"""
    if j in memo:
        return memo[j]
    memo[j] = False
    for k in registered_upstream(trace, j):
        cut = w["jobs"][k]["marker"] or w["jobs"][k].get("adopt")
        if res[k] == "ERROR" or (not cut and effective_failed_ancestor(w, trace, res, k, memo)):
            memo[j] = True
    return memo[j]


def oracle_c07(w, trace, report):
    sn = last_snap(trace)
    if sn is None:
        return
    njobs = len(w["jobs"])
    res = [None if o is None or not o["registered"] else o["result"] for o in sn["jobs"]] + [None] * njobs
    memo = {}
    for j, o in enumerate(sn["jobs"]):
        if o is None or not o["registered"]:
            continue
        spec = w["jobs"][j]
        ups = registered_upstream(trace, j)
        if spec["marker"] or spec.get("adopt"):
            continue                 # decided by an earlier run (marker) or by the process it left running
        # (the upstream tasks as the parameters name them, whatever submit() registered: a dependency lost at
        #  extraction lets the failure through)
        named = [k for k in upstream(w, trace, j) if res[k] == "ERROR"]
        if named and (o["launches"] > 0 or o["result"] == "DONE"):
            hows = sorted({h for (kk, h) in spec["embed"] if resolve(trace, kk) in named})
            report("C07:launched-despite-failed-task-in-parameters:" + "+".join(hows),
                   f"job {j}: task(s) {named} of its parameters (embedded as {hows}) ended ERROR; it was launched "
                   f"{o['launches']} time(s), result {o['result']}; registered dependencies {ups}")
        if effective_failed_ancestor(w, trace, res, j, memo):
            if o["launches"] > 0:
                report("C07:launched-despite-failed-ancestor", f"job {j} was launched; an ancestor ended ERROR")
            if o["result"] is not None and (o["result"] != "ERROR" or o["failure"] != "DEPENDENCY"):
                report(f"C07:dependent-not-cancelled:{o['result']}:{o['failure']}",
                       f"job {j} has a failed ancestor and ended {o['result']} / {o['failure']}")
        elif o["result"] is not None and all(res[k] == "DONE" for k in ups):
            should = "DONE" if spec["code"] == 0 else "ERROR"
            if o["launches"] != 1 or o["result"] != should:
                report(f"C07:independent-affected:{should}-got-{o['result']}-launches-{o['launches']}",
                       f"job {j} (upstream all DONE) launches={o['launches']} result={o['result']}")
    # a job whose process is running is not touched by the failure of one of its inputs
    for si, s in enumerate(trace["steps"]):
        for j, o in enumerate(s["snap"]["jobs"]):
            if o is not None and o["registered"] and w["jobs"][j].get("adopt") and o["state"] == "ERROR" \
                    and [j, "adopt"] in s["snap"]["pending"]:
                report("C07:running-job-shown-ERROR-by-failed-dependency",
                       f"after step {si} job {j} is ERROR while the process an earlier run left for it is still running")
    # at rest (nothing ready, nothing pending): every dependent of a failed job has been cancelled, every
    # other job has run to completion, and leaving the experiment is not blocked
    for si, s in enumerate(trace["steps"]):
        sn = s["snap"]
        if sn["pending"]:
            continue
        res_now = [None if o is None or not o["registered"] else o["result"] for o in sn["jobs"]] + [None] * njobs
        memo_now = {}
        for j, o in enumerate(sn["jobs"]):
            if o is None or not o["registered"] or o["result"] is not None:
                continue
            if w["jobs"][j].get("adopt"):
                report(f"C07:job-not-completed-at-rest:{o['state']}:adopted-process",
                       f"after step {si} nothing is pending; job {j} (process of an earlier run has ended) is {o['state']} for ever")
            elif effective_failed_ancestor(w, trace, res_now, j, memo_now):
                report(f"C07:dependent-of-failed-job-not-cancelled-at-rest:{o['state']}",
                       f"after step {si} nothing is pending; job {j} has a failed ancestor and is {o['state']} for ever")
            else:
                report(f"C07:job-not-completed-at-rest:{o['state']}",
                       f"after step {si} nothing is pending; job {j} (no failed ancestor) is {o['state']} for ever")
        if sn["wait"] == "blocked":
            report("C07:exit-blocked-at-rest",
                   f"after step {si} nothing is pending and leaving the experiment is blocked "
                   f"(unfinishedJobs={sn['unfinished']}): neither failure nor success is reported")
    # leaving the experiment reports failure iff some job failed (looked at when wait() completes),
    # and only once every submitted job has run to completion or has been cancelled
    prev_wait = "none"
    for s in trace["steps"]:
        sn = s["snap"]
        if sn["wait"] in ("returned", "raised") and (s["act"][0] in ("wait", "exit") or prev_wait == "blocked"):
            anyerr = any(o is not None and o["registered"] and o["result"] == "ERROR" for o in sn["jobs"])
            allfinal = all(o is None or not o["registered"] or o["result"] is not None for o in sn["jobs"])
            if not allfinal:
                running = [j for j, o in enumerate(sn["jobs"]) if o is not None and o["registered"] and o["result"] is None]
                report("C07:experiment-left-before-jobs-completed",
                       f"leaving / waiting on the experiment completed ({sn['wait']}) while jobs {running} had not run to completion")
            if sn["wait"] == "raised" and not anyerr and allfinal:
                report("C07:failure-reported-without-failed-job", "FailedExperiment raised, no job ended ERROR")
            # (since ccf82b1 a failed job that has been submitted again is judged by that later submission)
            ids = idents(w)
            last = [j for j, o in enumerate(sn["jobs"]) if o is not None and o["registered"] and o["result"] == "ERROR"
                    and not any(ids[y] == ids[j] and oy is not None and oy["registered"]
                                for y, oy in enumerate(sn["jobs"]) if y > j)]
            if sn["wait"] == "returned" and last:
                report("C07:failure-not-reported", f"wait() returned normally although job(s) {last} ended ERROR "
                                                   f"(and were not submitted again)")
        prev_wait = sn["wait"]


# ------------------------------------------------------------------------------ Gallina
def g_dep(d):
    if d[0] == "job":
        return f"DJob {d[1]}%nat"
    if d[0] == "tok":
        return f"DTok {d[1]}%nat {d[2]}%nat"
    raise ValueError(d)


def idents(w):
    """identifier classes: a copy has the identifier of its source"""
    return [(spec["copy_of"] if spec.get("copy_of") is not None else j) for j, spec in enumerate(w["jobs"])]


OPK = {"lockin": "OLockIn", "lockout": "OLockOut", "proc": "OProc", "doneh": "ODoneH", "adopt": "OAdopt"}
WOBS = {"none": "ONone", "blocked": "OBlocked", "returned": "OReturned", "raised": "ORaised"}


def g_snap(sn):
    js = []
    for o in sn["jobs"]:
        if o is None:
            js.append("None")
        else:
            js.append(f"(Some {{| o_state := {o['state']}; o_launches := {o['launches']}%nat; "
                      f"o_result := {gopt(o['result'])} |}})")
    return (f"{{| sn_jobs := {glist(js)}; sn_unfinished := {gz(sn['unfinished'])}; "
            f"sn_avail := {glist(str(a) + '%nat' for a in sn['avail'])}; sn_wait := {WOBS[sn['wait']]} |}}")


def g_action(a):
    if a[0] == "submit":
        return f"ASubmit {a[1]}%nat"
    if a[0] == "deliver":
        return "ADeliver " + glist(f"({j}%nat, {OPK[op]})" for (j, op) in a[1])
    return "AWait"


def renderable(w, trace):
    if trace.get("error"):
        return False
    # two dependencies of one job on one token: the result of a notification depends on the order in
    # which the token's *set* of dependents is iterated (not recorded, the model uses index order)
    for j, spec in enumerate(w["jobs"]):
        if trace["deps"][j] is not None and len({t for t, _ in spec["toks"]}) < len(spec["toks"]):
            return False
    for j, d in enumerate(trace["deps"]):
        if d is not None and any(x[0] == "other" or (x[0] == "job" and x[1] < 0) for x in d):
            return False
    if trace.get("lost") or (trace.get("ended") == "maxsteps" and any(s.get("raises") for s in w["jobs"])):
        return False                  # (reported by the oracle: the tree drops the exception / restarts for ever)
    for s in trace["steps"]:
        if s["act"][0] == "grow":
            return False              # (the model has no change of capacity)
        if s["snap"]["wait"] not in WOBS:
            return False
        if any(o is not None and o["result"] is not None and o["result"].startswith("EXC") for o in s["snap"]["jobs"]):
            return False
    return True


def g_adopt(a):
    if not a:
        return "None"
    return f"(Some ({gopt(a['code'], gz)}, {gbool(a['done'])}))"


def g_case(w, trace, fx):
    ids = idents(w)
    # (refused by Scheduler.submit; a configuration refused at construction never reached the scheduler)
    refused = {str(k) for k, why in (trace.get("refused") or {}).items() if not str(why).startswith("at construction")}
    jobs = []
    for j, spec in enumerate(w["jobs"]):
        deps = trace["deps"][j] or []
        if str(j) in refused:
            # the Job object of a refused submission is gone: its requests are those of the description
            deps = [["tok", t, c] for t, c in spec.get("toks", [])]
        jobs.append(f"{{| j_deps := {glist(g_dep(d) for d in deps)}; j_code := {gz(spec['code'])}; "
                    f"j_marker := {gbool(spec['marker'])}; j_ident := {ids[j]}%nat; j_adopt := {g_adopt(spec.get('adopt'))} |}}")
    W = f"{{| w_jobs := {glist(jobs)}; w_tokens := {glist(str(t) + '%nat' for t in w['tokens'])} |}}"
    F = (f"{{| fx2 := {gbool(fx[0])}; fx3 := {gbool(fx[1])}; fx4 := {gbool(fx[2])}; fx5 := true; "
         f"fx6 := {gbool(fx[3])}; fx7 := {gbool(fx[4])} |}}")
    # (a refused submission changes nothing in the scheduler: it is not a step of the model)
    tr = glist(f"({g_action(s['act'])}, {g_snap(s['snap'])})" for s in trace["steps"] if s["act"][0] != "refused")
    R = glist(f"{int(k)}%nat" for k in sorted(refused, key=int))
    return f"{{| c_w := {W}; c_fx := {F}; c_trace := {tr}; c_refused := {R} |}}"


CORR_HEADER = ("From Coq Require Import ZArith List Bool.\nFrom XV Require Import model.Sched corr.SchedCorr.\n"
               "Import ListNotations.\nOpen Scope Z_scope.\n")


def probe_fixes(traces4):
    """which of the repairs does the implementation contain (read off the directed runs)"""
    t2, t3, t4, t6 = traces4
    f2 = not any(s["snap"]["unfinished"] < 0 for s in t2["steps"])
    f3 = not any(o is not None and o["result"] == "READY" for s in t3["steps"] for o in s["snap"]["jobs"])
    # J2 has been put back to sleep (WAITING, nothing pending for it) right after its aborted start
    f4 = True
    for s in t4["steps"]:
        if s["act"] == ["deliver", [[1, "lockout"]]]:
            f4 = s["snap"]["jobs"][1]["state"] != "WAITING"
    # the job whose old process is still running is shown ERROR when its input has failed
    f6 = not any(s["snap"]["jobs"][1] is not None and s["snap"]["jobs"][1]["state"] == "ERROR" and
                 [1, "adopt"] in s["snap"]["pending"] for s in t6["steps"])
    # leaving the experiment after the failed job has been submitted again and has succeeded: no failure reported
    sn2 = last_snap(t2)
    f7 = bool(sn2) and sn2["wait"] == "returned"
    return (f2, f3, f4, f6, f7)


def sample(w, trace):
    sn = last_snap(trace)
    return dict(tokens=w["tokens"], jobs=[dict(deps=trace["deps"][j], toks=s["toks"], code=s["code"], marker=s["marker"],
                                                copy_of=s.get("copy_of"), adopt=s.get("adopt")) for j, s in enumerate(w["jobs"])],
                schedule=[s["act"] for s in trace["steps"]][:12],
                final=None if sn is None else [None if o is None else [o["state"], o["result"], o["launches"]] for o in sn["jobs"]],
                wait=None if sn is None else sn["wait"])


# ------------------------------------------------------------------------------ the check run
def run_sched_check(c, profile, oracles, n_quick, n_thorough, golden_name, rule, props=True):
    """Common body of the three scheduler checks.  oracles: list of oracle functions."""
    import copy
    from vcommon import run_impl, COQ, ROOT, InternalError
    c.rule = rule
    if "model/Sched.v" in (COQ / "_CoqProject").read_text():
        c.build()
    else:                                   # files not registered yet: compiled by hand, gate only
        c.gate()
    if props:
        c.props()
    cases = []
    if c.replay:
        rp = json.load(open(c.replay))["replay"]
        if "workload" in rp:
            cases.append(rp["workload"])
        n = 0
    else:
        n = n_quick if c.quick else n_thorough
    witnesses = [copy.deepcopy(x) for x in WITNESSES]
    gold = []
    gp = ROOT / "golden" / golden_name
    if gp.exists() and not c.replay:
        gold = json.load(open(gp))
    cases = witnesses + cases + gold + [gen_workload(c.rng, profile) for _ in range(n)]
    scratch = str(c.scratch())
    for w in cases:
        w["scratch"] = scratch
        if profile == "c04":
            w["dump_heaps"] = True
    traces = []
    B = 400
    for i in range(0, len(cases), B):
        traces += run_impl("drive_c06.py", dict(cases=cases[i:i + B]), timeout=1500)
    fx = probe_fixes(traces[:4])
    # does the tree still test the truth value of the task mark (W_FALSY: the falsy task is not collected)
    literal = ["job", 0] not in (traces[4]["deps"][1] or [])
    c.extra["task_mark_tested_by_truth_value"] = literal
    # is the recorded status of a Dependency object kept when it is attached to a new job (W_REUSE sleeps)
    sn5 = last_snap(traces[5])
    stale = bool(sn5 and sn5["jobs"][1] is not None and sn5["jobs"][1]["result"] is None and sn5["jobs"][1]["state"] == "WAITING"
                 and not sn5["pending"])
    c.extra["dependency_status_kept_on_reuse"] = stale
    # are the parameters of a configuration whose mark was copied searched (W_COPYDEP: c0 collected)
    copyfix = ["job", 0] in (traces[6]["deps"][2] or [])
    c.extra["parameters_searched_under_a_copied_mark"] = copyfix
    c.extra["repairs_present_in_implementation"] = dict(resubmit_registers=fx[0], ready_only_when_notstarted=fx[1],
                                                        aborted_start_keeps_ready=fx[2],
                                                        failed_dependency_spares_running_job=fx[3],
                                                        resubmission_drops_recorded_failure=fx[4])
    render = []
    for w, t in zip(cases, traces):
        c.evaluations += 1
        w.pop("scratch", None)
        w.pop("dump_heaps", None)
        if t.get("error"):
            if "timeout" in t["error"] or "stuck" in t["error"]:
                c.violation("harness:run-did-not-complete", "a controlled run did not complete: " + t["error"][:200],
                            dict(workload=w, error=t["error"]))
            else:
                raise InternalError("driver error: " + t["error"])
            continue
        nj = len(w["jobs"])
        c.count(f"jobs={nj}")
        c.count(f"tokens={len(w['tokens'])}")
        for k in (w.get("tokkind") or ["proc"] * len(w["tokens"])):
            c.count("token-kind:" + k)
        partial_wakeups(w, t, c)
        c.count(f"steps={min(len(t['steps']) // 10 * 10, 90)}+")
        for j, spec in enumerate(w["jobs"]):
            c.count("exit:" + ("0" if spec["code"] == 0 else "nonzero"))
            if spec.get("raises") and t["deps"][j] is not None:
                c.count("callback-raises:" + spec["raises"])
            if spec["marker"]:
                c.count("marker")
            if falsy_task(t, j) and t["deps"][j] is not None:
                c.count("falsy-task" + (":embedded" if any(resolve(t, kk) == j for s2 in w["jobs"] for (kk, _h) in s2["embed"]) else ""))
            if spec.get("over"):
                c.count("requests-exceed-token:" + ("refused" if str(j) in {str(k) for k in t.get("refused", {})} else "accepted"))
            if len({tt for tt, _ in spec["toks"]}) < len(spec["toks"]):
                c.count("two-requests-on-one-token")
            if spec.get("adopt"):
                c.count("adopted-process:code=" + str(spec["adopt"]["code"]) + ":done=" + str(spec["adopt"]["done"]))
            if spec.get("copy_of") is not None:
                c.count("copy:" + ("duplicate" if t["dup"][j] is not None else "resubmission" if t["deps"][j] is not None else "unsubmitted"))
            for (k, how) in spec["embed"]:
                c.count("embed:" + how)
            for d in (t["deps"][j] or []):
                c.count("dep:" + d[0])
        for s in t["steps"]:
            c.count("act:" + s["act"][0] + (":batch" if s["act"][0] == "deliver" and len(s["act"][1]) > 1 else ""))
        sn = last_snap(t)
        if sn:
            c.count("end:wait=" + sn["wait"])
            for o in sn["jobs"]:
                if o is not None and o["registered"]:
                    c.count("final:" + str(o["result"]) + (":dep" if o["failure"] == "DEPENDENCY" else ""))
        aborted = any(s["act"][0] == "deliver" and any(op == "lockout" for (_, op) in s["act"][1]) and
                      any(o is not None and o["state"] in ("WAITING", "READY") and o["launches"] == 0 and
                          [jj, "lockin"] not in s["snap"]["pending"] for jj, o in enumerate(s["snap"]["jobs"]))
                      for s in t["steps"])
        if aborted:
            c.count("aborted-start")
        if nj >= 2 and (any(t["deps"][j] for j in range(nj) if t["deps"][j])):
            c.nontrivial.add(json.dumps([w["tokens"], w["jobs"], [s["act"] for s in t["steps"]]], sort_keys=True))

        def report(key, what, w=w, t=t):
            c.violation(key, what, dict(workload=dict(w, schedule=[s["act"] for s in t["steps"]], then_random=False),
                                        what=what, final=sample(w, t)))

        for orc in oracles:
            if profile != "c06" and w.get("jobs") and any(s2.get("reuse") for s2 in w["jobs"]):
                break                     # (W_REUSE is only a probe outside C06: the sleeping job is C06's finding)
            orc(w, t, report)
        if any(s2.get("reuse") and t["deps"][jj] is not None for jj, s2 in enumerate(w["jobs"])):
            c.count("reused-dependency-objects")
        if renderable(w, t) and not (stale and any(s2.get("reuse") for s2 in w["jobs"])):
            render.append((w, t))
        else:
            c.count("not-rendered")
    c.samples = [sample(w, t) for (w, t) in render[4:7]]
    bad = c.corr_shards("trace", CORR_HEADER, render, lambda p: g_case(p[0], p[1], fx), "check_case", shard=100)
    if profile == "c04":
        dcases = []
        for w, t in zip(cases, traces):
            if t.get("error"):
                continue
            for j, hd in enumerate(t.get("heaps") or []):
                if hd is None or t["deps"][j] is None:
                    continue
                if any(v[0] == "other" for n in hd["nodes"] for v in n["fields"]) or any(
                        n["jobof"] == -1 for n in hd["nodes"]) or -1 in hd["explicit"]:
                    c.count("heap-not-rendered")
                    continue
                obs = sorted({d[1] for d in t["deps"][j] if d[0] == "job"})
                dcases.append((hd, obs, w, j))
                c.count(f"heap-nodes={min(len(hd['nodes']), 12)}")
        badd = c.corr_shards("deps", DEPS_HEADER, dcases, lambda p: g_dcase(p[0], p[1], literal, copyfix), "check_deps", shard=400)
        c.extra["disagreeing_dependency_sets"] = [dict(job=dcases[i][3], observed=dcases[i][1], heap=dcases[i][0],
                                                       workload=dcases[i][2]) for i in badd[:3]]
    c.extra["disagreeing_cases"] = [sample(*render[i]) for i in bad[:3]]
    c.extra["disagreeing_workloads"] = [dict(render[i][0], schedule=[s["act"] for s in render[i][1]["steps"]]) for i in bad[:3]]
    c.level_assumptions = [
        "asyncio runs a callback / a coroutine up to its next await without pre-emption (atomic blocks of the model); "
        "helper threads of asyncThreadcheck are replaced by controlled completions; the job process is a stand-in "
        "whose exit code is planned (FakeJob: real Job, real registration/aio_submit/aio_start/dependencychanged/"
        "Dependency.check/ProcessCounterToken)",
        "the order in which a job's dependency set is iterated is recorded from the run and is an input of the model"]
    return cases, traces, bad


# ------------------------------------------------------------------------------ real job processes (round 6)
LEAVE_OK = ("exit:0", "return")
LEAVE_EXIT = ["exit:0", "return", "exit:1", "exit:3", "exit:255", "exit:256", "exit:512", "exit:768", "exit:-256",
              "exit:65536", "status:exit 1", "status:exit 2", "raise", "text"]


def run_proc_probes(c, pid, payloads):
    """Directed probes with real job processes (drive_procs.py): every way of leaving the task body through the
    local launcher or the Slurm launcher (fake sbatch/srun/sacct of the tree, sacct with or without step lines).
    The job is DONE exactly when the body returned or left with status 0; the job that depends on it is launched
    exactly then; the independent job runs; leaving the experiment raises iff some job failed."""
    import json as _json
    from vcommon import run_impl
    if c.replay:
        rp = _json.load(open(c.replay))["replay"]
        payloads = [rp["probe"]] if "probe" in rp else []
    from concurrent.futures import ThreadPoolExecutor

    def conclusive(o):
        # (under load the fake sbatch gives up on its lock after 2 s: the job is then ERROR without having run)
        return (not o.get("error")) and any(j["started"] and j["how"] not in LEAVE_OK for j in o["jobs"].values())

    def attempt(pl):
        o = None
        for _try in range(3):
            try:
                o = run_impl("drive_procs.py", pl, timeout=400)
            except Exception as e:  # noqa
                o = dict(error=str(e)[-300:], crashed=True)
            if conclusive(o):
                break
        return o

    with ThreadPoolExecutor(max_workers=4) as ex:
        results = list(ex.map(attempt, payloads))
    for pl, o in zip(payloads, results):
        c.evaluations += 1
        tag = pl["mode"] + (":" + pl.get("sacct", "plain") if pl["mode"] == "slurm" else "")
        c.count("probe:" + tag)
        if o.get("crashed"):
            c.violation("harness:run-did-not-complete", f"the real-process probe {tag} did not complete: {o['error']}",
                        dict(probe=pl))
            continue
        if o.get("error"):
            c.violation("harness:run-did-not-complete", f"the real-process probe {tag} failed: {o['error'][-300:]}", dict(probe=pl))
            continue

        def report(key, what, pl=pl, o=o):
            c.violation(key, what, dict(probe=pl, what=what, observed=o))

        anyfail = False
        for n, j in o["jobs"].items():
            how = j["how"]
            c.count("leave:" + how.split(" ")[0])
            ok = how in LEAVE_OK
            anyfail = anyfail or not ok
            cls = "multiple-of-256" if (how.startswith("status:") or (how.startswith("exit:") and int(how[5:]) % 256 == 0
                                                                        and int(how[5:]) != 0)) else "nonzero"
            a = o["afters"]["a" + n[1:]]
            if not j["started"]:
                c.count("probe-job-not-run:" + tag)      # (not launched by the fake batch system: says nothing)
                if pl["mode"] != "slurm":
                    report(f"{pid}:probe:{tag}:job-not-run", f"the job that leaves with `{how}` was not run")
                continue
            if ok and j["state"] != "DONE":
                report(f"{pid}:probe:{tag}:successful-job-not-DONE", f"body left with `{how}`: job state {j['state']}")
            if not ok and j["state"] != "ERROR":
                report(f"{pid}:probe:{tag}:failed-job-ends-{j['state']}:{cls}",
                       f"body left with `{how}` (failure; .failed written: {j['failed_file']}, .done: {j['done_file']}): "
                       f"job state {j['state']}")
            if not ok and a["started"]:
                report(f"{pid}:probe:{tag}:dependent-of-failed-job-launched:{cls}",
                       f"the job that depends on the job that left with `{how}` was launched (its state: {a['state']})")
            if not ok and a["state"] != "ERROR":
                report(f"{pid}:probe:{tag}:dependent-of-failed-job-ends-{a['state']}:{cls}",
                       f"the job that depends on the job that left with `{how}` ended {a['state']}")
            if ok and (not a["started"] or a["state"] != "DONE"):
                report(f"{pid}:probe:{tag}:dependent-of-successful-job-not-run",
                       f"the job that depends on the job that left with `{how}`: started={a['started']} state={a['state']}")
        al = o.get("alone")
        if not al or not al["started"] or al["state"] != "DONE":
            report(f"{pid}:probe:{tag}:independent-job-not-run", f"the independent job: {al}")
        if o["raised"] != anyfail:
            report(f"{pid}:probe:{tag}:exit-reports-" + ("success-although-a-job-failed" if anyfail else "failure-although-none-failed"),
                   f"leaving the experiment raised={o['raised']}; some job failed={anyfail}")


def run_block_probes(c, pid, payloads):
    """Successive `with experiment(...)` blocks in one process sharing a token object (drive_procs.py, mode blocks):
    every job exits with status 0: it is DONE, no block raises FailedExperiment, the token is whole at the end."""
    import json as _json
    from concurrent.futures import ThreadPoolExecutor
    from vcommon import run_impl
    if c.replay:
        rp = _json.load(open(c.replay))["replay"]
        payloads = [rp["probe"]] if rp.get("probe", {}).get("mode") == "blocks" else []

    def attempt(pl):
        try:
            return run_impl("drive_procs.py", pl, timeout=400)
        except Exception as e:  # noqa
            return dict(error=str(e)[-300:], blocks=[])

    with ThreadPoolExecutor(max_workers=4) as ex:
        results = list(ex.map(attempt, payloads))
    for pl, o in zip(payloads, results):
        c.evaluations += 1
        tag = f"blocks:{pl.get('token', 'proc')}-token"
        c.count(f"probe:{tag}:{pl.get('nblocks')}x{pl.get('per')}")
        if o.get("error"):
            c.violation(f"{pid}:probe:{tag}:run-did-not-complete", f"successive experiments sharing a token: {o['error'][-400:]}",
                        dict(probe=pl, observed=o))
            continue
        for b, rec in enumerate(o["blocks"]):
            bad = [j for j in rec["jobs"] if j["state"] != "DONE"]
            if bad:
                c.violation(f"{pid}:probe:{tag}:job-exited-0-ends-{bad[0]['state']}-in-later-experiment" if b else
                            f"{pid}:probe:{tag}:job-exited-0-ends-{bad[0]['state']}",
                            f"experiment {b + 1} of {len(o['blocks'])} in one process, token shared: job {bad[0]['name']} "
                            f"(process ran: {bad[0]['started']}, success marker: {bad[0]['done_file']}) is {bad[0]['state']}",
                            dict(probe=pl, observed=o))
            if rec["raised"]:
                c.violation(f"{pid}:probe:{tag}:experiment-raises-although-every-job-succeeded",
                            f"experiment {b + 1}: FailedExperiment raised; jobs: {rec['jobs']}", dict(probe=pl, observed=o))
        if o.get("available") != pl.get("capacity", 1):
            c.violation(f"{pid}:probe:{tag}:token-not-whole-at-the-end",
                        f"token.available = {o.get('available')} of {pl.get('capacity', 1)} after the last experiment",
                        dict(probe=pl, observed=o))


C06_CASE_KEYS = {"alt_workspaces": "C06:case:alt-workspaces-setting-no-job-scheduled",
                 "nested": "C06:case:dependent-in-another-open-experiment-never-started",
                 "refused": "C06:case:dependent-of-refused-submission-waits-for-ever",
                 "dryrun_dep": "C06:case:dependent-of-dry-run-submission-waits-for-ever"}


def run_c06_cases(c):
    """harness/c06_cases.py: directed cases with real job processes, one process each"""
    import json as _json
    import subprocess
    from concurrent.futures import ThreadPoolExecutor
    from vcommon import impl_env, HARNESS, PY
    names = list(C06_CASE_KEYS)
    if c.replay:
        rp = _json.load(open(c.replay))["replay"]
        names = [rp["case"]] if rp.get("case") in C06_CASE_KEYS else []

    def one(name):
        try:
            p = subprocess.run([PY, "-W", "ignore", str(HARNESS / "c06_cases.py"), name], capture_output=True, text=True,
                               timeout=120, env=impl_env())
            lines = [l for l in p.stdout.splitlines() if l.startswith(("ok:", "DEFECT:"))]
            return p.returncode, (lines[-1] if lines else (p.stderr.strip().splitlines() or ["no output"])[-1])
        except subprocess.TimeoutExpired:
            return 1, "DEFECT: the case did not end within 120 s"

    with ThreadPoolExecutor(max_workers=4) as ex:
        res = list(ex.map(one, names))
    for name, (rc, line) in zip(names, res):
        c.evaluations += 1
        c.count("case:" + name)
        if rc != 0:
            c.violation(C06_CASE_KEYS[name], f"c06_cases.py {name}: {line[:400]}", dict(case=name, what=line[:400]))
