"""A job that says when it has started and runs until a `go` file appears."""
import sys
import time
from pathlib import Path

from experimaestro import Task, Param


class HoldTask(Task):
    dir: Param[Path]
    x: Param[int]

    def execute(self):
        if (self.dir / ("fail.%d" % self.x)).exists():
            # first run of a job that is relaunched later: it fails
            sys.exit(1)
        (self.dir / ("started.%d" % self.x)).write_text(str(time.time()))
        limit = time.time() + 60
        while not (self.dir / "go").is_file() and time.time() < limit:
            time.sleep(0.05)
        (self.dir / ("ended.%d" % self.x)).write_text(str(time.time()))
