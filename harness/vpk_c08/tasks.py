"""A job that says when it has started and runs until a `go` file appears."""
import time
from pathlib import Path

from experimaestro import Task, Param


class HoldTask(Task):
    dir: Param[Path]
    x: Param[int]

    def execute(self):
        (self.dir / ("started.%d" % self.x)).write_text(str(time.time()))
        limit = time.time() + 60
        while not (self.dir / "go").is_file() and time.time() < limit:
            time.sleep(0.05)
        (self.dir / ("ended.%d" % self.x)).write_text(str(time.time()))
