"""Task classes of the C08 token harness (must be importable by the job processes)."""
