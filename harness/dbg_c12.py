import json, sys, subprocess, os
sys.path.insert(0, os.path.dirname(__file__))
import identgen, check_c12
from vcommon import run_impl, COQFLAGS, GEN
rp = json.load(open(sys.argv[1]))
fix = sys.argv[2] if len(sys.argv) > 2 else "false false"
r = run_impl("drive_c12.py", dict(cases=[dict(desc=rp["desc"], root=rp["root"])]))[0]
k = dict(export=r["export"], root=rp["root"], defs=r["defs"], reloaded=r["reloaded"])
fm, fi = fix.split()
txt = (check_c12.HEADER + "Definition c := " + check_c12.g_ccase(k) + ".\n"
       f"Eval vm_compute in (save (cc_classes c) {fm} (cc_heap c) 200 (cc_root c)).\n"
       "Eval vm_compute in (cc_defs c).\n"
       f"Eval vm_compute in (reload (cc_classes c) {fm} {fi} (cc_heap c) 200 (cc_root c)).\n"
       "Eval vm_compute in (cc_reloaded c).\n"
       f"Eval vm_compute in check_ccase {fm} {fi} c.\n")
GEN.mkdir(exist_ok=True)
f = GEN / "dbg12.v"
f.write_text(txt)
p = subprocess.run(["coqc"] + COQFLAGS + [str(f)], capture_output=True, text=True)
print(p.stdout[-6000:], p.stderr[-2000:])
