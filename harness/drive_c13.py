"""Implementation driver for C13: instance() and the parameter-file path on generated graphs."""
import json
import logging
import os
import sys

logging.disable(logging.CRITICAL)

from pathlib import Path  # noqa: E402

from experimaestro import experiment, RunMode, state_dict, from_state_dict, save, load, from_task_dir  # noqa: E402
from experimaestro.core.objects import ConfigInformation, ObjectStore  # noqa: E402
from experimaestro.core.context import SerializationContext  # noqa: E402
import experimaestro.run as xpmrun  # noqa: E402
import vpk_c13 as S  # noqa: E402


def value_of(v, objs):
    t = v["t"]
    if t == "none":
        return None
    if t == "int":
        return v["v"]
    if t == "ref":
        return objs[v["n"]]
    if t == "list":
        return [value_of(x, objs) for x in v["v"]]
    if t == "dict":
        return {k: value_of(x, objs) for k, x in v["v"]}
    raise ValueError(t)


def build(case):
    nodes = case["nodes"]
    objs = {i: S.CLASSES[nd["cls"]]() for i, nd in enumerate(nodes)}
    for i, nd in enumerate(nodes):
        for k in nd.get("order") or range(len(nd["fields"])):
            name, v = nd["fields"][k]
            setattr(objs[i], name, value_of(v, objs))
        if nd["pre"]:
            objs[i].add_pretasks(*[objs[j] for j in nd["pre"]])
    return objs


def canon_value(x, name_of):
    if x is None:
        return dict(t="none")
    if isinstance(x, bool) or isinstance(x, int):
        return dict(t="int", v=int(x))
    if isinstance(x, list):
        return dict(t="list", v=[canon_value(y, name_of) for y in x])
    if isinstance(x, dict):
        return dict(t="dict", v=[[k, canon_value(y, name_of)] for k, y in x.items()])
    if id(x) in name_of:
        return dict(t="obj", n=name_of[id(x)])
    return dict(t="other", v=type(x).__name__)


def canon_objects(obj_of_node):
    """obj_of_node: node -> runtime object.  An object is named by the smallest node it stands for."""
    name_of = {}
    for n in sorted(obj_of_node):
        name_of.setdefault(id(obj_of_node[n]), n)
    res = []
    for n in sorted(obj_of_node):
        o = obj_of_node[n]
        attrs = [[k, canon_value(o.__dict__[k], name_of)] for k in type(o).__getxpmtype__().arguments
                 if k in o.__dict__]
        res.append(dict(node=n, name=name_of[id(o)], attrs=attrs))
    return res, name_of


def canon_log(log, name_of):
    return [dict(k=k, obj=name_of.get(i, -1), set=snap) for k, i, snap in log]


def run_instance(case):
    objs = build(case)
    node_of_cfg = {id(o): n for n, o in objs.items()}
    store = ObjectStore()
    logs = []
    roots = ([case["first"]] if case.get("first") is not None else []) + [case["root"]]
    returned = []
    constructed = []
    for r in roots:
        del S.LOG[:]
        ret = objs[r].instance(objects=store)
        logs.append(list(S.LOG))
        returned.append(ret)
        constructed.append(sorted(node_of_cfg[c] for c in store.constructed if c in node_of_cfg))
    obj_of_node = {node_of_cfg[c]: o for c, o in store.store.items() if c in node_of_cfg}
    objects, name_of = canon_objects(obj_of_node)
    return dict(objects=objects, logs=[canon_log(lg, name_of) for lg in logs],
                returned=[name_of.get(id(x), -1) for x in returned], constructed=constructed)


_captured = []
_orig_load = ConfigInformation.load_objects


def _load_objects(*a, **k):
    r = _orig_load(*a, **k)
    _captured.append(r)
    return r


ConfigInformation.load_objects = staticmethod(_load_objects)   # observation only


def run_params(case):
    objs = build(case)
    node_of_cfg = {id(o): n for n, o in objs.items()}
    root = objs[case["root"]]
    inits = [objs[j] for j in case["nodes"][case["root"]]["init"]]
    how = "params.json"
    del _captured[:]
    try:
        root.submit(run_mode=RunMode.GENERATE_ONLY, init_tasks=inits)
        path = root.__xpm__.job.path / "params.json"
        definitions = json.load(open(path))["objects"]
        del S.LOG[:]
        xpmrun.run(path)
    except RecursionError:
        # a cyclic graph does not go through submit() (updatedependencies); its definitions do load
        how = "__get_objects__"
        definitions = json.loads(json.dumps(root.__xpm__.__get_objects__([], SerializationContext())))
        del _captured[:]
        del S.LOG[:]
        task = ConfigInformation.fromParameters(definitions)
        task.execute()
    log = list(S.LOG)
    loaded = _captured[-1]
    obj_of_node = {node_of_cfg[i]: o for i, o in loaded.items() if i in node_of_cfg}
    objects, name_of = canon_objects(obj_of_node)
    return dict(objects=objects, log=canon_log(log, name_of), how=how,
                order=[node_of_cfg.get(d["id"], -1) for d in definitions], n_loaded=len(loaded))


def run_loader(case, wd):
    """the other public loaders that return runtime objects (as_instance=True): from_state_dict on a state
    dictionary, load on a saved definition.json, from_task_dir on the params.json of the task's directory"""
    objs = build(case)
    node_of_cfg = {id(o): n for n, o in objs.items()}
    root = objs[case["root"]]
    which = case.get("loader") or "state"
    del _captured[:]
    with_init = False
    if which == "taskdir":
        try:
            root.submit(run_mode=RunMode.GENERATE_ONLY, init_tasks=[objs[j] for j in case["nodes"][case["root"]]["init"]])
            with_init = True
        except RecursionError:
            # a cyclic graph has no task directory; submit() has attached the init tasks before failing
            which = "state"
            with_init = True
    del S.LOG[:]
    if which == "taskdir":
        ret = from_task_dir(root.__xpm__.job.path, as_instance=True)
    elif which == "load":
        d = Path(wd) / "saved"
        d.mkdir(parents=True, exist_ok=True)
        save(root, d)
        del S.LOG[:]
        ret = load(d, as_instance=True)
    else:
        state = json.loads(json.dumps(state_dict(SerializationContext(), root)))
        del S.LOG[:]
        ret = from_state_dict(state, as_instance=True)
    log = list(S.LOG)
    loaded = _captured[-1]
    obj_of_node = {node_of_cfg[i]: o for i, o in loaded.items() if i in node_of_cfg}
    objects, name_of = canon_objects(obj_of_node)
    return dict(objects=objects, log=canon_log(log, name_of), how=which, with_init=with_init,
                returned=name_of.get(id(ret), -1), n_loaded=len(loaded))


def run_case(case, wd="."):
    try:
        return dict(instance=run_instance(case), params=run_params(case), loader=run_loader(case, wd))
    except Exception as e:  # noqa
        import traceback
        return dict(error=f"{type(e).__name__}: {e}", tb=traceback.format_exc()[-1500:])


def probe_once():
    """does the loader of this tree execute a lightweight task once when it is listed twice as init task
    (fixes/C13-1.diff), or every entry of the list?"""
    p, t = S.P(v=1), S.T(v=2)
    t.submit(run_mode=RunMode.GENERATE_ONLY, init_tasks=[p, p])
    del S.LOG[:]
    xpmrun.run(t.__xpm__.job.path / "params.json")
    n = sum(1 for k, _, _ in S.LOG if k == "exec")
    del S.LOG[:]
    out = dict(executions=n, once=(n == 1))
    # one ObjectStore, a pre-task attached to two configurations instantiated one after the other: executed once
    # for the store (fixes/C13-3.diff) or once per call?
    q, a, b = S.P(v=3), S.N(v=4), S.N(v=5)
    a.add_pretasks(q)
    b.add_pretasks(q)
    store = ObjectStore()
    a.instance(objects=store)
    b.instance(objects=store)
    n = sum(1 for k, _, _ in S.LOG if k == "exec")
    del S.LOG[:]
    out["store_executions"] = n
    out["store_once"] = (n == 1)
    # an ObjectStore is keyed by id(config): configurations created and dropped one after the other
    store = ObjectStore()
    wrong = None
    for i in range(300):
        o = S.M(v=i + 1).instance(objects=store)
        if o.v != i + 1:
            wrong = dict(iteration=i, asked=i + 1, got=o.v)
            break
    del S.LOG[:]
    out["id_reuse"] = wrong
    return out


def main():
    payload = json.load(sys.stdin)
    wd = payload["workdir"]
    os.makedirs(wd, exist_ok=True)
    res = []
    with experiment(wd, "c13", port=-1):
        pr = probe_once()
        for c in payload["cases"]:
            res.append(run_case(c, wd))
    print(json.dumps(dict(answers=res, probe=pr)))


if __name__ == "__main__":
    main()
