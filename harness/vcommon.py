"""Shared machinery of the /verif checks.

One check run = Check(pid, tier, seed); see DESIGN.md section 2.
Exit codes: 0 held, 1 violation (VIOLATION line printed), 2 internal error.
"""
import fcntl
import hashlib
import json
import os
import random
import re
import shutil
import subprocess
import sys
import tempfile
import time
from pathlib import Path

ROOT = Path(__file__).resolve().parent.parent
COQ = ROOT / "coq"
GEN = COQ / "gen"
HARNESS = ROOT / "harness"
REPO = Path(os.environ.get("VERIF_REPO", "/repo"))
PY = "/venv/bin/python"
COQFLAGS = ["-Q", str(COQ), "XV", "-w", "-notation-overridden,-deprecated-hint-without-locality,-deprecated-instance-without-locality"]

# what Print Assumptions may list (nothing of ours; see DESIGN.md section 4)
ALLOWED_AXIOMS = set()

FORBIDDEN = re.compile(
    r"\b(Admitted|admit|Axiom|Axioms|Parameter|Parameters|Conjecture|Conjectures|Admit Obligations|"
    r"Unset Guard Checking|Unset Positivity Checking|Unset Universe Checking|bypass_check|type-in-type|"
    r"impredicative-set|native_compute)\b")


class InternalError(Exception):
    pass


def sh(cmd, timeout, cwd=None, env=None, input=None):
    t0 = time.time()
    try:
        p = subprocess.run(cmd, cwd=cwd, env=env, input=input, capture_output=True, text=True, timeout=timeout)
        return p.returncode, p.stdout, p.stderr, time.time() - t0
    except subprocess.TimeoutExpired as e:
        out = e.stdout.decode() if isinstance(e.stdout, bytes) else (e.stdout or "")
        err = e.stderr.decode() if isinstance(e.stderr, bytes) else (e.stderr or "")
        return 124, out, err + "\nTIMEOUT", time.time() - t0


def strip_comments(text):
    # remove (* ... *) with nesting
    out, depth, i = [], 0, 0
    while i < len(text):
        if text.startswith("(*", i):
            depth += 1
            i += 2
        elif text.startswith("*)", i) and depth:
            depth -= 1
            i += 2
        else:
            if not depth:
                out.append(text[i])
            i += 1
    return "".join(out)


def impl_env(extra=None, hashseed="0"):
    env = dict(os.environ)
    env["PYTHONPATH"] = f"{REPO}/src:{HARNESS}"
    env["PYTHONHASHSEED"] = str(hashseed)
    env["PYTHONDONTWRITEBYTECODE"] = "1"
    env["EXPERIMAESTRO_PYTHON_VERIF"] = "1"
    env.pop("XPM_WORKDIR", None)
    if extra:
        env.update(extra)
    return env


def run_impl(script, payload, timeout=600, hashseed="0", extra_env=None):
    """Run harness/<script> on the implementation at REPO; JSON in, JSON out."""
    rc, out, err, _ = sh([PY, "-W", "ignore", str(HARNESS / script)], timeout,
                         env=impl_env(extra_env, hashseed), input=json.dumps(payload))
    if rc != 0:
        raise InternalError(f"driver {script} failed rc={rc}\n{err[-3000:]}")
    # the driver prints one JSON document on the last line
    line = out.strip().splitlines()[-1]
    return json.loads(line)


# ---------------------------------------------------------------- Gallina literals
def gz(n):
    n = int(n)
    return f"({n})" if n < 0 else str(n)


def gnat(n):
    return f"{int(n)}%nat"


def glist(items):
    return "[" + "; ".join(items) + "]"


def gopt(x, f=lambda y: y):
    return "None" if x is None else f"(Some {f(x)})"


def gbool(b):
    return "true" if b else "false"


def gbytes(b):
    """bytes -> list of N literals (inside N_scope or with %N on the list)"""
    return "[" + ";".join(str(x) for x in b) + "]"


def parse_natlist(output):
    """Parse the answer of `Eval vm_compute in (... : list nat)` from coqc output."""
    m = re.search(r"=\s*(\[.*?\])\s*:\s*list nat", output, re.S)
    if not m:
        raise InternalError("cannot parse coqc answer:\n" + output[-2000:])
    return [int(x) for x in re.findall(r"\d+", m.group(1))]


class Check:
    def __init__(self, pid, argv=None):
        import argparse
        ap = argparse.ArgumentParser()
        ap.add_argument("--tier", default=os.environ.get("VERIF_TIER", "quick"), choices=["quick", "thorough"])
        ap.add_argument("--replay", default=None)
        a = ap.parse_args(argv)
        self.pid = pid
        self.tier = a.tier
        self.replay = a.replay
        self.seed = int(os.environ.get("VERIF_SEED", "0"))
        self.rng = random.Random(f"{pid}:{self.seed}")
        self.t0 = time.time()
        self.obligations = []      # dicts: name, kind, ok, detail
        self.violations = []       # dicts: key, what, data, nofail
        self.known_hits = []
        self.samples = []
        self.dist = {}
        self.evaluations = 0
        self.nontrivial = set()
        self.traces = 0
        self.assumptions_text = {}
        self.checker_cmds = []
        self.extra = {}
        self.rule = ""
        self.level_assumptions = []
        self._scratch = None
        GEN.mkdir(exist_ok=True)
        (ROOT / "evidence").mkdir(exist_ok=True)
        (ROOT / "replays" / pid).mkdir(parents=True, exist_ok=True)

    @property
    def quick(self):
        return self.tier == "quick"

    def scratch(self):
        if self._scratch is None:
            self._scratch = Path(tempfile.mkdtemp(prefix=f"xpmverif-{self.pid}-"))
        return self._scratch

    def count(self, key, n=1):
        self.dist[key] = self.dist.get(key, 0) + n

    # ------------------------------------------------------------ Coq side
    def build(self, targets=None):
        """.vo build (no -vos) of this property's files and what they import (no-op when up to date).
        targets: .vo paths relative to coq/ (default: props/<pid>.vo and every corr/*.vo whose
        source mentions this property id).  setup_cmd builds the whole development."""
        if targets is None:
            targets = [f"props/{self.pid}.vo"] + sorted(
                f"corr/{f.stem}.vo" for f in (COQ / "corr").glob("*.v") if self.pid in f.read_text())
        lock = open(COQ / ".buildlock", "w")
        fcntl.flock(lock, fcntl.LOCK_EX)
        try:
            if not (COQ / "Makefile").exists() or (COQ / "Makefile").stat().st_mtime < (COQ / "_CoqProject").stat().st_mtime:
                rc, out, err, _ = sh(["coq_makefile", "-f", "_CoqProject", "-o", "Makefile"], 120, cwd=COQ)
                if rc:
                    raise InternalError("coq_makefile failed: " + err)
            rc, out, err, dt = sh(["make", "-j16", "-k"] + list(targets), 1500, cwd=COQ)
            self.checker_cmds.append("make -C coq -j16 " + " ".join(targets))
            self.build_ok = rc == 0
            self.build_log = (out + err)[-4000:]
        finally:
            fcntl.flock(lock, fcntl.LOCK_UN)
            lock.close()
        self.obligations.append(dict(name="build:" + ",".join(targets), kind="build", ok=self.build_ok,
                                     detail="" if self.build_ok else self.build_log[-600:]))
        self.gate()
        return self.build_ok

    def gate(self):
        bad = []
        listed = [l.strip() for l in (COQ / "_CoqProject").read_text().splitlines() if l.strip().endswith(".v")]
        for f in [COQ / l for l in listed]:
            txt = strip_comments(f.read_text())
            for m in FORBIDDEN.finditer(txt):
                bad.append(f"{f.relative_to(COQ)}: {m.group(0)}")
        self.obligations.append(dict(name="gate:no-admit-axiom-parameter", kind="gate", ok=not bad, detail="; ".join(bad[:5])))

    def props(self, fname=None):
        """Re-check props/<pid>.v now; one obligation per Theorem, Print Assumptions captured."""
        f = COQ / "props" / (fname or f"{self.pid}.v")
        src = f.read_text()
        thms = [(m.start(), m.group(1)) for m in re.finditer(r"^Theorem\s+(\w+)", src, re.M)]
        out_vo = self.scratch() / (f.stem + ".vo")
        cmd = ["coqc"] + COQFLAGS + ["-o", str(out_vo), str(f)]
        rc, out, err, dt = sh(cmd, 900)
        self.checker_cmds.append("coqc -Q coq XV coq/props/%s" % f.name)
        failpos = None
        if rc != 0:
            m = re.search(r"line (\d+), characters", err)
            if m:
                ln = int(m.group(1))
                failpos = sum(len(l) + 1 for l in src.splitlines()[:ln - 1])
            else:
                failpos = 0
        # Print Assumptions answers come in order
        answers = re.split(r"(?=Closed under the global context|Axioms:)", out)
        answers = [a.strip() for a in answers if a.strip().startswith(("Closed under", "Axioms:"))]
        for i, (pos, name) in enumerate(thms):
            nxt = thms[i + 1][0] if i + 1 < len(thms) else len(src)
            ok = failpos is None or nxt <= failpos
            detail = ""
            if ok:
                if i < len(answers):
                    self.assumptions_text[name] = answers[i]
                    if answers[i].startswith("Axioms:"):
                        names = re.findall(r"^\s*([\w.]+)\s*:", answers[i], re.M)
                        extra = [n for n in names if n not in ALLOWED_AXIOMS]
                        if extra:
                            ok = False
                            detail = "unexpected axioms: " + ", ".join(extra)
                else:
                    ok = False
                    detail = "no Print Assumptions answer"
            else:
                detail = "does not compile: " + err.strip()[-400:]
            self.obligations.append(dict(name=f"theorem:{name}", kind="theorem", ok=ok, detail=detail))
        if not thms:
            self.obligations.append(dict(name=f"theorem-file:{f.name}", kind="theorem", ok=False, detail="no theorem"))

    def coq_eval(self, name, text, timeout=900):
        """Compile a generated file under coq/gen and return coqc's stdout."""
        f = GEN / f"{self.pid}_{name}_{os.getpid()}.v"
        f.write_text(text)
        rc, out, err, dt = sh(["coqc"] + COQFLAGS + [str(f)], timeout)
        for ext in (".v", ".vo", ".vok", ".vos", ".glob"):
            p = f.with_suffix(ext)
            if p.exists() and not os.environ.get("VERIF_KEEP"):
                p.unlink()
        aux = f.parent / ("." + f.stem + ".aux")
        if aux.exists():
            aux.unlink()
        return rc, out, err

    def corr_shards(self, name, header, cases, render, checker, shard=400, timeout=900):
        """Correspondence inside Coq.  cases: list; render(case)->Gallina term of the case type;
        checker: Gallina function case -> bool (true = model agrees with the implementation's answer).
        Returns the list of disagreeing case indices; records one obligation per shard."""
        from concurrent.futures import ThreadPoolExecutor
        shards = [cases[i:i + shard] for i in range(0, len(cases), shard)]
        bad = []

        def one(k):
            body = [header, "Definition cases := ["]
            body.append(";\n".join(render(c) for c in shards[k]))
            body.append("].")
            body.append("Fixpoint badidx {A} (f : A -> bool) (l : list A) (i : nat) : list nat :=\n"
                        "  match l with [] => [] | x :: l' => if f x then badidx f l' (S i) else i :: badidx f l' (S i) end.")
            body.append(f"Definition answer : list nat := badidx ({checker}) cases 0%nat.")
            body.append("Eval vm_compute in answer.")
            return self.coq_eval(f"{name}_{k}", "\n".join(body), timeout)

        with ThreadPoolExecutor(max_workers=16) as ex:
            results = list(ex.map(one, range(len(shards))))
        for k, (rc, out, err) in enumerate(results):
            if rc != 0:
                self.obligations.append(dict(name=f"corr:{name}:shard{k}", kind="corr", ok=False,
                                             detail="coqc failed: " + err.strip()[-600:]))
                continue
            idx = parse_natlist(out)
            self.obligations.append(dict(name=f"corr:{name}:shard{k}", kind="corr", ok=not idx,
                                         detail=("disagreeing cases: %s" % [k * shard + i for i in idx[:20]]) if idx else ""))
            bad.extend(k * shard + i for i in idx)
        self.checker_cmds.append(f"coqc -Q coq XV coq/gen/{self.pid}_{name}_<k>.v  ({len(shards)} shards, Eval vm_compute)")
        self.traces += len(cases)
        return bad

    def nat_shards(self, name, header, cases, render, fn, shard=400, timeout=900):
        """Evaluates fn : case -> list nat on every case inside Coq; returns one list per case (None when the
        shard failed to evaluate).  One obligation per shard: the evaluation ran; what the lists mean is the caller's."""
        from concurrent.futures import ThreadPoolExecutor
        shards = [cases[i:i + shard] for i in range(0, len(cases), shard)]

        def one(k):
            body = [header, "Definition cases := [", ";\n".join(render(c) for c in shards[k]), "].",
                    f"Definition answer : list nat := flat_map (fun c => let d := ({fn}) c in length d :: d) cases.",
                    "Eval vm_compute in answer."]
            return self.coq_eval(f"{name}_{k}", "\n".join(body), timeout)

        with ThreadPoolExecutor(max_workers=16) as ex:
            results = list(ex.map(one, range(len(shards))))
        per_case = []
        for k, (rc, out, err) in enumerate(results):
            if rc != 0:
                self.obligations.append(dict(name=f"corr:{name}:shard{k}", kind="corr", ok=False,
                                             detail="coqc failed: " + err.strip()[-600:]))
                per_case.extend([None] * len(shards[k]))
                continue
            flat = parse_natlist(out)
            got, i = [], 0
            while i < len(flat):
                got.append(flat[i + 1:i + 1 + flat[i]])
                i += 1 + flat[i]
            ok = len(got) == len(shards[k])
            self.obligations.append(dict(name=f"corr:{name}:shard{k}", kind="corr", ok=ok,
                                         detail="" if ok else "answer does not have one entry per case"))
            per_case.extend(got if ok else [None] * len(shards[k]))
        self.checker_cmds.append(f"coqc -Q coq XV coq/gen/{self.pid}_{name}_<k>.v  ({len(shards)} shards, Eval vm_compute of {fn})")
        return per_case

    def coq_natlist(self, name, header, term, timeout=900):
        """Evaluates a Gallina term of type list nat in the model (diagnosis of one case)."""
        rc, out, err = self.coq_eval(name, f"{header}\nDefinition answer : list nat := {term}.\nEval vm_compute in answer.", timeout)
        if rc != 0:
            raise InternalError("coqc failed on a diagnosis term: " + err[-800:])
        return parse_natlist(out)

    # ------------------------------------------------------------ verdict
    def violation(self, key, what, data):
        """An oracle violation on the implementation with a concrete failing input."""
        if any(v["key"] == key for v in self.violations):
            return
        self.violations.append(dict(key=key, what=what, data=data, nofail=False))

    def known(self):
        f = ROOT / "known_findings.json"
        if not f.exists():
            return []
        return json.loads(f.read_text())

    def finish(self):
        kf = [k for k in self.known() if k.get("property") == self.pid and k.get("status") == "open"]
        open_keys = {k["key"]: k for k in kf}
        lines = []
        reported = []
        for v in self.violations:
            if v["key"] in open_keys:
                lines.append(f"KNOWN-FINDING: property={self.pid} {open_keys[v['key']]['what']}")
                self.known_hits.append(v["key"])
                continue
            reported.append(v)
        failed = [o for o in self.obligations if not o["ok"]]
        if failed and not reported:
            # a proof obligation / tie / correspondence no longer checks and the search found no failing input
            reported.append(dict(key="broken:" + failed[0]["name"], nofail=True,
                                 what="obligations no longer check: " + ", ".join(o["name"] for o in failed[:8]),
                                 data=dict(failed=failed[:20])))
        exit_code = 0
        for v in reported:
            h = hashlib.sha1(json.dumps(v["key"], sort_keys=True).encode()).hexdigest()[:12]
            path = ROOT / "replays" / self.pid / f"{h}.json"
            path.write_text(json.dumps(dict(property=self.pid, key=v["key"], what=v["what"], seed=self.seed,
                                            tier=self.tier, replay=v["data"],
                                            failed_obligations=[o for o in failed][:20]), indent=1, default=str))
            tail = " no-failing-input-found" if v.get("nofail") else ""
            lines.append(f"VIOLATION property={self.pid} replay={path}{tail}")
            exit_code = 1
        self.write_evidence(len(reported))
        for l in lines:
            print(l)
        n_ok = sum(1 for o in self.obligations if o["ok"])
        print(f"[{self.pid}] tier={self.tier} seed={self.seed} obligations={n_ok}/{len(self.obligations)} "
              f"evaluations={self.evaluations} distinct_nontrivial={len(self.nontrivial)} "
              f"violations={len(reported)} known={len(self.known_hits)} wall={time.time() - self.t0:.1f}s")
        if self._scratch and not os.environ.get("VERIF_KEEP"):
            shutil.rmtree(self._scratch, ignore_errors=True)
        sys.stdout.flush()
        sys.exit(exit_code)

    def write_evidence(self, nviol):
        tb = [
            "Coq 8.16.1 kernel + coqc; vm_compute for correspondence runs and finite obligations; no native_compute",
            "no axioms: Print Assumptions of every property theorem captured on this run (coverage.print_assumptions)",
            "hand-written Gallina model tied to /repo by the correspondence check of this run (harness generators, drivers, canonicalisers, Gallina literal printer)",
            "no extraction",
        ] + self.level_assumptions
        ev = dict(
            property_id=self.pid, tier=self.tier, seed=self.seed, level="proof",
            coverage=dict(
                obligations=len(self.obligations),
                discharged=sum(1 for o in self.obligations if o["ok"]),
                obligation_list=[dict(name=o["name"], ok=o["ok"], detail=o["detail"][:300]) for o in self.obligations],
                checker_cmd="; ".join(dict.fromkeys(self.checker_cmds)) or "none",
                trusted_base=tb,
                print_assumptions=self.assumptions_text,
                traces_validated_against_impl=self.traces,
                evaluations=self.evaluations,
                distinct_nontrivial=len(self.nontrivial),
                rule=self.rule,
                samples=self.samples[:8] or ["(no sample)"],
                input_distribution=self.dist,
                known_findings_hit=self.known_hits,
                **self.extra,
            ),
            assumptions=self.level_assumptions,
            wall_s=round(time.time() - self.t0, 2),
            violations=nviol,
        )
        # evidence describes runs against /repo itself: a run against another tree (VERIF_REPO, used for
        # seeded changes and fix validation) writes its record elsewhere
        evdir = ROOT / "evidence" if str(REPO) == "/repo" else Path(tempfile.gettempdir()) / "xpmverif-evidence-other-tree"
        evdir.mkdir(parents=True, exist_ok=True)
        (evdir / f"{self.pid}.json").write_text(json.dumps(ev, indent=1, default=str))


def main_wrapper(pid, fn, argv=None):
    c = Check(pid, argv)
    try:
        fn(c)
    except InternalError as e:
        print(f"[{pid}] INTERNAL ERROR: {e}", file=sys.stderr)
        sys.exit(2)
    c.finish()


# the type identifier each probed class must get by the documented rules (docs/experiments/config.md): a string __xpmid__
# names the class only, a class-method __xpmid__ names the class and its descendants, otherwise module.qualname in lower case
EXPECTED_TID = {"NamedBase": "vpk.named.namedbase", "NamedChild": "vpk.named.namedchild", "Fixed": "vpk.fixed",
                "FixedChild": "vpk.typeprobe.fixedchild", "Enc.Opt": "vpk.typeprobe.enc.opt", "Dec.Opt": "vpk.typeprobe.dec.opt",
                "Leaf": "vpk.schema.leaf", "EH": "vpk.schema.eh", "V1": "vpk.schema.v", "V2": "vpk.schema.v"}
