"""Implementation driver for C18: runs the real launcherfinder on generated cases."""
import json
import sys
from functools import reduce

from experimaestro.launcherfinder import parse
from experimaestro.launcherfinder.specs import (
    CPUSpecification, CudaSpecification, HostSpecification, RequirementUnion,
    cpu, cuda_gpu, duration,
)


def canon(r):
    return dict(gpus=[int(g.memory) for g in r.cuda_gpus], mem=int(r.cpu.memory), cores=int(r.cpu.cores),
                dur=int(r.duration),
                gpu_extra=[[g.model, int(g.min_memory)] for g in r.cuda_gpus])


def mem_text(n, u):
    return f"{n}{u}"


def build_term(t, operands):
    k = t["k"]
    if k == "duration":
        return duration(f"{t['n']} {t['u']}")
    if k == "cuda":
        kw = {}
        for it in t["items"]:
            kw["mem"] = mem_text(it["n"], it["u"])
        g = cuda_gpu(**kw)
        if t["mult"] is None:
            return g
        operands.append((g, canon(g)))
        return g * t["mult"]
    if k == "cpu":
        kw = {}
        for it in t["items"]:
            if it["k"] == "mem":
                kw["mem"] = mem_text(it["n"], it["u"])
            else:
                kw["cores"] = it["n"]
        return cpu(**kw)
    raise ValueError(k)


def build_spec(ts):
    operands = []
    objs = []
    for t in ts:
        o = build_term(t, operands)
        objs.append(o)

    def land(x, el):
        operands.append((el, canon(el)))
        operands.append((x, canon(x)))
        return x & el

    # operands of & are snapshotted when the & is applied
    r = reduce(land, objs)
    pure = all(canon(o) == snap for o, snap in operands)
    return r, pure


def host_of(h):
    return HostSpecification(
        cuda=[CudaSpecification(g["mem"], min_memory=g["min"]) for g in h["cuda"]],
        cpu=CPUSpecification(h["mem"], h["cores"]),
        priority=h["prio"], max_duration=h["maxdur"], min_gpu=h["mingpu"])


def run_case(c):
    out = {}
    try:
        out["parsed"] = [canon(r) for r in parse(c["text"])]
    except Exception as e:  # noqa
        out["parsed"] = None
        out["parse_exc"] = type(e).__name__
    progs = [build_spec(ts) for ts in c["expr"]]
    out["prog"] = [canon(r) for r, _ in progs]
    out["pure"] = [p for _, p in progs]
    reqs = [r for r, _ in progs]
    host = host_of(c["host"])
    singles = []
    for r in reqs:
        m = r.match(host)
        singles.append(None if m is None else int(m.score))
    out["single"] = singles
    u = RequirementUnion(*reqs).match(host)
    if u is None:
        out["union"] = None
    else:
        idx = [i for i, r in enumerate(reqs) if r is u.requirement]
        out["union"] = [idx[0] if idx else -1, int(u.score)]
    return out


def main():
    payload = json.load(sys.stdin)
    res = [run_case(c) for c in payload["cases"]]
    print(json.dumps(res))


if __name__ == "__main__":
    main()
