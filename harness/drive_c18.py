"""Implementation driver for C18: runs the real launcherfinder on generated cases."""
import json
import shutil
import sys
import tempfile
from functools import reduce
from pathlib import Path

from experimaestro.launcherfinder import parse
from experimaestro.launcherfinder.specs import (
    CPUSpecification, CudaSpecification, HostSpecification, RequirementUnion,
    cpu, cuda_gpu, duration,
)


def canon(r):
    return dict(gpus=[int(g.memory) for g in r.cuda_gpus], mem=int(r.cpu.memory), cores=int(r.cpu.cores),
                dur=int(r.duration),
                gpu_extra=[[g.model, int(g.min_memory)] for g in r.cuda_gpus])


def mem_text(n, u):
    return f"{n}{u}"


def build_term(t, operands):
    k = t["k"]
    if k == "duration":
        return duration(f"{t['n']} {t['u']}")
    if k == "cuda":
        kw = {}
        for it in t["items"]:
            kw["mem"] = mem_text(it["n"], it["u"])
        g = cuda_gpu(**kw)
        if t["mult"] is None:
            return g
        operands.append((g, canon(g)))
        return g * t["mult"]
    if k == "cpu":
        kw = {}
        for it in t["items"]:
            if it["k"] == "mem":
                kw["mem"] = mem_text(it["n"], it["u"])
            else:
                kw["cores"] = it["n"]
        return cpu(**kw)
    raise ValueError(k)


def build_spec(ts):
    operands = []
    objs = []
    for t in ts:
        o = build_term(t, operands)
        objs.append(o)

    def land(x, el):
        operands.append((el, canon(el)))
        operands.append((x, canon(x)))
        return x & el

    # operands of & are snapshotted when the & is applied
    r = reduce(land, objs)
    pure = all(canon(o) == snap for o, snap in operands)
    return r, pure


def host_of(h):
    return HostSpecification(
        cuda=[CudaSpecification(g["mem"], min_memory=g["min"]) for g in h["cuda"]],
        cpu=CPUSpecification(h["mem"], h["cores"]),
        priority=h["prio"], max_duration=h["maxdur"], min_gpu=h["mingpu"])


# a launchers.py as the documentation describes it (docs/launchers/index.md, tests/launchers/config_slurm):
# the hosts of the site are examined in order, the first one the requirement matches gives the launcher
LAUNCHERS_PY = '''
from experimaestro.launcherfinder.specs import HostRequirement
from experimaestro.launchers.slurm.base import SlurmLauncher, SlurmOptions

HOSTS = []      # set by the driver before each find()
MATCHED = []    # (index of the host, requirement that matched)


def find_launcher(requirements: HostRequirement, tags=set()):
    for j, host in enumerate(HOSTS):
        if match := requirements.match(host):
            MATCHED.append((j, match.requirement))
            return SlurmLauncher(
                options=SlurmOptions(partition=f"p{j}", gpus_per_node=len(match.requirement.cuda_gpus))
            )
    return None
'''

_registry = None


def registry():
    """the real LauncherRegistry over a configuration directory holding the launchers.py above"""
    global _registry
    if _registry is None:
        from experimaestro.launcherfinder.registry import LauncherRegistry
        d = Path(tempfile.mkdtemp(prefix="xpmverif-c18-conf-"))
        try:
            (d / "launchers.py").write_text(LAUNCHERS_PY)
            _registry = LauncherRegistry(d)
        finally:
            shutil.rmtree(d, ignore_errors=True)
        assert _registry.find_launcher_fn is not None
    return _registry


_bare = {}


def bare_registry(kind):
    """a configuration directory without launchers.py ("none": the documented default, the local host), or with a
    launchers.py that describes hosts but whose function is not called find_launcher ("nofn")"""
    if kind not in _bare:
        from experimaestro.launcherfinder.registry import LauncherRegistry
        d = Path(tempfile.mkdtemp(prefix="xpmverif-c18-conf-"))
        try:
            if kind == "nofn":
                (d / "launchers.py").write_text(LAUNCHERS_PY.replace("def find_launcher(", "def find_launchers("))
            _bare[kind] = LauncherRegistry(d)
        finally:
            shutil.rmtree(d, ignore_errors=True)
        assert _bare[kind].find_launcher_fn is None
    return _bare[kind]


def run_bare(text):
    out = {}
    for kind in ("none", "nofn"):
        try:
            l = bare_registry(kind).find(text)
            out[kind] = dict(launcher=None if l is None else type(l).__name__, exc=None)
        except Exception as e:  # noqa
            out[kind] = dict(launcher=None, exc=type(e).__name__)
    return out


def run_registry(c, reqs):
    """LauncherRegistry.find over the hosts of the case; the alternatives are handed over as the groups say:
    str = one string (its alternatives joined by |), obj = a simple requirement object, union = an object built with |"""
    reg = registry()
    g = reg.find_launcher_fn.__globals__
    g["HOSTS"][:] = [host_of(h) for h in c["hosts"]]
    del g["MATCHED"][:]
    args, i = [], 0
    for grp in c["groups"]:
        sub = reqs[i:i + grp["n"]]
        i += grp["n"]
        if grp["kind"] == "str":
            args.append(grp["text"])
        elif grp["kind"] == "obj":
            args.extend(sub)
        else:
            args.append(reduce(lambda x, y: x | y, sub))
    out = dict(exc=None, host=None, req=None, part=None, gpus=None)
    try:
        launcher = reg.find(*args)
    except Exception as e:  # noqa
        out["exc"] = type(e).__name__
        return out
    if launcher is not None:
        j, r = g["MATCHED"][-1]
        out["host"] = j
        out["req"] = canon(r) if hasattr(r, "cuda_gpus") else None
        out["part"] = launcher.options.partition
        out["gpus"] = launcher.options.gpus_per_node
    return out


def run_case(c):
    out = {}
    try:
        out["parsed"] = [canon(r) for r in parse(c["text"])]
    except Exception as e:  # noqa
        out["parsed"] = None
        out["parse_exc"] = type(e).__name__
    # a text near the grammar: accepted (and then what it stands for) or rejected
    nr = c.get("near")
    if nr is not None:
        try:
            out["near_parsed"] = [canon(r) for r in parse(nr["text"])]
            out["near_exc"] = None
        except Exception as e:  # noqa
            out["near_parsed"] = None
            out["near_exc"] = type(e).__name__
    # the same texts handed to a registry that has no find_launcher function to ask
    out["bare"] = run_bare(c["text"])
    out["bare_near"] = run_bare(nr["text"]) if nr is not None else None
    progs = [build_spec(ts) for ts in c["expr"]]
    out["prog"] = [canon(r) for r, _ in progs]
    out["pure"] = [p for _, p in progs]
    reqs = [r for r, _ in progs]
    host = host_of(c["host"])
    singles = []
    for r in reqs:
        m = r.match(host)
        singles.append(None if m is None else int(m.score))
    out["single"] = singles
    u = RequirementUnion(*reqs).match(host)
    if u is None:
        out["union"] = None
    else:
        idx = [i for i, r in enumerate(reqs) if r is u.requirement]
        out["union"] = [idx[0] if idx else -1, int(u.score)]
    # the same union written with the | operator
    before = [canon(r) for r in reqs]
    ou = reduce(lambda x, y: x | y, reqs).match(host)
    if ou is None:
        out["orunion"] = None
    else:
        idx = [i for i, r in enumerate(reqs) if r is ou.requirement]
        out["orunion"] = [idx[0] if idx else -1, int(ou.score)]
    # registry level: every alternative against every host of the site, then the real LauncherRegistry.find
    hosts = [host_of(h) for h in c.get("hosts", [])]
    grid = []
    for r in reqs:
        row = []
        for h in hosts:
            m = r.match(h)
            row.append(None if m is None else int(m.score))
        grid.append(row)
    out["grid"] = grid
    out["reg"] = run_registry(c, reqs) if c.get("groups") else None
    out["pure_after"] = [canon(r) for r in reqs] == before
    return out


def main():
    payload = json.load(sys.stdin)
    res = [run_case(c) for c in payload["cases"]]
    print(json.dumps(res))


if __name__ == "__main__":
    main()
