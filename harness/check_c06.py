"""C06 - every job reaches a truthful, stable final state and the experiment exits."""
from vcommon import main_wrapper
import schedlib


def run(c):
    schedlib.run_sched_check(
        c, "c06", [schedlib.oracle_c06, schedlib.oracle_rest], n_quick=300, n_thorough=3000, golden_name="c06.json",
        rule=("random DAGs (<=7 jobs, <=2 process tokens with totals 1-4, heterogeneous requests, random exit codes, "
              "pre-existing markers, duplicates and re-submissions) under random delivery orders (single and batched) "
              "of lock/process/end-of-job completions, with experiment.wait() called mid-way and at exit; "
              "non-trivial = at least two jobs and one dependency; distinct by (workload, schedule); + directed probes "
              "with real job processes: two and three successive `with experiment` blocks in ONE process sharing a token "
              "object (file-based and in-process, capacity 1 and 2) on which the jobs of the earlier blocks depended"))
    schedlib.run_c06_cases(c)
    schedlib.run_block_probes(c, "C06", [dict(mode="blocks", token="file", nblocks=3, per=2),
                                         dict(mode="blocks", token="proc", nblocks=3, per=2),
                                         dict(mode="blocks", token="file", nblocks=2, per=3, capacity=2, wait_jobs=False),
                                         dict(mode="blocks", token="proc", nblocks=2, per=1, pause=1.0)])


if __name__ == "__main__":
    main_wrapper("C06", run)
