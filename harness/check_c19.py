"""C19 - job filters mean what they say; cleaning commands delete only what is selected."""
import copy
import json
import re
from concurrent.futures import ThreadPoolExecutor

from vcommon import COQ, ROOT, Check, main_wrapper, run_impl, glist, gbool

# ------------------------------------------------------------------ vocabulary
TAGS = ["x", "y", "model", "mode", "android", "origin", "notes", "inner", "Lr",
        "model2", "batch_size", "x_1", "in2", "and_1"]                     # a letter, then letters / digits / underscores
VALUES = ["a", "b", "ab", "ba", "a b", "bm25", "", "a.b", "x_1", "DONE", "ERROR", "RUNNING", "m.t", "it's", 'q"t',
          "aab", "abab", "b0", "a-b", "a_b", "r12", "rdd", "1", "a(b", "a\\b", "a\\tb", "c:\\new", "\\d", "a\\.b", "\\",
          "a\\x41", "a\\0b", "a\\rb"]
VALCHARS = "ab01_ .\\-t"
RECHARS = "ab01_ mt"           # literal characters of generated regular expressions (no escaping needed)
RESPECIAL = ".-()*+?|[]$^\\"    # written with a backslash in a regular expression: \. \( \\ ...
TASKS = ["m.t", "n.t", "pkg.mod.task", "other.task", "plain", "m.u", "a.b.t"]
HASHES = ["0a1b", "1c2d", "2e3f", "3a4b", "4c5d", "5e6f", "6a7b", "7c8d"]
XPS = ["XA", "XB", "main", "exp1",
       "X", "XAB", "exp", "exp10", "bert", "distilbert-v2", "main-2"]     # names that are parts of one another
STATES = ["DONE", "ERROR", "RUNNING"]


# ------------------------------------------------------------------ generators
def gen_value(rng):
    if rng.random() < 0.75:
        return rng.choice(VALUES)
    return "".join(rng.choice(VALCHARS) for _ in range(rng.choice([0, 1, 2, 3, 4])))


def gen_job(rng, task=None, hsh=None):
    done = rng.random() < 0.35
    failed = rng.random() < 0.35
    pid = rng.random() < 0.35
    alive = pid and rng.random() < 0.55
    if rng.random() < 0.08:                      # the relaunched-after-failure layout, explicitly
        done, failed, pid, alive = False, True, True, True
    pidfile = "ok"
    if pid and rng.random() < 0.2:
        # the window the scheduler leaves between starting the process and closing the pid file (or a scheduler killed
        # in it): the file is there, empty or cut, and the job process runs
        pidfile = rng.choice(["empty", "truncated"])
        alive = rng.random() < 0.85
    tags = {}
    for t in rng.sample(TAGS, rng.choice([0, 1, 2, 2, 3, 4])):
        tags[t] = gen_value(rng)
        if rng.random() < 0.12:                  # .tag("layers", 3), .tag("lr", 0.1): params.json holds a number
            tags[t] = rng.choice([0, 1, 3, 12, 0.1, 2.5])
    j = dict(task=task or rng.choice(TASKS), hash=hsh or rng.choice(HASHES), done=done, failed=failed, pid=pid,
             alive=alive, tags=tags)
    if pidfile != "ok":
        j["pidfile"] = pidfile
    return j


def gen_var(rng):
    r = rng.random()
    if r < 0.15:
        return "@state"
    if r < 0.30:
        return "@name"
    return rng.choice(TAGS)


def unreadable(j):
    return bool(j["pid"]) and j.get("pidfile", "ok") != "ok"


def maybe_alive(j):
    """a process of the job is alive, or nobody can tell: the pid file is there but cannot be read (yet)"""
    return bool(j["pid"]) and (j["alive"] or unreadable(j))


def true_state(j):
    """The state of a job directory as the property understands it."""
    if j["done"]:
        return "DONE"
    if j["failed"]:
        return "RUNNING" if maybe_alive(j) else "ERROR"
    if j["pid"]:
        return "RUNNING"
    return None


def lookup(v, j):
    if v == "@state":
        return true_state(j)
    if v == "@name":
        return j["task"]
    x = j["tags"].get(v)
    return x if x is None or isinstance(x, str) else str(x)        # a numeric tag is compared through its text


def near(rng, v, j):
    """a constant close to the value `v` has on job `j`"""
    cur = lookup(v, j)
    if cur is not None and rng.random() < 0.5:
        return cur
    if v == "@state" and rng.random() < 0.7:
        return rng.choice(STATES)
    if v == "@name" and rng.random() < 0.7:
        return rng.choice(TASKS)
    return gen_value(rng)


def gen_regex(rng, depth, hint=None):
    """regex AST; `hint` = a string the regex should have a chance to match"""
    if hint is not None and rng.random() < 0.6:
        # literal prefix of the hint with some characters generalised
        k = rng.randint(0, min(len(hint), 4))
        parts = []
        for ch in hint[:k]:
            if ch in RECHARS and rng.random() < 0.7:
                parts.append(["chr", ch])
            elif ch in RESPECIAL and rng.random() < 0.75:
                parts.append(["chr", ch])                 # printed with a backslash
            elif ch.isdigit() and rng.random() < 0.5:
                parts.append(["digit"])                   # \d
            else:
                parts.append(["any"])
            if rng.random() < 0.2:
                parts[-1] = ["star", parts[-1]]
        if rng.random() < 0.3:
            parts.append(["star", ["any"]])
        r = ["eps"]
        for p in parts:
            r = p if r == ["eps"] else ["cat", r, p]
        return r
    if depth <= 0 or rng.random() < 0.3:
        return rng.choice([["chr", rng.choice(RECHARS)], ["chr", rng.choice("ab")], ["any"], ["eps"],
                           ["chr", rng.choice(RESPECIAL)], ["digit"]])
    k = rng.choice(["cat", "cat", "alt", "star"])
    if k == "star":
        return ["star", gen_regex(rng, depth - 1)]
    return [k, gen_regex(rng, depth - 1), gen_regex(rng, depth - 1)]


def gen_atom(rng, j):
    k = rng.choice(["eq", "in", "notin", "regex"])
    v = gen_var(rng)
    if k == "eq":
        if rng.random() < 0.2:
            return dict(k="eq", v=v, o=dict(var=gen_var(rng)))
        return dict(k="eq", v=v, o=dict(const=near(rng, v, j)))
    if k in ("in", "notin"):
        return dict(k=k, v=v, l=[near(rng, v, j) for _ in range(rng.choice([1, 2, 2, 3]))])
    return dict(k="regex", v=v, re=gen_regex(rng, 3, lookup(v, j)), eol=rng.random() < 0.3, bol=rng.random() < 0.25)


def gen_expr(rng, j):
    n = rng.choice([1, 1, 2, 2, 3, 3, 4, 5])
    mode = rng.choice(["and", "or", "mixed", "mixed"])
    first = gen_atom(rng, j)
    rest = [[rng.choice(["and", "or"]) if mode == "mixed" else mode, gen_atom(rng, j)] for _ in range(n - 1)]
    return dict(first=first, rest=rest)


def gen_access(rng):
    """how the command reaches the workspace (the folder, a symbolic link to it, a path through `..`, a relative path) and
    under which of its paths the experiment wrote the absolute links of the index -- none of it changes what is selected"""
    a = rng.choice(["direct", "direct", "symlink", "symlink", "dotdot", "relative"])
    return dict(access=a, index_via=rng.choice(["real", "access"]) if a in ("symlink", "dotdot") else "real")


def gen_ws(rng, small=False, links=False):
    njobs = rng.choice([0, 1, 2, 2, 3, 3, 4, 5, 6] if not small else [1, 2, 3])
    keys, jobs = set(), []
    tasks = rng.sample(TASKS, rng.choice([1, 2, 2, 3]))
    for _ in range(njobs):
        t, h = rng.choice(tasks), rng.choice(HASHES)
        if (t, h) in keys:
            continue
        keys.add((t, h))
        jobs.append(gen_job(rng, t, h))
    keys = sorted(keys)
    lks = []
    if links and keys:
        # entries of jobs/<task>/ that are links to a job directory, as `deprecated list --fix` leaves them
        # (jobs/<new task>/<new id> -> jobs/<old task>/<old id>); now and then the directory behind is gone
        for _ in range(rng.choice([1, 1, 2, 3])):
            t, h = rng.choice(TASKS), rng.choice(HASHES)
            if (t, h) in keys or any((t, h) == (l["task"], l["hash"]) for l in lks):
                continue
            to = list(rng.choice(keys)) if rng.random() < 0.9 else [rng.choice(TASKS), "ffff"]
            lks.append(dict(task=t, hash=h, to=to))
        keys = sorted(set(keys) | {(l["task"], l["hash"]) for l in lks})
    xps = []
    names = rng.sample(XPS, rng.choice([0, 1, 1, 2, 2, 3]))
    if names and rng.random() < 0.4:          # two experiments whose names are parts of one another (bert / distilbert-v2)
        rel = [n for n in XPS if n not in names and any(n in m or m in n for m in names)]
        if rel:
            names.append(rng.choice(rel))
    for name in names:
        def subset():
            ks = [list(k) for k in keys if rng.random() < 0.45]
            if rng.random() < 0.15:                                  # an entry whose job directory is gone
                ks.append([rng.choice(TASKS), rng.choice(HASHES)])
            out = []
            for k in ks:
                if k not in out:
                    out.append(k)
            return out
        xps.append(dict(name=name, jobs=subset(), bak=subset() if rng.random() < 0.4 else None))
    out = dict(jobs=jobs, xps=xps)
    if lks:
        out["links"] = lks
    if rng.random() < 0.2:
        # entries of jobs/<task>/ that are not directories: a stray file, a link whose target is gone
        used = set(keys)
        strays = []
        for _ in range(rng.choice([1, 1, 2])):
            t, h = rng.choice(tasks + TASKS[:2]), rng.choice(HASHES + ["notes.txt", "tmp"])
            if (t, h) not in used:
                used.add((t, h))
                strays.append(dict(task=t, name=h, kind=rng.choice(["file", "dangling"])))
        if strays:
            out["strays"] = strays
    return out


# ------------------------------------------------------------------ printing filters to text
def ws_(rng):
    return rng.choice(["", "", " ", " ", "  ", "\t"])


def quote(rng, s):
    qs = [q for q in "\"'" if q not in s]
    q = rng.choice(qs)
    return q + s + q


def re_text(r, ctx="top"):
    k = r[0]
    if k == "eps":
        return "" if ctx == "top" else "(?:)"
    if k == "chr":
        return r[1] if r[1] not in RESPECIAL else "\\" + r[1]
    if k == "digit":
        return "\\d"
    if k == "any":
        return "."
    if k == "cat":
        return re_text(r[1], "cat") + re_text(r[2], "cat")
    if k == "alt":
        return "(?:" + re_text(r[1], "top") + "|" + re_text(r[2], "top") + ")"
    if k == "star":
        inner = r[1]
        if inner[0] in ("chr", "any", "digit"):
            return re_text(inner, "cat") + "*"
        return "(?:" + re_text(inner, "top") + ")*"
    raise ValueError(k)


def atom_text(rng, a):
    w = lambda: ws_(rng)
    v = a["v"]
    if a["k"] == "eq":
        o = a["o"]
        rhs = o["var"] if "var" in o else quote(rng, o["const"])
        return f"{v}{w()}={w()}{rhs}"
    if a["k"] in ("in", "notin"):
        items = (w() + "," + w()).join(quote(rng, s) for s in a["l"])
        kw = "in" if a["k"] == "in" else "not in"
        return f"{v} {w()}{kw}{w()}[{w()}{items}{w()}]"
    body = ("^" if a["bol"] else "") + re_text(a["re"]) + ("$" if a["eol"] else "")
    return f"{v}{w()}~{w()}{quote(rng, body)}"


def expr_text(rng, e):
    out = ws_(rng) + atom_text(rng, e["first"])
    for op, a in e["rest"]:
        out += " " + ws_(rng) + op + " " + ws_(rng) + atom_text(rng, a)
    return out + ws_(rng)


def atoms_of(e):
    return [e["first"]] + [a for _, a in e["rest"]]


# ------------------------------------------------------------------ Gallina rendering
def g_str(s):
    return "[" + ";".join(str(ord(ch)) for ch in s) + "]"


def g_var(v):
    return {"@state": "VState", "@name": "VName"}.get(v) or f"(VTag {g_str(v)})"


def g_re(r):
    k = r[0]
    if k == "eps":
        return "REps"
    if k == "chr":
        return f"(RChr {ord(r[1])})"
    if k == "digit":                                     # \d on ASCII values: one of 0..9
        out = "(RChr 57)"
        for d in range(56, 47, -1):
            out = f"(RAlt (RChr {d}) {out})"
        return out
    if k == "any":
        return "RAny"
    return "(%s %s)" % ({"cat": "RCat", "alt": "RAlt", "star": "RStar"}[k], " ".join(g_re(x) for x in r[1:]))


def g_atom(a):
    if a["k"] == "eq":
        o = a["o"]
        return f"(AEq {g_var(a['v'])} {'(OVar %s)' % g_var(o['var']) if 'var' in o else '(OConst %s)' % g_str(o['const'])})"
    if a["k"] == "in":
        return f"(AIn {g_var(a['v'])} {glist(g_str(s) for s in a['l'])})"
    if a["k"] == "notin":
        return f"(ANotIn {g_var(a['v'])} {glist(g_str(s) for s in a['l'])})"
    return f"(ARegex {g_var(a['v'])} {{| p_re := {g_re(a['re'])}; p_eol := {gbool(a['eol'])} |}})"


def g_expr(e):
    rest = glist("(%s, %s)" % ("BAnd" if op == "and" else "BOr", g_atom(a)) for op, a in e["rest"])
    return f"{{| x_first := {g_atom(e['first'])}; x_rest := {rest} |}}"


def g_key(k):
    return f"({g_str(k[0])}, {g_str(k[1])})"


def g_job(j):
    tags = glist(f"({g_str(k)}, {g_str(v if isinstance(v, str) else str(v))})" for k, v in j["tags"].items())
    return (f"{{| j_task := {g_str(j['task'])}; j_hash := {g_str(j['hash'])}; j_done := {gbool(j['done'])}; "
            f"j_failed := {gbool(j['failed'])}; j_pid := {gbool(j['pid'])}; j_alive := {gbool(maybe_alive(j))}; "
            f"j_tags := {tags} |}}")


def g_ws(w):
    xps = glist(f"{{| x_name := {g_str(x['name'])}; x_jobs := {glist(g_key(k) for k in x['jobs'])}; "
                f"x_bak := {'None' if x['bak'] is None else '(Some %s)' % glist(g_key(k) for k in x['bak'])} |}}"
                for x in w["xps"])
    return f"{{| w_jobs := {glist(g_job(j) for j in w['jobs'])}; w_xps := {xps} |}}"


def g_ob(r):
    return "None" if r["v"] is None else f"(Some {gbool(r['v'])})"


def g_table(e):
    """the regular expressions of the chain: source text as it stands between the quotes -> pattern"""
    out = []
    for a in (atoms_of(e) if e is not None else []):
        if a["k"] == "regex":
            src = ("^" if a["bol"] else "") + re_text(a["re"]) + ("$" if a["eol"] else "")
            out.append(f"({g_str(src)}, {{| p_re := {g_re(a['re'])}; p_eol := {gbool(a['eol'])} |}})")
    return glist(out)


def g_view(cv):
    """a case as the model is asked about it: through its expression ("ast") or through its text ("text")"""
    c, view = cv
    if view == "ast":
        return g_case(c)
    a = c["ans"]
    if c["kind"] == "near":
        return (f"CParse {g_str(c['text'])} {g_table(c['expr'])} {g_job(c['job'])} {gbool(a['accepted'])} "
                f"{'None' if a['v'] is None else '(Some %s)' % gbool(a['v'])}")
    if c["kind"] == "filter":
        return (f"CParse {g_str(c['text'])} {g_table(c['expr'])} {g_job(c['job'])} {gbool(a['whole']['exc'] is None)} "
                f"{g_ob(a['whole'])}")
    return (f"CCleanText {g_ws(c['ws'])} {g_str(c['experiment'] or '')} {g_str(c['text'])} {g_table(c['expr'])} "
            f"{gbool(c['perform'])} {gbool(a['exc'] is not None)} {glist(g_key(k) for k in a['removed'])}")


def g_case(c):
    a = c["ans"]
    if c["kind"] == "filter":
        st = {None: "None", "DONE": "(Some Done)", "ERROR": "(Some Error)", "RUNNING": "(Some Running)"}.get(
            a["state"], "None" if true_state(c["job"]) is not None else "(Some Done)")   # unknown name: forced mismatch
        return (f"CFilter {g_expr(c['expr'])} {g_job(c['job'])} {st} {g_ob(a['whole'])} "
                f"{glist(g_ob(x) for x in a['atoms'])}")
    if c["kind"] == "clean":
        flt = "None" if c["expr"] is None else f"(Some {g_expr(c['expr'])})"
        o = (f"{{| o_experiment := {g_str(c['experiment'] or '')}; o_filter := {flt}; "
             f"o_perform := {gbool(c['perform'])} |}}")
        return f"CClean {g_ws(c['ws'])} {o} {gbool(a['exc'] is not None)} {glist(g_key(k) for k in a['removed'])}"
    if c["ws"].get("links"):
        lks = glist(f"({g_key([l['task'], l['hash']])}, {g_key(l['to'])})" for l in c["ws"]["links"])
        return (f"COrphansL {g_ws(c['ws'])} {lks} {gbool(c['clean'])} {gbool(c['ignore_old'])} "
                f"{gbool(a['exc'] is not None)} {glist(g_key(k) for k in a['removed'])}")
    return (f"COrphans {g_ws(c['ws'])} {gbool(c['clean'])} {gbool(c['ignore_old'])} "
            f"{glist(g_key(k) for k in a['removed'])}")


# ------------------------------------------------------------------ the property over the observables
def o_atom(a, j, lookup=lookup):
    """documented meaning of one test (independent of the Coq model)"""
    cur = lookup(a["v"], j)
    if a["k"] == "eq":
        o = a["o"]
        # a missing tag equals nothing (not even another missing tag: `model = bm25` with the quotes forgotten)
        return cur is not None and cur == (lookup(o["var"], j) if "var" in o else o["const"])
    if a["k"] == "in":
        return cur is not None and cur in a["l"]
    if a["k"] == "notin":
        return not (cur is not None and cur in a["l"])
    if cur is None:
        return False            # (an empty value is a value: `x ~ ".*"` matches it)
    rx = re.compile(re_text(a["re"]))
    if a["eol"]:
        return rx.fullmatch(cur) is not None
    return any(rx.fullmatch(cur[:i]) is not None for i in range(len(cur) + 1))


def o_expr(e, j):
    acc = o_atom(e["first"], j)
    for op, a in e["rest"]:
        b = o_atom(a, j)
        acc = (acc and b) if op == "and" else (acc or b)
    return acc


# ------------------------------------------------------------------ strings near the grammar
# A text that is not in the documented grammar (or sits on its edge) is either rejected -- createFilter raises, nothing is
# evaluated, nothing is deleted -- or it is evaluated with the meaning its spelling has: a keyword in another case is that
# keyword, && is and, a bracketed sub-chain is evaluated first, != is the negation of =.  `reading` is that meaning as a tree
# (["atom", a] | ["not", t] | ["and", t, u] | ["or", t, u]); None = no reading, the text must be rejected.
def malformed_cause(text, label):
    """why an unreadable text may have been accepted: `and`/`or` taken out of a longer word (`"a" order = "b"` read as
    `"a" or der = "b"`), else the way the text was derived"""
    bare = re.sub(r'"[^"]*"|\'[^\']*\'', '""', text or "")
    if re.search(r"(and|or)[A-Za-z0-9_$]|[A-Za-z0-9_$](and|or)", bare):
        return "keyword-inside-word"
    return label


def chain_tree(e):
    t = ["atom", e["first"]]
    for op, a in e["rest"]:
        t = [op, t, ["atom", a]]
    return t


def o_tree(t, j):
    k = t[0]
    if k == "atom":
        return o_atom(t[1], j)
    if k == "not":
        return not o_tree(t[1], j)
    if k == "and":
        return o_tree(t[1], j) and o_tree(t[2], j)
    return o_tree(t[1], j) or o_tree(t[2], j)


def recase(rng, w):
    """another spelling of the keyword w, differing by case only"""
    outs = {w.upper(), w.capitalize(), w.title(), w[:-1] + w[-1].upper(),
            "".join(ch.upper() if i % 2 else ch for i, ch in enumerate(w))} - {w}
    return rng.choice(sorted(outs))


def atom_text_near(rng, a, kw=None, eqsym=None, var=None, bra="[]", sep=","):
    """atom_text with one token spelled differently"""
    w = lambda: ws_(rng)
    v = var if var is not None else a["v"]
    if a["k"] == "eq":
        o = a["o"]
        rhs = o["var"] if "var" in o else quote(rng, o["const"])
        return f"{v}{w()}{eqsym or '='}{w()}{rhs}"
    if a["k"] in ("in", "notin"):
        items = (w() + sep + w()).join(quote(rng, s) for s in a["l"])
        k = kw if kw is not None else ("in" if a["k"] == "in" else "not in")
        return f"{v} {w()}{k}{w()}{bra[0]}{w()}{items}{w()}{bra[1]}"
    body = ("^" if a["bol"] else "") + re_text(a["re"]) + ("$" if a["eol"] else "")
    return f"{v}{w()}{eqsym or '~'}{w()}{quote(rng, body)}"


def force_kind(rng, e, j, kinds, i=None):
    """make sure the chain has a test of one of the kinds; returns its index"""
    ats = atoms_of(e)
    idx = [k for k, a in enumerate(ats) if a["k"] in kinds and (i is None or k == i)]
    if idx:
        return rng.choice(idx)
    k = rng.randrange(len(ats)) if i is None else i
    while True:
        a = gen_atom(rng, j)
        if a["k"] in kinds:
            break
    if k == 0:
        e["first"] = a
    else:
        e["rest"][k - 1][1] = a
    return k


NEAR_LABELS = ["op-case", "op-case", "op-case", "op-symbol", "kw-case", "kw-case", "notin-spelling", "eq-symbol", "neq-symbol",
               "var-case", "paren-whole", "paren-sub", "not-prefix", "no-spaces", "odd-whitespace", "bracket-kind",
               "tag-nonalpha", "trailing-op", "leading-op", "double-op", "missing-bracket", "trailing-comma", "empty-list",
               "unclosed-quote", "junk-suffix", "missing-operand", "comma-join", "list-no-commas", "in-string", "regex-var"]


def gen_near(rng, j, label=None):
    """(base chain, text near the grammar, reading, label)"""
    label = label or rng.choice(NEAR_LABELS)
    e = gen_expr(rng, j)
    e["rest"] = e["rest"][:rng.choice([0, 1, 1, 2, 2, 3])]
    if label in ("op-case", "op-symbol", "double-op", "comma-join", "no-spaces") and not e["rest"]:
        e["rest"].append([rng.choice(["and", "or"]), gen_atom(rng, j)])
    if label == "paren-sub":
        while len(e["rest"]) < 2:
            e["rest"].append([rng.choice(["and", "or"]), gen_atom(rng, j)])
        if e["rest"][0][0] == e["rest"][1][0]:               # make the bracketing matter
            e["rest"][1][0] = "or" if e["rest"][0][0] == "and" else "and"
    ats = atoms_of(e)
    texts = [atom_text(rng, a) for a in ats]
    ops = [op for op, _ in e["rest"]]
    reading = "chain"

    def join(texts, ops, sp=lambda: " " + ws_(rng)):
        out = texts[0]
        for op, t in zip(ops, texts[1:]):
            out += sp() + op + sp() + t
        return out

    if label == "op-case":
        i = rng.randrange(len(ops))
        ops[i] = recase(rng, ops[i])
        text = join(texts, ops)
    elif label == "op-symbol":
        i = rng.randrange(len(ops))
        ops[i] = rng.choice(["&&", "&"] if ops[i] == "and" else ["||", "|"])
        text = join(texts, ops)
    elif label == "kw-case":
        i = force_kind(rng, e, j, ("in", "notin"))
        a = atoms_of(e)[i]
        kw = recase(rng, "in") if a["k"] == "in" else rng.choice(["NOT IN", "Not in", "not IN", "NOT in", "Not In"])
        texts[i] = atom_text_near(rng, a, kw=kw)
        text = join(texts, ops)
    elif label == "notin-spelling":
        i = force_kind(rng, e, j, ("notin",))
        texts[i] = atom_text_near(rng, atoms_of(e)[i], kw=rng.choice(["not  in", "not\tin", "notin", "not_in", "not-in", "!in", "not\nin"]))
        text = join(texts, ops)
    elif label in ("eq-symbol", "neq-symbol"):
        i = force_kind(rng, e, j, ("eq",))
        a = atoms_of(e)[i]
        sym = rng.choice(["==", ":", "is", "= ="]) if label == "eq-symbol" else rng.choice(["!=", "<>"])
        texts[i] = atom_text_near(rng, a, eqsym=(" " + sym + " ") if sym == "is" else sym)
        text = join(texts, ops)
        if label == "neq-symbol":
            reading = ("negate", i)
    elif label == "var-case":
        i = rng.randrange(len(ats))
        a = atoms_of(e)[i]
        a["v"] = rng.choice(["@state", "@name"])
        if a["k"] == "eq" and "const" in a["o"]:
            a["o"]["const"] = near(rng, a["v"], j)
        texts[i] = atom_text_near(rng, a, var=rng.choice([a["v"].upper(), "@" + a["v"][1:].capitalize()]))
        text = join(texts, ops)
    elif label == "paren-whole":
        text = "(" + ws_(rng) + join(texts, ops) + ws_(rng) + ")"
    elif label == "paren-sub":
        # a op1 (b op2 c ...) : the bracketed sub-chain is evaluated first
        k = rng.randrange(1, len(ats) - 1) if len(ats) > 2 else 1
        text = join(texts[:k] + ["(" + ws_(rng) + join(texts[k:], ops[k:]) + ws_(rng) + ")"], ops[:k])
        reading = ("bracket", k)
    elif label == "not-prefix":
        text = "not " + ws_(rng) + join(texts, ops)
        reading = ("negate", 0)
    elif label == "no-spaces":
        text = join(texts, ops, sp=lambda: "")
    elif label == "odd-whitespace":
        sep = rng.choice(["\x0b", "\x0c", "\xa0", "\u2003", "\r\n", "\r", "\n\n"])
        if ops:
            i = rng.randrange(len(ops))
            ops[i] = sep + ops[i] if rng.random() < 0.5 else ops[i] + sep
            text = join(texts, ops, sp=lambda: "")
            text = text if rng.random() < 0.5 else sep + text
        else:
            text = sep + texts[0] if rng.random() < 0.5 else texts[0] + sep
    elif label == "bracket-kind":
        i = force_kind(rng, e, j, ("in", "notin"))
        texts[i] = atom_text_near(rng, atoms_of(e)[i], bra=rng.choice(["()", "{}", "<>"]))
        text = join(texts, ops)
    elif label == "tag-nonalpha":
        i = rng.randrange(len(ats))
        a = atoms_of(e)[i]
        a["v"] = rng.choice(["x_1", "x1", "lr2", "my-tag", "a.b", "x y"])
        texts[i] = atom_text_near(rng, a)
        text = join(texts, ops)
        reading = None if a["v"] == "x y" else "chain"
    else:
        reading = None
        base = join(texts, ops)
        op = rng.choice(["and", "or"])
        if label == "trailing-op":
            text = base + " " + op + ws_(rng)
        elif label == "leading-op":
            text = ws_(rng) + op + " " + base
        elif label == "double-op":
            i = rng.randrange(len(ops))
            ops[i] = ops[i] + " " + rng.choice(["and", "or"])
            text = join(texts, ops)
        elif label in ("missing-bracket", "trailing-comma", "empty-list", "list-no-commas", "in-string"):
            i = force_kind(rng, e, j, ("in", "notin"))
            a = atoms_of(e)[i]
            if label == "missing-bracket":
                t = atom_text_near(rng, a, bra=rng.choice([["[", ""], ["", "]"], ["", ""], ["[", "]]"], ["[[", "]"]]))
            elif label == "trailing-comma":
                t = atom_text_near(rng, a, bra=["[", rng.choice([",]", ", ]", ",,]"])])
                if rng.random() < 0.3:
                    t = atom_text_near(rng, a, bra=[rng.choice(["[,", "[ ,"]), "]"])
            elif label == "empty-list":
                t = atom_text_near(rng, dict(a, l=[]))
            elif label == "list-no-commas":
                t = atom_text_near(rng, dict(a, l=(a["l"] + a["l"])[:max(2, len(a["l"]))]), sep=rng.choice([" ", ";", "|", ""]))
            else:
                t = atom_text_near(rng, dict(a, l=a["l"][:1]), bra=["", ""])
            texts[i] = t
            text = join(texts, ops)
        elif label == "unclosed-quote":
            q = rng.choice("\"'")
            text = base + " " + op + " x = " + q + rng.choice(["a", "", "a b"]) + rng.choice(["", {"'": '"', '"': "'"}[q]])
        elif label == "junk-suffix":
            text = base + rng.choice([" xyz", ";", ")", " ]", ",", " =", " \"a\"", " 1", ".", " #c"])
        elif label == "missing-operand":
            text = rng.choice([base + " " + op + " x =", base + " " + op + " = \"a\"", "= \"a\"", "x =", "x", "\"a\"",
                               "x in", "x ~", base + " " + op + " x", "", " ", "\t"])
        elif label == "comma-join":
            i = rng.randrange(len(ops))
            ops[i] = rng.choice([",", ";", ""])
            text = join(texts, ops)
        else:   # regex-var: the pattern of ~ is not a quoted string
            text = base + " " + op + " x ~ " + rng.choice(["y", "a.*", "/a/", "[\"a\"]"])
    e2 = dict(first=atoms_of(e)[0], rest=[[op, a] for (op, _), a in zip(e["rest"], atoms_of(e)[1:])])
    if reading == "chain":
        tree = chain_tree(e2)
    elif reading is None:
        tree = None
    elif reading[0] == "negate":
        ats2 = atoms_of(e2)
        tree = ["atom", ats2[0]] if reading[1] != 0 else ["not", ["atom", ats2[0]]]
        for k, (op, a) in enumerate(e2["rest"], start=1):
            tree = [op, tree, ["not", ["atom", a]] if reading[1] == k else ["atom", a]]
    else:   # bracket at k
        k = reading[1]
        ats2 = atoms_of(e2)
        left = ["atom", ats2[0]]
        for op, a in e2["rest"][:k - 1]:
            left = [op, left, ["atom", a]]
        right = ["atom", ats2[k]]
        for op, a in e2["rest"][k:]:
            right = [op, right, ["atom", a]]
        tree = [e2["rest"][k - 1][0], left, right]
    return dict(expr=e2, text=text, reading=tree, label=label)


def numeric_tag(a, j):
    """the test looks at a tag whose value is a number in params.json"""
    vs = [a["v"]] + ([a["o"]["var"]] if a["k"] == "eq" and "var" in a["o"] else [])
    return any(not v.startswith("@") and v in j["tags"] and not isinstance(j["tags"][v], str) for v in vs)


def odd_tagname(a):
    """the test names a tag with a digit or an underscore (alphanumeric, as the help of `jobs` says)"""
    vs = [a["v"]] + ([a["o"]["var"]] if a["k"] == "eq" and "var" in a["o"] else [])
    return any(not v.startswith("@") and not v.isalpha() for v in vs)


def has_backslash(a):
    """a string of the test holds a backslash (escape of a regular expression, Windows path, ...)"""
    if a["k"] == "eq":
        return "const" in a["o"] and "\\" in a["o"]["const"]
    if a["k"] in ("in", "notin"):
        return any("\\" in x for x in a["l"])
    return "\\" in re_text(a["re"])


def hides_live(j):
    return (not j["done"]) and j["failed"] and j["pid"] and j["alive"] and not unreadable(j)


def blame(case, ans, k=None):
    """kind of the first test of the filter that, on its own, raises / answers wrongly on job k"""
    if case["expr"] is None:
        return "other"
    if case.get("near"):
        return "near-grammar:" + case["near"]["label"]
    jobs = {(j["task"], j["hash"]): j for j in case["ws"]["jobs"]}
    for a, r in zip(atoms_of(case["expr"]), ans.get("atoms") or []):
        if k is None:
            if r["build_exc"] is not None:
                return "tag-name" if (odd_tagname(a) and r["build_exc"] == "ParseException") else a["k"]
        else:
            v = r["verdicts"].get(f"{k[0]}/{k[1]}")
            if v is None or v != o_atom(a, jobs[k]):
                if a["k"] == "eq" and lookup(a["v"], jobs[k]) is None and v is True:
                    return "eq-missing-tags"
                if a["k"] == "regex" and lookup(a["v"], jobs[k]) == "":
                    return "empty-value"
                if numeric_tag(a, jobs[k]):
                    return "numeric-tag"
                return "backslash" if (v is not None and has_backslash(a)) else a["k"]
    return "chain"


def oracle(case, ans):
    """list of (key, what) describing how the implementation's observables break the property"""
    out = []
    kind = case["kind"]
    if kind == "filter":
        j, e = case["job"], case["expr"]
        atom_ok = True
        if ans.get("state_exc"):
            atom_ok = False
            out.append(("C19:state-raises:unreadable-pid" if unreadable(j) else "C19:state-raises",
                        f"JobInformation.state raises {ans['state_exc']}"))
        elif ans["state"] != true_state(j):
            atom_ok = False
            if unreadable(j) and j["alive"] and ans["state"] == "ERROR":
                out.append(("C19:state-hides-live-process:unreadable-pid",
                            "JobInformation.state is ERROR for a relaunched job whose process runs and whose pid file is "
                            "still empty or cut"))
            elif hides_live(j) and ans["state"] == "ERROR":
                out.append(("C19:state-hides-live-process",
                            "JobInformation.state is ERROR for a relaunched job whose process is alive"))
            else:
                out.append((f"C19:state-wrong:{true_state(j)}-reported-{ans['state']}",
                            "JobInformation.state does not follow the marker files"))
        impl_lookup = lambda v, jj: ans["state"] if v == "@state" else lookup(v, jj)   # noqa: E731
        for a, r in zip(atoms_of(e), ans["atoms"]):
            want = o_atom(a, j)
            uses_state = a["v"] == "@state" or (a["k"] == "eq" and a["o"].get("var") == "@state")
            if r["exc"] is not None:
                atom_ok = False
                if odd_tagname(a) and r["exc"] == "ParseException":
                    out.append(("C19:filter:tag-name-rejected",
                                "a test on a tag whose name holds a digit or an underscore is rejected by the grammar"))
                elif numeric_tag(a, j):
                    out.append(("C19:filter:numeric-tag", f"a `{a['k']}` test on a tag whose value is a number raises {r['exc']}"))
                elif not (ans.get("state_exc") and uses_state):          # already reported with the state
                    out.append((f"C19:filter:{a['k']}-raises", f"a `{a['k']}` test raises {r['exc']}"))
            elif r["v"] != want:
                atom_ok = False
                if r["v"] != o_atom(a, j, impl_lookup):     # not explained by the state alone
                    if a["k"] == "eq" and lookup(a["v"], j) is None and r["v"] is True:
                        out.append(("C19:filter:eq-missing-tags",
                                    "`a = b` answers True for a job that has neither tag (None == None): with the quotes "
                                    "forgotten, `model = bm25` selects every job without a model tag"))
                    elif a["k"] == "regex" and lookup(a["v"], j) == "":
                        out.append(("C19:filter:regex-empty-value",
                                    "a `~` test on a tag whose value is the empty string answers False although the "
                                    "regular expression matches the empty string"))
                    elif numeric_tag(a, j):
                        out.append(("C19:filter:numeric-tag",
                                    f"a `{a['k']}` test on a tag whose value is a number answers {r['v']} where the "
                                    f"comparison with the text of the number gives {want}"))
                    elif has_backslash(a):
                        out.append(("C19:filter:backslash-not-literal",
                                    f"a `{a['k']}` test whose string holds a backslash answers {r['v']} where what is "
                                    f"written means {want}: the string is not taken as it is written"))
                    else:
                        out.append((f"C19:filter:{a['k']}-{str(r['v']).lower()}",
                                    f"a `{a['k']}` test answers {r['v']} where its documented meaning is {want}"))
        want = o_expr(e, j)
        r = ans["whole"]
        if atom_ok and (r["exc"] is not None or r["v"] != want):
            out.append(("C19:filter:chain-wrong", f"every test is right but the and/or chain answers {r} instead of {want}"))
        return out
    if kind == "near":
        lab, rd = case["label"], case["reading"]
        if not ans["accepted"]:
            return out                                   # rejected: nothing is evaluated
        if rd is None:
            out.append((f"C19:filter:accepts-malformed:{malformed_cause(case['text'], lab)}",
                        "createFilter accepts a text that has no reading in the filter language"))
        elif ans["eval_exc"] is not None and unreadable(case["job"]) and case["job"]["failed"] and not case["job"]["done"]:
            out.append(("C19:state-raises:unreadable-pid", f"evaluating the filter raises {ans['eval_exc']}"))
        elif ans["eval_exc"] is not None and any(numeric_tag(a, case["job"]) for a in atoms_of(case["expr"])):
            out.append(("C19:filter:numeric-tag", f"evaluating the filter raises {ans['eval_exc']}"))
        elif ans["eval_exc"] is not None:
            out.append((f"C19:filter:near-grammar-raises:{lab}",
                        f"the text is accepted, then evaluating it raises {ans['eval_exc']}"))
        elif ans["v"] != o_tree(rd, case["job"]):
            out.append((f"C19:filter:near-grammar-wrong:{lab}",
                        f"the text is accepted but answers {ans['v']} where what is written means {o_tree(rd, case['job'])}"))
        return out
    w = case["ws"]
    removed = [tuple(k) for k in ans["removed"]]
    jobs = {(j["task"], j["hash"]): j for j in w["jobs"]}
    if kind == "clean" and (ans["extra_removed"] or ans["created"]):
        out.append(("C19:clean-collateral", "paths outside the removed job directories changed"))
    if kind == "clean":
        near_ = case.get("near")
        sel = (lambda jj: o_expr(case["expr"], jj)) if case["expr"] is not None else (lambda jj: True)
        if near_ is not None:
            # the filter is a text near the grammar: rejected (the command fails before it touches anything) or
            # evaluated as what is written
            if ans["accepts"] is False:
                if removed:
                    out.append(("C19:clean-removes-after-reject", "jobs clean removed directories although the filter was rejected"))
                if ans["exc"] is None:
                    out.append(("C19:clean-ignores-rejected-filter", "jobs clean goes on although createFilter rejects the filter"))
                return out
            if near_["reading"] is None:
                out.append((f"C19:clean-accepts-malformed:{malformed_cause(case['text'], near_['label'])}",
                            "jobs clean accepts a filter that has no reading in the filter language"))
                sel = lambda jj: False                                             # noqa: E731
            else:
                sel = lambda jj: o_tree(near_["reading"], jj)                      # noqa: E731
        if ans["exc"] is not None:
            cause = ("stray-entry" if (w.get("strays") and "--ready" in case.get("flags", []))
                     else "unreadable-pid" if any(unreadable(jj) and jj["failed"] and not jj["done"] for jj in jobs.values())
                     else "numeric-tag" if case["expr"] is not None and not case.get("near") and any(
                         numeric_tag(a, jj) for a in atoms_of(case["expr"]) for jj in jobs.values())
                     else blame(case, ans))
            out.append((f"C19:clean-raises:{cause}", f"jobs clean raises {ans['exc']}"))
        want = set()
        for k, j in jobs.items():
            if not case["perform"]:
                continue
            if true_state(j) not in ("DONE", "ERROR"):
                continue
            if case["experiment"] and not any(x["name"] == case["experiment"] and list(k) in x["jobs"]
                                              for x in w["xps"]):
                continue
            if not sel(j):
                continue
            want.add(k)
        for k in removed:
            j = jobs[k]
            if (not j["done"]) and j["pid"] and j["alive"]:
                out.append(("C19:clean-removes-running" + (":unreadable-pid" if unreadable(j) else ""),
                            "jobs clean removed the directory of a job whose process is alive"))
            elif k not in want:
                if not case["perform"]:
                    out.append(("C19:clean-without-perform", "jobs clean removed a directory without --perform"))
                elif true_state(j) not in ("DONE", "ERROR"):
                    out.append(("C19:clean-removes-unfinished", "jobs clean removed a job that is not finished"))
                elif case["experiment"] and not any(x["name"] == case["experiment"] and list(k) in x["jobs"]
                                                    for x in w["xps"]):
                    out.append(("C19:clean-removes-unselected:experiment",
                                "jobs clean --experiment removed a job that is not part of that experiment"))
                else:
                    out.append((f"C19:clean-removes-unselected:{blame(case, ans, k)}",
                                "jobs clean removed a job the filter does not select"))
        if ans["exc"] is None:
            for k in sorted(want - set(removed)):
                out.append((f"C19:clean-misses-selected:{blame(case, ans, k)}",
                            "jobs clean --perform kept a finished job that is selected"))
        return out
    # orphans.  An entry of jobs/<task>/ may be a link to a job directory (deprecated list --fix): the job directory an
    # index entry refers to is the one the entry resolves to; a link is not a job directory.
    links = {(l["task"], l["hash"]): tuple(l["to"]) for l in w.get("links", [])}
    refkeys = set()
    for x in w["xps"]:
        refkeys.update(tuple(k) for k in x["jobs"])
        if not case["ignore_old"]:
            refkeys.update(tuple(k) for k in (x["bak"] or []))
    ref = {links.get(k, k) for k in refkeys}
    orphan_links = [k for k, t in links.items() if k not in refkeys and t in jobs]
    if ans["exc"] is not None:
        out.append(("C19:orphans-raises:link-entry" if (orphan_links and case["clean"]) else "C19:orphans-raises",
                    f"orphans raises {ans['exc']}"))
    # a link that is in no index may go (it is not a job directory); anything else that changed is collateral
    may_go = {f"jobs/{t}/{h}" for (t, h) in links if (t, h) not in refkeys} if case["clean"] else set()
    if set(ans["extra_removed"]) - may_go or ans["created"]:
        out.append(("C19:orphans-collateral", "paths outside the removed job directories changed"))
    want = {k for k in jobs if k not in ref} if case["clean"] else set()
    for k in removed:
        if k not in want:
            if not case["clean"]:
                out.append(("C19:orphans-without-clean", "orphans removed a job directory it must keep"))
            elif k in refkeys:
                out.append(("C19:orphans-removes-referenced", "orphans removed a job directory it must keep"))
            else:
                out.append(("C19:orphans-removes-referenced:through-link",
                            "orphans removed a job directory that an index entry leads to through a link"))
    if ans["exc"] is None and want - set(removed):
        out.append(("C19:orphans-misses-orphan", "orphans --clean kept a directory no index refers to"))
    return out


# ------------------------------------------------------------------ running the implementation
def payload_case(c):
    if c["kind"] == "filter":
        return dict(kind="filter", text=c["text"], atom_texts=c["atom_texts"], job=c["job"])
    if c["kind"] == "near":
        return dict(kind="near", text=c["text"], job=c["job"])
    if c["kind"] == "clean":
        return dict(kind="clean", access=c.get("access"), index_via=c.get("index_via"), ws=c["ws"], experiment=c["experiment"], filter=c["text"], perform=c["perform"],
                    flags=c.get("flags", []), atom_texts=c.get("atom_texts"))
    if c["kind"] == "real":
        return dict(kind="real", plan=c["plan"], experiment=c["experiment"], filter=c["text"], perform=c["perform"],
                    flags=[], atom_texts=c.get("atom_texts"))
    return dict(kind="orphans", ws=c["ws"], clean=c["clean"], ignore_old=c["ignore_old"], show_all=c.get("show_all", False),
                access=c.get("access"), index_via=c.get("index_via"))


def run_cases(c, cases, tag="r"):
    if not cases:
        return []
    # the slow cases (real scheduler) get a driver process each, the others are dealt round-robin
    slow = [i for i, x in enumerate(cases) if x["kind"] == "real"]
    fast = [i for i, x in enumerate(cases) if x["kind"] != "real"]
    nchunk = min(16, max(1, len(fast) // 40))
    groups = [[i] for i in slow] + [fast[k::nchunk] for k in range(nchunk) if fast[k::nchunk]]

    def one(g):
        return run_impl("drive_c19.py", dict(root=str(c.scratch() / f"{tag}{groups[g][0]}"),
                                             cases=[payload_case(cases[i]) for i in groups[g]]), timeout=1500)

    with ThreadPoolExecutor(max_workers=24) as ex:
        res = list(ex.map(one, range(len(groups))))
    out = [None] * len(cases)
    for g, r in zip(groups, res):
        for i, a in zip(g, r):
            out[i] = a
    return out


def with_texts(rng, c):
    """(re)print the filter of a case"""
    if c["kind"] == "filter":
        c["text"] = expr_text(rng, c["expr"])
        c["atom_texts"] = [atom_text(rng, a) for a in atoms_of(c["expr"])]
    elif c["kind"] in ("clean", "real"):
        if not c.get("near"):
            c["text"] = None if c["expr"] is None else expr_text(rng, c["expr"])
        c["atom_texts"] = None if c["expr"] is None else [atom_text(rng, a) for a in atoms_of(c["expr"])]
    return c


# ------------------------------------------------------------------ shrinking
def candidates(case):
    out = []

    def put(mod):
        x = copy.deepcopy(case)
        mod(x)
        out.append(x)

    e = case.get("expr")
    if e is not None and case["kind"] != "near" and not case.get("near"):     # a text near the grammar is kept as it is
        ats = atoms_of(e)
        if len(ats) > 1:
            for a in ats:
                put(lambda x, a=a: x.update(expr=dict(first=copy.deepcopy(a), rest=[])))
            put(lambda x: x["expr"]["rest"].pop())
        if case["kind"] == "clean":
            put(lambda x: x.update(expr=None))
    if case["kind"] in ("filter", "near"):
        for t in list(case["job"]["tags"]):
            put(lambda x, t=t: x["job"]["tags"].pop(t))
        return out
    w = case["ws"]
    for i in range(len(w["jobs"])):
        put(lambda x, i=i: x["ws"]["jobs"].pop(i))
    for i in range(len(w["xps"])):
        put(lambda x, i=i: x["ws"]["xps"].pop(i))
        for sub in ("jobs", "bak"):
            for k in range(len(w["xps"][i][sub] or [])):
                put(lambda x, i=i, sub=sub, k=k: x["ws"]["xps"][i][sub].pop(k))
        if w["xps"][i]["bak"] is not None:
            put(lambda x, i=i: x["ws"]["xps"][i].update(bak=None))
    for i in range(len(w.get("links", []))):
        put(lambda x, i=i: x["ws"]["links"].pop(i))
    for i in range(len(w.get("strays", []))):
        put(lambda x, i=i: x["ws"]["strays"].pop(i))
    for i, j in enumerate(w["jobs"]):
        if j["tags"]:
            put(lambda x, i=i: x["ws"]["jobs"][i].update(tags={}))
    if case["kind"] == "clean" and case["experiment"]:
        put(lambda x: x.update(experiment=None))
    if case.get("access") not in (None, "direct"):
        put(lambda x: x.update(access="direct", index_via="real"))
        put(lambda x: x.update(index_via="real"))
    return out


SHRINKS = [0]


def shrink(c, case, key, rounds=12):
    cur = case
    for r in range(rounds):
        cands = [with_texts(c.rng, x) for x in candidates(cur)]
        if not cands:
            break
        SHRINKS[0] += 1
        answers = run_cases(c, cands, tag=f"s{SHRINKS[0]}_")
        nxt = None
        for x, a in zip(cands, answers):
            if any(k == key for k, _ in oracle(x, a)):
                x["ans"] = a
                nxt = x
                break
        if nxt is None:
            break
        cur = nxt
    return cur


# ------------------------------------------------------------------ fixed cases that run first
def sweep_cases():
    """every combination of the marker files x every state name; every combination under jobs clean"""
    out = []
    for bits in range(16):
        d, f, p, a = bool(bits & 8), bool(bits & 4), bool(bits & 2), bool(bits & 1)
        if a and not p:
            continue
        j = dict(task="pkg.mod.task", hash="0a1b", done=d, failed=f, pid=p, alive=a, tags={"x": "a"})
        for s in STATES:
            out.append(dict(kind="filter", job=j, expr=dict(first=dict(k="eq", v="@state", o=dict(const=s)), rest=[])))
        out.append(dict(kind="filter", job=j, expr=dict(first=dict(k="notin", v="@state", l=STATES), rest=[])))
        for perform in (True, False):
            out.append(dict(kind="clean", ws=dict(jobs=[j], xps=[]), experiment=None, expr=None, perform=perform))
    # a tag whose value is the empty string is a value: patterns that match "" match it
    je = dict(task="pkg.mod.task", hash="0a1b", done=True, failed=False, pid=False, alive=False, tags={"suffix": "", "x": "a"})
    for rx, eol in ((["star", ["any"]], False), (["eps"], True), (["star", ["chr", "a"]], True), (["chr", "a"], False)):
        for v in ("suffix", "x", "missing"):
            out.append(dict(kind="filter", job=je, expr=dict(first=dict(k="regex", v=v, re=rx, eol=eol, bol=False), rest=[])))
    out.append(dict(kind="filter", job=je, expr=dict(first=dict(k="eq", v="suffix", o=dict(const="")), rest=[])))
    # entries of jobs/<task>/ that are not directories, listed first or last, with --ready
    jf = dict(task="m.t", hash="1c2d", done=False, failed=True, pid=False, alive=False, tags={})
    for kind_ in ("file", "dangling"):
        for name in ("0000", "zzzz"):
            for flags in (["--ready"], ["--ready", "--tags"], []):
                out.append(dict(kind="clean", ws=dict(jobs=[dict(je, task="m.t"), jf], xps=[],
                                                      strays=[dict(task="m.t", name=name, kind=kind_)]),
                                experiment=None, expr=None, perform=True, flags=flags))
    # the pid file is there but empty / cut while the job process runs (or not), with every marker combination
    err = dict(first=dict(k="eq", v="@state", o=dict(const="ERROR")), rest=[])
    for pf in ("empty", "truncated"):
        for d, f in ((False, False), (False, True), (True, False), (True, True)):
            for a in (True, False):
                j = dict(task="pkg.mod.task", hash="0a1b", done=d, failed=f, pid=True, alive=a, tags={"x": "a"}, pidfile=pf)
                out.append(dict(kind="filter", job=j, expr=err))
                other = dict(task="pkg.mod.task", hash="1c2d", done=False, failed=True, pid=False, alive=False, tags={})
                out.append(dict(kind="clean", ws=dict(jobs=[j, other], xps=[]), experiment=None,
                                expr=err if a else None, perform=True))
    return out


def real_cases():
    """workspaces written by the real scheduler (real params.json, markers, index links), then cleaned"""
    plan = [["xpa", [["ok", 1, {"model": "bm25"}], ["ok", 2, {"model": "dense"}], ["fail", 3, {"model": "bm25"}]]],
            ["xpb", [["ok", 2, {"model": "dense"}], ["fail", 4, {"model": "dense"}]]]]
    m = lambda v: dict(k="in", v="model", l=[v, "zz"])                       # noqa: E731
    st = lambda v: dict(k="eq", v="@state", o=dict(const=v))                 # noqa: E731
    nm = dict(k="regex", v="@name", re=["cat", ["star", ["any"]], ["cat", ["chr", "o"], ["chr", "k"]]], eol=True, bol=False)
    return [
        dict(kind="real", plan=plan, experiment=None, perform=True, expr=dict(first=m("bm25"), rest=[["and", st("ERROR")]])),
        dict(kind="real", plan=plan, experiment="xpb", perform=True, expr=None),
        dict(kind="real", plan=plan, experiment="xpa", perform=True, expr=dict(first=dict(k="notin", v="model", l=["bm25"]), rest=[])),
        dict(kind="real", plan=plan, experiment=None, perform=True, expr=dict(first=nm, rest=[["or", st("ERROR")]])),
        dict(kind="real", plan=plan, experiment=None, perform=False, expr=None),
    ]


def golden_cases():
    f = ROOT / "golden" / "c19.json"
    return json.loads(f.read_text()) if f.exists() else []


# ------------------------------------------------------------------ main
def run(c: Check):
    c.rule = ("filters: random chains (1-5 tests of the four kinds over tags, @state, @name; regular expressions over "
              "literal/./concatenation/alternation/star with optional ^ and $) printed with random whitespace and quote "
              "styles, evaluated on a random job directory near the constants; texts derived from such chains that leave the "
              "grammar (30 kinds: other case, other operators, brackets, odd white characters, malformed), each with its "
              "reading or none; workspaces: 0-6 job directories with every marker combination, 0-3 experiments with index "
              "and optional backup index, for orphans also 1-3 entries that are links to job directories; non-trivial = filter with >=2 "
              "tests or a non-equality test / workspace with >=2 jobs and an experiment, filter or index; distinct by "
              "canonical case")
    if "props/C19.v" in (COQ / "_CoqProject").read_text():
        c.build()
    else:   # not registered in _CoqProject yet: the .vo files are compiled by hand (see notes/C19.md)
        c.gate()
    c.props()

    cases = []
    if c.replay:
        rp = json.load(open(c.replay))["replay"]
        if isinstance(rp, dict) and "case" in rp:
            cases.append(rp["case"])
        nf, nc, no, nn = 0, 0, 0, 0
    else:
        cases += golden_cases() + sweep_cases() + (real_cases()[:3] if c.quick else real_cases())
        nf, nc, no, nn = (1200, 500, 300, 600) if c.quick else (30000, 9000, 5000, 12000)
    rng = c.rng
    for _ in range(nf):
        j = gen_job(rng)
        cases.append(dict(kind="filter", job=j, expr=gen_expr(rng, j)))
    for _ in range(nc):
        w = gen_ws(rng)
        e = None
        if rng.random() < 0.65:
            e = gen_expr(rng, rng.choice(w["jobs"]) if w["jobs"] else gen_job(rng))
        r = rng.random()
        exp = None if r < 0.45 else (rng.choice(w["xps"])["name"] if w["xps"] and r < 0.8 else rng.choice(XPS + [""]))
        if exp and w["xps"] and rng.random() < 0.35:
            # a name that is a proper part (prefix, suffix, inside) of the name of an experiment of the workspace, or contains it
            longer = [n for n in XPS for x in w["xps"] if n != x["name"] and (n in x["name"] or x["name"] in n)]
            exp = rng.choice(longer) if longer else exp
        cases.append(dict(kind="clean", ws=w, experiment=exp, expr=e, perform=rng.random() < 0.75,
                          flags=[f for f in ("--tags", "--fullpath", "--ready") if rng.random() < 0.15], **gen_access(rng)))
        if rng.random() < 0.2:                   # the filter is a text near the grammar
            while True:
                nr = gen_near(rng, rng.choice(w["jobs"]) if w["jobs"] else gen_job(rng),
                              label=rng.choice(["op-case", "op-case", "kw-case", "no-spaces"] + NEAR_LABELS))
                if nr["text"] != "":             # --filter "" is "no filter"
                    break
            cases[-1].update(expr=nr["expr"], text=nr["text"], near=dict(label=nr["label"], reading=nr["reading"]),
                             perform=rng.random() < 0.9)
    for _ in range(nn):
        j = gen_job(rng)
        cases.append(dict(kind="near", job=j, **gen_near(rng, j)))
    for _ in range(no):
        cases.append(dict(kind="orphans", ws=gen_ws(rng, links=rng.random() < 0.4), clean=rng.random() < 0.8,
                          ignore_old=rng.random() < 0.25,
                          show_all=rng.random() < 0.2, **gen_access(rng)))
    for x in cases:
        x.pop("ans", None)
        with_texts(rng, x)

    answers = run_cases(c, cases)
    seen = set()
    for case, a in zip(cases, answers):
        case["ans"] = a
        c.evaluations += 1
        if case["kind"] == "real":      # from here on an ordinary `jobs clean` case on the workspace the scheduler wrote
            case.update(kind="clean", ws=a["ws"], real=True)
            c.count("clean:workspace-by-real-scheduler")
        kind = case["kind"]
        c.count("kind:" + kind)
        if kind in ("clean", "orphans"):
            c.count(f"{kind}:workspace-reached-by={case.get('access') or 'direct'},index-written-via={case.get('index_via') or 'real'}")
        e = case.get("expr")
        if kind == "near" or case.get("near"):
            lab = case["label"] if kind == "near" else case["near"]["label"]
            acc = a["accepted"] if kind == "near" else a["accepts"]
            c.count(f"near-grammar:{lab}:{'accepted' if acc else 'rejected'}")
            if kind == "near":
                c.nontrivial.add(json.dumps([case["text"], case["job"]], sort_keys=True))
                e = None
        if e is not None:
            ats = atoms_of(e)
            c.count(f"{kind}:tests={len(ats)}")
            for at in ats:
                c.count("test:" + at["k"])
                c.count("var:" + (at["v"] if at["v"].startswith("@") else "tag"))
            ops = {op for op, _ in e["rest"]}
            c.count("chain:" + ("single" if not ops else "mixed" if len(ops) == 2 else "all-" + ops.pop()))
        if kind == "near":
            pass
        elif kind == "filter":
            c.count("filter-answer:" + str(a["whole"]["v"]))
            c.count("state:" + str(true_state(case["job"])))
            if len(atoms_of(e)) >= 2 or e["first"]["k"] != "eq":
                c.nontrivial.add(json.dumps([e, case["job"]], sort_keys=True))
        else:
            w = case["ws"]
            c.count(f"{kind}:jobs={len(w['jobs'])}")
            c.count(f"{kind}:xps={len(w['xps'])}")
            c.count(f"{kind}:removed={len(a['removed'])}")
            if w.get("strays"):
                c.count(f"{kind}:stray-entries" + (",--ready" if "--ready" in case.get("flags", []) else ""))
            for j in w["jobs"]:
                c.count("marker-state:" + str(true_state(j)) + ("+live" if j["pid"] and j["alive"] else "")
                        + ("+pid-unreadable" if unreadable(j) else ""))
            if kind == "clean":
                c.count("clean:perform=" + str(case["perform"]))
                c.count("clean:experiment=" + ("none" if not case["experiment"] else "given"))
                if case["experiment"] and any(x["name"] != case["experiment"] and
                                              (case["experiment"] in x["name"] or x["name"] in case["experiment"])
                                              for x in w["xps"]):
                    c.count("clean:experiment-name-part-of-another")
                c.count("clean:blocked=" + str(any(x["bak"] is not None for x in w["xps"]) and not case["perform"]))
                nt = len(w["jobs"]) >= 2 and (e is not None or case["experiment"])
            else:
                c.count(f"orphans:clean={case['clean']},ignore_old={case['ignore_old']}")
                nt = len(w["jobs"]) >= 2 and len(w["xps"]) >= 1
            if nt:
                c.nontrivial.add(json.dumps({k: v for k, v in case.items() if k not in ("ans", "text", "atom_texts")},
                                            sort_keys=True))
        if e is not None and kind == "filter":
            for at, r in zip(atoms_of(case["expr"]), a["atoms"]):
                c.count(f"test-answer:{at['k']}:{r['v']}")
        for key, what in oracle(case, a):
            c.count("oracle:" + key)
            if key in seen:
                continue
            seen.add(key)
            small = shrink(c, case, key) if not c.replay else case
            c.violation(key, what, dict(case={k: v for k, v in small.items() if k != "ans"}, answer=small["ans"],
                                        original_text=case.get("text")))
    for kind in ("filter", "near", "clean", "orphans"):
        for x in [x for x in cases if x["kind"] == kind][-2:]:
            c.samples.append({k: v for k, v in x.items() if k != "atom_texts"})
    header = ("From Coq Require Import NArith List Bool.\nFrom XV Require Import model.Filter model.Clean corr.CleanCorr.\n"
              "Import ListNotations.\nOpen Scope N_scope.\n")
    # every case is put to the model through its expression; the cases with a filter text also through the text
    # (character-level grammar of model/FilterParse.v) -- the texts near the grammar only that way
    views = []
    for x in cases:
        if x["kind"] != "near" and not x.get("near"):
            views.append((x, "ast"))
        if x["kind"] in ("near", "filter") or (x["kind"] == "clean" and x.get("text")):
            views.append((x, "text"))
            c.count("model-view:text")
    header = header.replace("model.Clean corr", "model.Clean model.FilterParse corr")
    bad = c.corr_shards("corr", header, views, g_view, "check_case", shard=300)
    c.extra["disagreeing_cases"] = [dict({k: v for k, v in views[i][0].items() if k != "atom_texts"}, view=views[i][1])
                                    for i in bad[:5]]
    c.level_assumptions = [
        "pyparsing, click and Python's re are trusted; the character-level grammar is modelled (model/FilterParse.v), "
        "strings are taken as written; regular expressions are covered for the subset literal / escaped metacharacter / \\d / . "
        "/ concatenation / alternation / star / ^ / $ on ASCII values without newline, their sources are not parsed by the model",
        "tag values are strings or numbers (compared through their text); psutil reports process liveness truthfully; a pid "
        "file holds a local process definition or is empty / cut (then the process counts as possibly alive)",
        "entries of jobs/<task>/ are real directories, and for `orphans` also links to job directories as `deprecated list "
        "--fix` leaves them (not for `jobs clean`); index entries are links to jobs/<task>/<hash> as the scheduler creates them",
    ]


if __name__ == "__main__":
    main_wrapper("C19", run)
