"""Driver for the scheduler checks (C04, C06, C07): runs workloads on the real scheduler under the
controller of loopctl.py.  stdin: {"cases": [workload...]}; last stdout line: list of traces.
Each workload runs in its own sub-process (a hang is killed by a timeout and reported)."""
import json
import os
import subprocess
import sys
from concurrent.futures import ThreadPoolExecutor


def one(w):
    import loopctl
    trace = loopctl.run_workload(w)
    sys.stdout.write("\n" + json.dumps(trace) + "\n")
    sys.stdout.flush()
    os._exit(0)


def run_sub(w):
    try:
        p = subprocess.run([sys.executable, "-W", "ignore", __file__, "--one"], input=json.dumps(w),
                           capture_output=True, text=True, timeout=120)
    except subprocess.TimeoutExpired:
        return dict(error="timeout", steps=[])
    lines = [l for l in p.stdout.strip().splitlines() if l.startswith("{")]
    if p.returncode != 0 or not lines:
        return dict(error=f"driver rc={p.returncode}: {p.stderr[-800:]}", steps=[])
    return json.loads(lines[-1])


if __name__ == "__main__":
    if "--one" in sys.argv:
        one(json.load(sys.stdin))
    payload = json.load(sys.stdin)
    with ThreadPoolExecutor(max_workers=int(os.environ.get("VERIF_JOBS", "16"))) as ex:
        out = list(ex.map(run_sub, payload["cases"]))
    print(json.dumps(out))
