"""C18 - a launcher request only matches hosts that satisfy it."""
import json
from vcommon import Check, main_wrapper, run_impl, gz, gnat, glist, gopt, gbool

G = 10 ** 9
M = 10 ** 6
MEMS = [(0, ""), (5, ""), (1, "G"), (4, "G"), (7, "G"), (10, "G"), (12, "G"), (14, "G"), (24, "G"), (48, "G"),
        (70, "G"), (400, "M"), (900, "M"), (12000, "M")]
HOSTMEM = [0, 5, 400 * M, 1 * G, 4 * G, 8 * G, 12 * G, 16 * G, 24 * G, 48 * G, 80 * G]
DUNITS = {"h": 3600, "hours": 3600, "d": 86400, "days": 86400}


def bytes_of(n, u):
    return n * {"": 1, "G": G, "M": M}[u]


def gen_item_mem(rng):
    n, u = rng.choice(MEMS)
    return dict(k="mem", n=n, u=u)


def gen_term(rng):
    k = rng.choices(["duration", "cuda", "cpu"], [2, 4, 4])[0]
    if k == "duration":
        return dict(k=k, n=rng.choice([0, 1, 2, 4, 10, 30]), u=rng.choice(list(DUNITS)))
    if k == "cuda":
        return dict(k=k, items=[gen_item_mem(rng) for _ in range(rng.choice([1, 1, 1, 2]))],
                    mult=rng.choice([None, None, 0, 1, 2, 3]))
    items = []
    for _ in range(rng.choice([1, 2, 2, 3])):
        items.append(gen_item_mem(rng) if rng.random() < 0.55 else dict(k="cores", n=rng.choice([0, 1, 2, 4, 8, 16])))
    return dict(k=k, items=items)


def gen_expr(rng):
    return [[gen_term(rng) for _ in range(rng.choice([1, 2, 2, 3, 4]))] for _ in range(rng.choice([1, 1, 2, 3]))]


def ws(rng):
    return rng.choice(["", "", " ", "  ", "\t", "\n", " \n "])


def print_term(rng, t):
    w = lambda: ws(rng)
    if t["k"] == "duration":
        return f"duration{w()}={w()}{t['n']}{w()}{t['u']}"
    if t["k"] == "cuda":
        its = (w() + "," + w()).join(f"mem{w()}={w()}{i['n']}{i['u']}" for i in t["items"])
        s = f"cuda{w()}({w()}{its}{w()})"
        if t["mult"] is not None:
            s += f"{w()}*{w()}{t['mult']}"
        return s
    its = (w() + "," + w()).join(
        (f"mem{w()}={w()}{i['n']}{i['u']}" if i["k"] == "mem" else f"cores{w()}={w()}{i['n']}") for i in t["items"])
    return f"cpu{w()}({w()}{its}{w()})"


def print_expr(rng, e):
    return ws(rng) + (ws(rng) + "|" + ws(rng)).join(
        (ws(rng) + "&" + ws(rng)).join(print_term(rng, t) for t in ts) for ts in e) + ws(rng)


def gen_host(rng, e):
    # biased towards the neighbourhood of what the request asks for
    ngpu = rng.choice([0, 0, 1, 2, 3, 4])
    return dict(
        cuda=[dict(mem=rng.choice(HOSTMEM), min=rng.choice([0, 0, 0, 1 * G, 8 * G, 24 * G])) for _ in range(ngpu)],
        mem=rng.choice(HOSTMEM), cores=rng.choice([0, 1, 2, 4, 8, 32]),
        prio=rng.choice([0, 0, 1, 5, -3]), maxdur=rng.choice([0, 0, 3600, 86400, 4 * 86400, 30 * 86400]),
        mingpu=rng.choice([0, 0, 0, 1, 2]))


# ---- Gallina rendering
def g_item(i):
    if i["k"] == "mem":
        return f"IMem {i['n']} {dict(G='UG', M='UM')[i['u']] if i['u'] else 'UNone'}"
    return f"ICores {i['n']}"


def g_term(t):
    if t["k"] == "duration":
        return f"TDuration {t['n']} {'DH' if t['u'][0] == 'h' else 'DD'}"
    if t["k"] == "cuda":
        return f"TCuda {glist(g_item(i) for i in t['items'])} {gopt(t['mult'], gz)}"
    return f"TCpu {glist(g_item(i) for i in t['items'])}"


def g_req(r):
    return (f"{{| r_gpus := {glist(gz(x) for x in r['gpus'])}; "
            f"r_cpu := {{| c_mem := {gz(r['mem'])}; c_cores := {gz(r['cores'])} |}}; r_dur := {gz(r['dur'])} |}}")


def g_host(h):
    cu = glist(f"{{| g_mem := {gz(g['mem'])}; g_min := {gz(g['min'])} |}}" for g in h["cuda"])
    return (f"{{| h_cuda := {cu}; h_cpu := {{| c_mem := {gz(h['mem'])}; c_cores := {gz(h['cores'])} |}}; "
            f"h_prio := {gz(h['prio'])}; h_maxdur := {gz(h['maxdur'])}; h_mingpu := {gz(h['mingpu'])} |}}")


def g_case(c):
    a = c["ans"]
    e = glist(glist(g_term(t) for t in ts) for ts in c["expr"])
    parsed = "None" if a["parsed"] is None else f"(Some {glist(g_req(r) for r in a['parsed'])})"
    union = "None" if a["union"] is None else f"(Some ({gnat(max(a['union'][0], 0))}, {gz(a['union'][1])}))"
    ans = (f"{{| a_parsed := {parsed}; a_prog := {glist(g_req(r) for r in a['prog'])}; "
           f"a_pure := {glist(gbool(b) for b in a['pure'])}; "
           f"a_single := {glist(gopt(s, gz) for s in a['single'])}; a_union := {union} |}}")
    return f"({e}, {g_host(c['host'])}, {ans})"


# ---- the property restated over implementation observables (independent of the model)
def satisfies(r, h):
    gp = sorted(r["gpus"], reverse=True)
    hg = sorted((g["mem"] for g in h["cuda"]), reverse=True)
    if len(hg) < len(gp):
        return False
    if any(hm < rm for hm, rm in zip(hg, gp)):  # an injection exists iff the sorted pairing works
        return False
    if h["mem"] < r["mem"] or h["cores"] < r["cores"]:
        return False
    if h["maxdur"] > 0 and r["dur"] > h["maxdur"]:
        return False
    return True


def shrink_key_cpu(r, h):
    short_mem = h["mem"] < r["mem"]
    short_cores = h["cores"] < r["cores"]
    return f"mem-{'short' if short_mem else 'ok'}-cores-{'short' if short_cores else 'ok'}"


def oracle(c, case):
    a, h = case["ans"], case["host"]
    # (1) soundness of every individual match
    for i, (r, s) in enumerate(zip(a["prog"], a["single"])):
        if s is not None and not satisfies(r, h):
            gp = sorted(r["gpus"], reverse=True)
            hg = sorted((g["mem"] for g in h["cuda"]), reverse=True)
            if len(hg) < len(gp) or any(x < y for x, y in zip(hg, gp)):
                key = "C18:match-unsound:gpu"
            elif h["maxdur"] > 0 and r["dur"] > h["maxdur"]:
                key = "C18:match-unsound:duration"
            else:
                key = "C18:match-unsound:cpu:" + shrink_key_cpu(r, h)
            c.violation(key, "match() accepts a host that does not satisfy the request",
                        dict(request=r, host=h, text=case["text"], alternative=i, score=s))
    # (2) union returns the first alternative that matches
    first = next((i for i, s in enumerate(a["single"]) if s is not None), None)
    got = None if a["union"] is None else a["union"][0]
    if got != first:
        c.violation("C18:union-not-first", "RequirementUnion.match did not return the first matching alternative",
                    dict(expr=case["expr"], host=h, singles=a["single"], union=a["union"]))
    # (3) operands unchanged by & and *
    if not all(a["pure"]):
        c.violation("C18:operand-mutated", "& or * altered one of its operands",
                    dict(expr=case["expr"], pure=a["pure"]))
    # (4) text means the same as the programmatic construction
    if a["parsed"] is None or [dict(r, gpu_extra=None) for r in a["parsed"]] != [dict(r, gpu_extra=None) for r in a["prog"]]:
        c.violation("C18:parse-differs", "parse(text) differs from the equivalent programmatic request",
                    dict(text=case["text"], parsed=a["parsed"], prog=a["prog"], exc=a.get("parse_exc")))


def run(c: Check):
    c.rule = ("random request ASTs (1-3 alternatives x 1-4 terms) printed with random whitespace and built "
              "programmatically, against random hosts near the request; non-trivial = the request has >=2 terms or a "
              "multiplier, distinct by (expression, host)")
    c.build()
    c.props()
    n = 1500 if c.quick else 40000
    cases = []
    if c.replay:
        rp = json.load(open(c.replay))["replay"]
        if "expr" in rp and "host" in rp:
            cases.append(dict(expr=rp["expr"], host=rp["host"], text=rp.get("text") or print_expr(c.rng, rp["expr"])))
        n = 0
    # golden corpus first (minimised earlier failures)
    gold = json.load(open(c_root() / "golden" / "c18.json"))
    for g in gold:
        cases.append(dict(expr=g["expr"], host=g["host"], text=print_expr(c.rng, g["expr"])))
    for _ in range(n):
        e = gen_expr(c.rng)
        cases.append(dict(expr=e, host=gen_host(c.rng, e), text=print_expr(c.rng, e)))
    ans = run_impl("drive_c18.py", dict(cases=cases), timeout=1200)
    for case, a in zip(cases, ans):
        case["ans"] = a
        c.evaluations += 1
        nterms = sum(len(ts) for ts in case["expr"])
        c.count(f"alternatives={len(case['expr'])}")
        c.count(f"terms={nterms}")
        for ts in case["expr"]:
            for t in ts:
                c.count("term:" + t["k"] + (":mult" if t.get("mult") is not None else ""))
        c.count("union:" + ("none" if a["union"] is None else "some"))
        for s in a["single"]:
            c.count("match:" + ("no" if s is None else "yes"))
        if nterms >= 2 or any(t.get("mult") is not None for ts in case["expr"] for t in ts):
            c.nontrivial.add(json.dumps([case["expr"], case["host"]], sort_keys=True))
        oracle(c, case)
    c.samples = [dict(text=x["text"], host=x["host"], answer=x["ans"]) for x in cases[:3]]
    header = ("From Coq Require Import ZArith List Bool.\nFrom XV Require Import model.Launcher corr.LauncherCorr.\n"
              "Import ListNotations.\nOpen Scope Z_scope.\n")
    bad = c.corr_shards("corr", header, cases, g_case, "check_case")
    c.extra["disagreeing_cases"] = [dict(text=cases[i]["text"], host=cases[i]["host"], answer=cases[i]["ans"]) for i in bad[:5]]
    c.level_assumptions = ["humanfriendly.parse_size / parse_timespan and arpeggio are trusted to behave as probed "
                           "(decimal units; d/h); the model covers match/union/&/* and the meaning of the request grammar"]


def c_root():
    from vcommon import ROOT
    return ROOT


if __name__ == "__main__":
    main_wrapper("C18", run)
