"""C18 - a launcher request only matches hosts that satisfy it."""
import json
from vcommon import Check, main_wrapper, run_impl, gz, gnat, glist, gopt, gbool

G = 10 ** 9
M = 10 ** 6
MEMS = [(0, ""), (5, ""), (1, "G"), (4, "G"), (7, "G"), (10, "G"), (12, "G"), (14, "G"), (24, "G"), (48, "G"),
        (70, "G"), (400, "M"), (900, "M"), (12000, "M")]
HOSTMEM = [0, 5, 400 * M, 1 * G, 4 * G, 8 * G, 12 * G, 16 * G, 24 * G, 48 * G, 80 * G]
DUNITS = {"h": 3600, "hours": 3600, "d": 86400, "days": 86400}


def bytes_of(n, u):
    return n * {"": 1, "G": G, "M": M}[u]


def gen_item_mem(rng):
    n, u = rng.choice(MEMS)
    return dict(k="mem", n=n, u=u)


def gen_term(rng):
    k = rng.choices(["duration", "cuda", "cpu"], [2, 4, 4])[0]
    if k == "duration":
        return dict(k=k, n=rng.choice([0, 1, 2, 4, 10, 30]), u=rng.choice(list(DUNITS)))
    if k == "cuda":
        return dict(k=k, items=[gen_item_mem(rng) for _ in range(rng.choice([1, 1, 1, 2]))],
                    mult=rng.choice([None, None, 0, 1, 2, 3]))
    items = []
    for _ in range(rng.choice([1, 2, 2, 3])):
        items.append(gen_item_mem(rng) if rng.random() < 0.55 else dict(k="cores", n=rng.choice([0, 1, 2, 4, 8, 16])))
    return dict(k=k, items=items)


def gen_expr(rng):
    return [[gen_term(rng) for _ in range(rng.choice([1, 2, 2, 3, 4]))] for _ in range(rng.choice([1, 1, 2, 3]))]


def ws(rng):
    return rng.choice(["", "", " ", "  ", "\t", "\n", " \n "])


def print_term(rng, t):
    w = lambda: ws(rng)
    if t["k"] == "duration":
        return f"duration{w()}={w()}{t['n']}{w()}{t['u']}"
    if t["k"] == "cuda":
        its = (w() + "," + w()).join(f"mem{w()}={w()}{i['n']}{i['u']}" for i in t["items"])
        s = f"cuda{w()}({w()}{its}{w()})"
        if t["mult"] is not None:
            s += f"{w()}*{w()}{t['mult']}"
        return s
    its = (w() + "," + w()).join(
        (f"mem{w()}={w()}{i['n']}{i['u']}" if i["k"] == "mem" else f"cores{w()}={w()}{i['n']}") for i in t["items"])
    return f"cpu{w()}({w()}{its}{w()})"


def print_expr(rng, e):
    return ws(rng) + (ws(rng) + "|" + ws(rng)).join(
        (ws(rng) + "&" + ws(rng)).join(print_term(rng, t) for t in ts) for ts in e) + ws(rng)


def gen_host(rng, e):
    # biased towards the neighbourhood of what the request asks for
    ngpu = rng.choice([0, 0, 1, 2, 3, 4])
    return dict(
        cuda=[dict(mem=rng.choice(HOSTMEM), min=rng.choice([0, 0, 0, 1 * G, 8 * G, 24 * G])) for _ in range(ngpu)],
        mem=rng.choice(HOSTMEM), cores=rng.choice([0, 1, 2, 4, 8, 32]),
        prio=rng.choice([0, 0, 1, 5, -3]), maxdur=rng.choice([0, 0, 3600, 86400, 4 * 86400, 30 * 86400]),
        mingpu=rng.choice([0, 0, 0, 1, 2]))


# ---- sites: several hosts examined in order by launchers.py, and the ways of handing the alternatives to find()
def approx_req(ts):
    """what one alternative asks for -- used only to aim the generated hosts at the request (not by the oracle)"""
    gpus, mem, cores, dur = [], 0, 0, 0
    for t in ts:
        if t["k"] == "duration":
            dur = max(dur, t["n"] * DUNITS[t["u"]])
        elif t["k"] == "cuda":
            m = 0
            for it in t["items"]:
                m = bytes_of(it["n"], it["u"])
            k = 1 if t["mult"] is None else max(1, t["mult"])
            gpus += [m] * k
        else:
            m, c = 0, 1
            for it in t["items"]:
                if it["k"] == "mem":
                    m = bytes_of(it["n"], it["u"])
                else:
                    c = it["n"]
            mem, cores = max(mem, m), max(cores, c)
    return dict(gpus=sorted(gpus), mem=mem, cores=cores, dur=dur)


def at_least(rng, pool, x):
    ok = [v for v in pool if v >= x]
    return rng.choice(ok[:3]) if ok else x


def gen_host_for(rng, r):
    """a host that fits the alternative r (or just misses it)"""
    h = dict(cuda=[dict(mem=at_least(rng, HOSTMEM, g), min=0) for g in r["gpus"]],
             mem=at_least(rng, HOSTMEM, r["mem"]), cores=at_least(rng, [0, 1, 2, 4, 8, 16, 32], r["cores"]),
             prio=rng.choice([0, 0, 1, 5, -3]),
             maxdur=rng.choice([0, 0] + [d for d in (3600, 86400, 4 * 86400, 30 * 86400) if d >= r["dur"]]), mingpu=0)
    for _ in range(rng.choice([0, 0, 0, 1, 2])):
        h["cuda"].append(dict(mem=rng.choice(HOSTMEM[5:]), min=0))
    h["cuda"].sort(key=lambda g: g["mem"])
    miss = rng.random()
    if miss < 0.12 and h["cuda"]:
        h["cuda"].pop()
    elif miss < 0.2:
        h["mem"] = rng.choice(HOSTMEM[:4])
    elif miss < 0.26:
        h["maxdur"] = 3600
    elif miss < 0.32:
        h["mingpu"] = rng.choice([1, 2, 3])
    return h


def gen_hosts(rng, e):
    rs = [approx_req(ts) for ts in e]
    # small hosts tend to come first (the administrator lists the cheap partition first) but not always
    hosts = [gen_host_for(rng, rng.choice(rs)) if rng.random() < 0.7 else gen_host(rng, e)
             for _ in range(rng.choice([1, 2, 2, 3, 3, 4]))]
    if rng.random() < 0.5:
        hosts.sort(key=lambda h: (len(h["cuda"]), h["mem"]))
    return hosts


def gen_groups(rng, n):
    """how the n alternatives are handed to LauncherRegistry.find: consecutive groups, each one string (alternatives
    joined by |), simple objects, or one object built with |"""
    form = rng.choice(["one-string", "strings", "objects", "union-object", "mixed", "mixed"])
    if form == "one-string" or (form == "union-object" and n < 2):
        return [dict(kind="str", n=n)]
    if form == "strings":
        return [dict(kind="str", n=1) for _ in range(n)]
    if form == "objects":
        return [dict(kind="obj", n=1) for _ in range(n)]
    if form == "union-object":
        return [dict(kind="union", n=n)]
    out, left = [], n
    while left:
        k = rng.randint(1, left)
        out.append(dict(kind=rng.choice(["str", "obj", "union"] if k >= 2 else ["str", "obj"]), n=k))
        if out[-1]["kind"] == "obj":
            out[-1]["n"] = k = 1
        left -= k
    return out


def with_group_texts(rng, case):
    i = 0
    for g in case["groups"]:
        if g["kind"] == "str":
            g["text"] = print_expr(rng, case["expr"][i:i + g["n"]])
        i += g["n"]
    return case


# ---- Gallina rendering
def g_item(i):
    if i["k"] == "mem":
        return f"IMem {i['n']} {dict(G='UG', M='UM')[i['u']] if i['u'] else 'UNone'}"
    return f"ICores {i['n']}"


def g_term(t):
    if t["k"] == "duration":
        return f"TDuration {t['n']} {'DH' if t['u'][0] == 'h' else 'DD'}"
    if t["k"] == "cuda":
        return f"TCuda {glist(g_item(i) for i in t['items'])} {gopt(t['mult'], gz)}"
    return f"TCpu {glist(g_item(i) for i in t['items'])}"


def g_req(r):
    return (f"{{| r_gpus := {glist(gz(x) for x in r['gpus'])}; "
            f"r_cpu := {{| c_mem := {gz(r['mem'])}; c_cores := {gz(r['cores'])} |}}; r_dur := {gz(r['dur'])} |}}")


def g_host(h):
    cu = glist(f"{{| g_mem := {gz(g['mem'])}; g_min := {gz(g['min'])} |}}" for g in h["cuda"])
    return (f"{{| h_cuda := {cu}; h_cpu := {{| c_mem := {gz(h['mem'])}; c_cores := {gz(h['cores'])} |}}; "
            f"h_prio := {gz(h['prio'])}; h_maxdur := {gz(h['maxdur'])}; h_mingpu := {gz(h['mingpu'])} |}}")


def g_case(c):
    a = c["ans"]
    e = glist(glist(g_term(t) for t in ts) for ts in c["expr"])
    parsed = "None" if a["parsed"] is None else f"(Some {glist(g_req(r) for r in a['parsed'])})"
    union = "None" if a["union"] is None else f"(Some ({gnat(max(a['union'][0], 0))}, {gz(a['union'][1])}))"
    orunion = "None" if a["orunion"] is None else f"(Some ({gnat(max(a['orunion'][0], 0))}, {gz(a['orunion'][1])}))"
    rg = a["reg"]
    if rg["exc"] is not None or (rg["host"] is not None and rg["req"] is None):
        reg = "None"          # it raised / the requirement that matched is not a simple requirement
    elif rg["host"] is None:
        reg = "(Some None)"
    else:
        reg = f"(Some (Some ({gnat(rg['host'])}, {g_req(rg['req'])})))"
    ans = (f"{{| a_parsed := {parsed}; a_prog := {glist(g_req(r) for r in a['prog'])}; "
           f"a_pure := {glist(gbool(b) for b in a['pure'])}; "
           f"a_single := {glist(gopt(s, gz) for s in a['single'])}; a_union := {union}; "
           f"a_orunion := {orunion}; a_reg := {reg} |}}")
    groups = glist(f"({gbool(g['kind'] == 'union')}, {gnat(g['n'])})" for g in c["groups"])
    return f"({e}, {g_host(c['host'])}, {glist(g_host(h) for h in c['hosts'])}, {groups}, {ans})"


# ---- the property restated over implementation observables (independent of the model)
def satisfies(r, h):
    gp = sorted(r["gpus"], reverse=True)
    hg = sorted((g["mem"] for g in h["cuda"]), reverse=True)
    if len(hg) < len(gp):
        return False
    if any(hm < rm for hm, rm in zip(hg, gp)):  # an injection exists iff the sorted pairing works
        return False
    if h["mem"] < r["mem"] or h["cores"] < r["cores"]:
        return False
    if h["maxdur"] > 0 and r["dur"] > h["maxdur"]:
        return False
    return True


def shrink_key_cpu(r, h):
    short_mem = h["mem"] < r["mem"]
    short_cores = h["cores"] < r["cores"]
    return f"mem-{'short' if short_mem else 'ok'}-cores-{'short' if short_cores else 'ok'}"


def oracle(c, case):
    a, h = case["ans"], case["host"]
    # (1) soundness of every individual match
    for i, (r, s) in enumerate(zip(a["prog"], a["single"])):
        if s is not None and not satisfies(r, h):
            gp = sorted(r["gpus"], reverse=True)
            hg = sorted((g["mem"] for g in h["cuda"]), reverse=True)
            if len(hg) < len(gp) or any(x < y for x, y in zip(hg, gp)):
                key = "C18:match-unsound:gpu"
            elif h["maxdur"] > 0 and r["dur"] > h["maxdur"]:
                key = "C18:match-unsound:duration"
            else:
                key = "C18:match-unsound:cpu:" + shrink_key_cpu(r, h)
            c.violation(key, "match() accepts a host that does not satisfy the request",
                        dict(request=r, host=h, text=case["text"], alternative=i, score=s))
    # (2) union returns the first alternative that matches
    first = next((i for i, s in enumerate(a["single"]) if s is not None), None)
    got = None if a["union"] is None else a["union"][0]
    if got != first:
        c.violation("C18:union-not-first", "RequirementUnion.match did not return the first matching alternative",
                    dict(expr=case["expr"], host=h, singles=a["single"], union=a["union"]))
    if a["orunion"] != a["union"] or (got is not None and got < 0):
        c.violation("C18:or-union-differs", "a | b | ... does not answer with the first matching simple requirement "
                    "as RequirementUnion(a, b, ...) does", dict(expr=case["expr"], host=h, singles=a["single"],
                                                                 union=a["union"], orunion=a["orunion"]))
    # (3) operands unchanged by & and * (and by |, match and find)
    if not all(a["pure"]) or not a["pure_after"]:
        c.violation("C18:operand-mutated", "&, * or | altered one of its operands",
                    dict(expr=case["expr"], pure=a["pure"], pure_after=a["pure_after"]))
    # (5) the registry: alternatives are tried in the order given, over all the hosts of launchers.py
    oracle_registry(c, case)
    # (4) text means the same as the programmatic construction
    if a["parsed"] is None or [dict(r, gpu_extra=None) for r in a["parsed"]] != [dict(r, gpu_extra=None) for r in a["prog"]]:
        c.violation("C18:parse-differs", "parse(text) differs from the equivalent programmatic request",
                    dict(text=case["text"], parsed=a["parsed"], prog=a["prog"], exc=a.get("parse_exc")))


def strip(r):
    return None if r is None else {k: r[k] for k in ("gpus", "mem", "cores", "dur")}


def expected_registry(case):
    """first alternative, in the order given, that some host matches; on the first such host (the order in which
    launchers.py examines its hosts).  grid = the implementation's own match() of every alternative on every host."""
    for i, row in enumerate(case["ans"]["grid"]):
        for j, s in enumerate(row):
            if s is not None:
                return i, j
    return None


def oracle_registry(c, case):
    a, rg = case["ans"], case["ans"]["reg"]
    hosts = case["hosts"]
    data = dict(expr=case["expr"], host=case["host"], hosts=hosts, groups=case["groups"], text=case["text"],
                grid=a["grid"], registry=rg)
    union_object = any(g["kind"] == "union" for g in case["groups"])
    sfx = ":union-object" if union_object else ""
    # every match of the grid is sound as well
    for i, row in enumerate(a["grid"]):
        for j, s in enumerate(row):
            if s is not None and not satisfies(a["prog"][i], hosts[j]):
                c.violation("C18:match-unsound:site", "match() accepts a host of the site that does not satisfy the request",
                            dict(data, alternative=i, host_index=j))
    exp = expected_registry(case)
    data["expected"] = None if exp is None else dict(alternative=exp[0], host=exp[1], request=a["prog"][exp[0]])
    if rg["exc"] is not None:
        c.violation("C18:registry-raises" + sfx, f"LauncherRegistry.find raises {rg['exc']}", data)
        return
    if rg["host"] is not None and rg["req"] is None:
        c.violation("C18:registry-match-not-simple" + sfx,
                    "the requirement reported as matched is not a simple requirement", data)
        return
    if rg["host"] is not None and not satisfies(rg["req"], hosts[rg["host"]]):
        c.violation("C18:registry-unsound" + sfx, "the launcher found is for a host that does not satisfy the request", data)
    got = None if rg["host"] is None else (rg["host"], strip(rg["req"]))
    want = None if exp is None else (exp[1], strip(a["prog"][exp[0]]))
    if got != want:
        if want is not None and got is not None:
            what = ("alternatives are not tried in the order given: an earlier alternative is satisfiable by a host of "
                    "the site but the launcher is for a later alternative / another host")
        elif got is None:
            what = "no launcher although an alternative is satisfiable by a host of the site"
        else:
            what = "a launcher although no alternative matches any host of the site"
        c.violation("C18:registry-order" + sfx, what, data)
    if rg["host"] is not None and (rg["part"] != f"p{rg['host']}" or rg["gpus"] != len(rg["req"]["gpus"])):
        c.violation("C18:registry-other-launcher", "find() does not return the launcher find_launcher built", data)


def order_sensitive(case):
    """would 'each host, then each alternative' give another answer than 'each alternative, then each host'?"""
    grid = case["ans"]["grid"]
    exp = expected_registry(case)
    for j in range(len(case["hosts"])):
        for i in range(len(grid)):
            if grid[i][j] is not None:
                return exp != (i, j)
    return False


def run(c: Check):
    c.rule = ("random request ASTs (1-3 alternatives x 1-4 terms) printed with random whitespace and built "
              "programmatically, against random hosts near the request, and handed to the real LauncherRegistry.find "
              "(alternatives as one string, several strings, simple objects, objects built with |, or a mix) over a "
              "launchers.py with 1-4 hosts aimed at the alternatives; non-trivial = the request has >=2 terms or a "
              "multiplier, distinct by (expression, host, hosts, groups)")
    c.build()
    c.props()
    n = 1500 if c.quick else 40000
    cases = []
    if c.replay:
        rp = json.load(open(c.replay))["replay"]
        if "expr" in rp and "host" in rp:
            cases.append(dict(expr=rp["expr"], host=rp["host"], text=rp.get("text") or print_expr(c.rng, rp["expr"]),
                              hosts=rp.get("hosts") or [rp["host"]],
                              groups=rp.get("groups") or [dict(kind="str", n=len(rp["expr"]))]))
        n = 0
    # golden corpus first (minimised earlier failures)
    gold = json.load(open(c_root() / "golden" / "c18.json"))
    for g in gold:
        cases.append(dict(expr=g["expr"], host=g["host"], text=print_expr(c.rng, g["expr"]),
                          hosts=g.get("hosts") or [g["host"]],
                          groups=g.get("groups") or [dict(kind="str", n=len(g["expr"]))]))
    for _ in range(n):
        e = gen_expr(c.rng)
        cases.append(dict(expr=e, host=gen_host(c.rng, e), text=print_expr(c.rng, e), hosts=gen_hosts(c.rng, e),
                          groups=gen_groups(c.rng, len(e))))
    for case in cases:
        with_group_texts(c.rng, case)
    ans = run_impl("drive_c18.py", dict(cases=cases), timeout=1200)
    for case, a in zip(cases, ans):
        case["ans"] = a
        c.evaluations += 1
        nterms = sum(len(ts) for ts in case["expr"])
        c.count(f"alternatives={len(case['expr'])}")
        c.count(f"terms={nterms}")
        for ts in case["expr"]:
            for t in ts:
                c.count("term:" + t["k"] + (":mult" if t.get("mult") is not None else ""))
        c.count("union:" + ("none" if a["union"] is None else "some"))
        for s in a["single"]:
            c.count("match:" + ("no" if s is None else "yes"))
        c.count(f"site:hosts={len(case['hosts'])}")
        c.count("find-args:" + "+".join(sorted({g["kind"] for g in case["groups"]})))
        exp = expected_registry(case)
        c.count("registry:" + ("none" if exp is None else f"alternative{exp[0]}-host{exp[1]}"))
        if order_sensitive(case):
            c.count("registry:order-of-nesting-matters")
        if nterms >= 2 or any(t.get("mult") is not None for ts in case["expr"] for t in ts):
            c.nontrivial.add(json.dumps([case["expr"], case["host"], case["hosts"],
                                         [(g["kind"], g["n"]) for g in case["groups"]]], sort_keys=True))
        oracle(c, case)
    c.samples = [dict(text=x["text"], host=x["host"], hosts=x["hosts"], groups=x["groups"], answer=x["ans"])
                 for x in cases[:3]]
    header = ("From Coq Require Import ZArith List Bool.\nFrom XV Require Import model.Launcher corr.LauncherCorr.\n"
              "Import ListNotations.\nOpen Scope Z_scope.\n")
    bad = c.corr_shards("corr", header, cases, g_case, "check_case")
    c.extra["disagreeing_cases"] = [dict(text=cases[i]["text"], host=cases[i]["host"], answer=cases[i]["ans"]) for i in bad[:5]]
    c.level_assumptions = ["humanfriendly.parse_size / parse_timespan and arpeggio are trusted to behave as probed "
                           "(decimal units; d/h); the model covers match/union/&/*, the meaning of the request grammar and the search of "
                           "LauncherRegistry.find",
                           "the find_launcher function of launchers.py is the harness's: it goes through its hosts in "
                           "order and answers with the first host the requirement matches, as the documented ones do"]


def c_root():
    from vcommon import ROOT
    return ROOT


if __name__ == "__main__":
    main_wrapper("C18", run)
