"""C18 - a launcher request only matches hosts that satisfy it."""
import json
from vcommon import Check, main_wrapper, run_impl, gz, gnat, glist, gopt, gbool

G = 10 ** 9
M = 10 ** 6
MEMS = [(0, ""), (5, ""), (1, "G"), (4, "G"), (7, "G"), (10, "G"), (12, "G"), (14, "G"), (24, "G"), (48, "G"),
        (70, "G"), (400, "M"), (900, "M"), (12000, "M")]
HOSTMEM = [0, 5, 400 * M, 1 * G, 4 * G, 8 * G, 12 * G, 16 * G, 24 * G, 48 * G, 80 * G]
DUNITS = {"h": 3600, "hours": 3600, "d": 86400, "days": 86400}


def bytes_of(n, u):
    return n * {"": 1, "G": G, "M": M}[u]


def gen_item_mem(rng):
    n, u = rng.choice(MEMS)
    return dict(k="mem", n=n, u=u)


def gen_term(rng):
    k = rng.choices(["duration", "cuda", "cpu"], [2, 4, 4])[0]
    if k == "duration":
        return dict(k=k, n=rng.choice([0, 1, 2, 4, 10, 30]), u=rng.choice(list(DUNITS)))
    if k == "cuda":
        return dict(k=k, items=[gen_item_mem(rng) for _ in range(rng.choice([1, 1, 1, 2]))],
                    mult=rng.choice([None, None, 0, 1, 2, 3]))
    items = []
    for _ in range(rng.choice([1, 2, 2, 3])):
        items.append(gen_item_mem(rng) if rng.random() < 0.55 else dict(k="cores", n=rng.choice([0, 1, 2, 4, 8, 16])))
    return dict(k=k, items=items)


def gen_expr(rng):
    return [[gen_term(rng) for _ in range(rng.choice([1, 2, 2, 3, 4]))] for _ in range(rng.choice([1, 1, 2, 3]))]


def ws(rng):
    return rng.choice(["", "", " ", "  ", "\t", "\n", " \n "])


def print_term(rng, t):
    w = lambda: ws(rng)
    if t["k"] == "duration":
        return f"duration{w()}={w()}{t['n']}{w()}{t['u']}"
    if t["k"] == "cuda":
        its = (w() + "," + w()).join(f"mem{w()}={w()}{i['n']}{i['u']}" for i in t["items"])
        s = f"cuda{w()}({w()}{its}{w()})"
        if t["mult"] is not None:
            s += f"{w()}*{w()}{t['mult']}"
        return s
    its = (w() + "," + w()).join(
        (f"mem{w()}={w()}{i['n']}{i['u']}" if i["k"] == "mem" else f"cores{w()}={w()}{i['n']}") for i in t["items"])
    return f"cpu{w()}({w()}{its}{w()})"


def print_expr(rng, e):
    return ws(rng) + (ws(rng) + "|" + ws(rng)).join(
        (ws(rng) + "&" + ws(rng)).join(print_term(rng, t) for t in ts) for ts in e) + ws(rng)


def gen_host(rng, e):
    # biased towards the neighbourhood of what the request asks for
    ngpu = rng.choice([0, 0, 1, 2, 3, 4])
    return dict(
        cuda=[dict(mem=rng.choice(HOSTMEM), min=rng.choice([0, 0, 0, 1 * G, 8 * G, 24 * G])) for _ in range(ngpu)],
        mem=rng.choice(HOSTMEM), cores=rng.choice([0, 1, 2, 4, 8, 32]),
        prio=rng.choice([0, 0, 1, 5, -3]), maxdur=rng.choice([0, 0, 3600, 86400, 4 * 86400, 30 * 86400]),
        mingpu=rng.choice([0, 0, 0, 1, 2]))


# ---- sites: several hosts examined in order by launchers.py, and the ways of handing the alternatives to find()
def approx_req(ts):
    """what one alternative asks for -- used only to aim the generated hosts at the request (not by the oracle)"""
    gpus, mem, cores, dur = [], 0, 0, 0
    for t in ts:
        if t["k"] == "duration":
            dur = max(dur, t["n"] * DUNITS[t["u"]])
        elif t["k"] == "cuda":
            m = 0
            for it in t["items"]:
                m = bytes_of(it["n"], it["u"])
            k = 1 if t["mult"] is None else max(1, t["mult"])
            gpus += [m] * k
        else:
            m, c = 0, 1
            for it in t["items"]:
                if it["k"] == "mem":
                    m = bytes_of(it["n"], it["u"])
                else:
                    c = it["n"]
            mem, cores = max(mem, m), max(cores, c)
    return dict(gpus=sorted(gpus), mem=mem, cores=cores, dur=dur)


def at_least(rng, pool, x):
    ok = [v for v in pool if v >= x]
    return rng.choice(ok[:3]) if ok else x


def gen_host_for(rng, r):
    """a host that fits the alternative r (or just misses it)"""
    h = dict(cuda=[dict(mem=at_least(rng, HOSTMEM, g), min=0) for g in r["gpus"]],
             mem=at_least(rng, HOSTMEM, r["mem"]), cores=at_least(rng, [0, 1, 2, 4, 8, 16, 32], r["cores"]),
             prio=rng.choice([0, 0, 1, 5, -3]),
             maxdur=rng.choice([0, 0] + [d for d in (3600, 86400, 4 * 86400, 30 * 86400) if d >= r["dur"]]), mingpu=0)
    for _ in range(rng.choice([0, 0, 0, 1, 2])):
        h["cuda"].append(dict(mem=rng.choice(HOSTMEM[5:]), min=0))
    h["cuda"].sort(key=lambda g: g["mem"])
    miss = rng.random()
    if miss < 0.12 and h["cuda"]:
        h["cuda"].pop()
    elif miss < 0.2:
        h["mem"] = rng.choice(HOSTMEM[:4])
    elif miss < 0.26:
        h["maxdur"] = 3600
    elif miss < 0.32:
        h["mingpu"] = rng.choice([1, 2, 3])
    return h


def gen_hosts(rng, e):
    rs = [approx_req(ts) for ts in e]
    # small hosts tend to come first (the administrator lists the cheap partition first) but not always
    hosts = [gen_host_for(rng, rng.choice(rs)) if rng.random() < 0.7 else gen_host(rng, e)
             for _ in range(rng.choice([1, 2, 2, 3, 3, 4]))]
    if rng.random() < 0.5:
        hosts.sort(key=lambda h: (len(h["cuda"]), h["mem"]))
    return hosts


def gen_groups(rng, n):
    """how the n alternatives are handed to LauncherRegistry.find: consecutive groups, each one string (alternatives
    joined by |), simple objects, or one object built with |"""
    form = rng.choice(["one-string", "strings", "objects", "union-object", "mixed", "mixed"])
    if form == "one-string" or (form == "union-object" and n < 2):
        return [dict(kind="str", n=n)]
    if form == "strings":
        return [dict(kind="str", n=1) for _ in range(n)]
    if form == "objects":
        return [dict(kind="obj", n=1) for _ in range(n)]
    if form == "union-object":
        return [dict(kind="union", n=n)]
    out, left = [], n
    while left:
        k = rng.randint(1, left)
        out.append(dict(kind=rng.choice(["str", "obj", "union"] if k >= 2 else ["str", "obj"]), n=k))
        if out[-1]["kind"] == "obj":
            out[-1]["n"] = k = 1
        left -= k
    return out


def with_group_texts(rng, case):
    i = 0
    for g in case["groups"]:
        if g["kind"] == "str":
            g["text"] = print_expr(rng, case["expr"][i:i + g["n"]])
        i += g["n"]
    return case


# ---- texts near the request grammar
# A text that leaves the documented grammar is either rejected (parse raises) or it means what is written: G is giga also
# when written g, && is &, `2 * cuda(..)` is `cuda(..) * 2`.  `reading` is that meaning as the list of requirements
# (gpus, mem, cores, dur) or None: no reading, the text must be rejected.
UNITS_X = {"": 1, "K": 10 ** 3, "M": M, "G": G, "T": 10 ** 12}
DUR_X = {"s": 1, "m": 60, "h": 3600, "d": 86400, "w": 7 * 86400}


def sem_alt(ts):
    """documented meaning of one alternative (items may carry an explicit byte count `b`, durations explicit seconds `sec`,
    cuda terms an explicit number of copies `copies`)"""
    gpus, mem, cores, dur = [], 0, 0, 0
    for t in ts:
        if t["k"] == "duration":
            dur = max(dur, t["sec"] if "sec" in t else t["n"] * DUNITS[t["u"]])
        elif t["k"] == "cuda":
            m = 0
            for it in t["items"]:
                m = it["b"] if "b" in it else bytes_of(it["n"], it["u"])
            k = t["copies"] if "copies" in t else (1 if t["mult"] is None else max(1, t["mult"]))
            gpus += [m] * k
        else:
            m, c = 0, 1
            for it in t["items"]:
                if it["k"] == "mem":
                    m = it["b"] if "b" in it else bytes_of(it["n"], it["u"])
                else:
                    c = it["n"]
            mem, cores = max(mem, m), max(cores, c)
    return dict(gpus=sorted(gpus), mem=mem, cores=cores, dur=dur)


NEAR_REQ = ["unit-case", "unit-case", "unit-other", "unit-space", "dur-unit", "dur-unit", "dur-none", "kw-case", "kw-case",
            "kw-space", "no-parens", "unbalanced", "mult-zero", "mult-signed", "mult-real", "mult-left", "mult-twice",
            "mult-on-cpu", "unknown-key", "unknown-key", "key-alias", "empty-brackets", "empty-then-term", "op-symbol",
            "op-word", "op-missing", "op-dangling", "op-double", "sep-missing", "sep-other", "sep-trailing", "eq-other",
            "number-real", "number-signed", "number-zeros", "odd-whitespace", "junk-suffix", "dup-keys"]


def gen_near_req(rng, e0):
    """(text near the grammar, label, reading) derived from the expression e0"""
    import copy
    label = rng.choice(NEAR_REQ)
    e = copy.deepcopy(e0)

    def pick(kind):
        """a term of the kind (created when there is none); returns (alternative, index)"""
        where = [(ts, i) for ts in e for i, t in enumerate(ts) if t["k"] == kind]
        if where:
            return rng.choice(where)
        ts = rng.choice(e)
        while True:
            t = gen_term(rng)
            if t["k"] == kind:
                break
        ts.append(t)
        return ts, len(ts) - 1

    def texts():
        return [[print_term(rng, t) for t in ts] for ts in e]

    def join(tx, amp=" & ", bar=" | "):
        return bar.join(amp.join(a) for a in tx)

    reading = "same"
    if label in ("unit-case", "unit-other", "unit-space", "number-real", "number-signed", "number-zeros"):
        ts, i = pick(rng.choice(["cuda", "cpu"]))
        t = ts[i]
        mems = [it for it in t["items"] if it["k"] == "mem"]
        if not mems:
            t["items"].append(gen_item_mem(rng))
            mems = [t["items"][-1]]
        it = mems[-1]
        if not it["u"] and label in ("unit-case", "unit-space"):
            it["u"] = rng.choice("GM")
        tx = texts()
        a = e.index(ts)
        old = f"{it['n']}{it['u']}"
        if label == "unit-case":
            new = f"{it['n']}{rng.choice([it['u'].lower(), it['u'] + 'B', it['u'] + 'b', it['u'].lower() + 'b'])}"
        elif label == "unit-other":
            u = rng.choice(["K", "T", "k", "KB", "TB"])
            new = f"{it['n']}{u}"
            it["b"] = it["n"] * UNITS_X[u[0].upper()]
        elif label == "unit-space":
            new = f"{it['n']}{rng.choice([' ', '  ', chr(9)])}{it['u']}"
        elif label == "number-real":
            new = f"{it['n']}.5{it['u']}"
            it["b"] = int((it["n"] + 0.5) * UNITS_X[it["u"]])
        elif label == "number-signed":
            new = rng.choice(["-", "+"]) + old
            reading = None if new[0] == "-" else "same"
        else:
            new = rng.choice(["0", "00"]) + old
        # the last mem item is the one printed last among the mem items: rewrite its value
        k = tx[a][i].rfind("mem")
        j = tx[a][i].find(old, k)
        if k < 0 or j < 0:
            return gen_near_req(rng, e0)
        tx[a][i] = tx[a][i][:j] + new + tx[a][i][j + len(old):]
        text = join(tx)
    elif label in ("dur-unit", "dur-none"):
        ts, i = pick("duration")
        t = ts[i]
        tx = texts()
        a = e.index(ts)
        if label == "dur-none":
            tx[a][i] = f"duration={t['n']}"
            t["sec"] = t["n"]
        else:
            u = rng.choice(["H", "D", "Hours", "DAYS", "hour", "day", "hrs", "m", "min", "minutes", "s", "w", "weeks"])
            tx[a][i] = f"duration={t['n']}{rng.choice(['', ' '])}{u}"
            t["sec"] = t["n"] * DUR_X[u[0].lower()]
        text = join(tx)
    elif label in ("kw-case", "kw-space"):
        tx = texts()
        a = rng.randrange(len(tx))
        i = rng.randrange(len(tx[a]))
        words = [w for w in ("cuda", "cpu", "duration", "mem", "cores") if w in tx[a][i]]
        w = rng.choice(words)
        if label == "kw-case":
            new = rng.choice([w.upper(), w.capitalize(), w[:-1] + w[-1].upper()])
        else:
            k = rng.randrange(1, len(w))
            new = w[:k] + " " + w[k:]
            reading = None
        tx[a][i] = tx[a][i].replace(w, new, 1)
        text = join(tx)
    elif label in ("no-parens", "unbalanced"):
        ts, i = pick(rng.choice(["cuda", "cpu"]))
        tx = texts()
        a = e.index(ts)
        s = tx[a][i]
        if label == "no-parens":
            s = s.replace("(", " ", 1).replace(")", " ", 1)
        else:
            s = rng.choice([s.replace("(", "", 1), s.replace(")", "", 1), s.replace(")", "))", 1), s.replace("(", "((", 1),
                            s.replace("(", "[", 1).replace(")", "]", 1), s.replace("(", "{", 1).replace(")", "}", 1)])
            reading = "same" if s[s.find("c"):].count("[") or s.count("{") else None
        tx[a][i] = s
        text = join(tx)
    elif label.startswith("mult-"):
        kind = "cpu" if label == "mult-on-cpu" else "cuda"
        ts, i = pick(kind)
        t = ts[i]
        a = e.index(ts)
        if kind == "cuda":
            t["mult"] = None
        tx = texts()
        base = tx[a][i]
        if label == "mult-zero":
            t["mult"] = 0
            tx[a][i] = base + rng.choice(["*0", " * 0", " * 00"])
        elif label == "mult-signed":
            sgn = rng.choice(["-", "+"])
            n = rng.choice([0, 1, 2])
            tx[a][i] = base + f" * {sgn}{n}"
            t["mult"] = n
            reading = "same" if sgn == "+" else None
        elif label == "mult-real":
            tx[a][i] = base + rng.choice([" * 2.5", " * 2.0", " * 1e1", " * two", " * "])
            reading = None
        elif label == "mult-left":
            n = rng.choice([1, 2, 3])
            tx[a][i] = f"{n} * " + base
            t["mult"] = n
        elif label == "mult-twice":
            n, m_ = rng.choice([2, 3]), rng.choice([2, 3])
            tx[a][i] = base + f" * {n} * {m_}"
            t["copies"] = n * m_          # (g * n) * m: every copy is copied again
        else:
            tx[a][i] = base + rng.choice([" * 2", "*3"])          # cpu(..) * n is cpu(..): only GPUs are multiplied
        text = join(tx)
    elif label in ("unknown-key", "key-alias", "dup-keys", "sep-missing", "sep-other", "sep-trailing", "eq-other"):
        ts, i = pick(rng.choice(["cuda", "cpu"]))
        t = ts[i]
        a = e.index(ts)
        if label == "unknown-key":
            tx = texts()
            extra = rng.choice(["gpus=2", "model=a100", "threads=4", "memory_per_cpu=2G", "x=1"] +
                               (["cores=2"] if t["k"] == "cuda" else []))
            tx[a][i] = (tx[a][i].replace("(", "(" + extra + ", ", 1) if rng.random() < 0.5
                        else tx[a][i][:tx[a][i].rfind(")")] + ", " + extra + ")" + tx[a][i][tx[a][i].rfind(")") + 1:])
            reading = None
        elif label == "key-alias":
            tx = texts()
            if "mem" not in tx[a][i]:
                return gen_near_req(rng, e0)
            tx[a][i] = tx[a][i].replace("mem", rng.choice(["memory", "ram", "m"]), 1)
        elif label == "dup-keys":
            t["items"] = t["items"] + [gen_item_mem(rng)] + ([dict(k="cores", n=rng.choice([1, 3, 8]))] if t["k"] == "cpu" else [])
            tx = texts()          # in the grammar: the last one wins
        else:
            if len(t["items"]) < 2:
                t["items"].append(gen_item_mem(rng))
            tx = texts()
            s = tx[a][i]
            if label == "sep-missing":
                s = s.replace(",", " ", 1)
            elif label == "sep-other":
                s = s.replace(",", rng.choice([";", "&", ",,", "|", ":"]), 1)
            elif label == "sep-trailing":
                k = s.rfind(")")
                s = rng.choice([s[:k] + ",)" + s[k + 1:], s.replace("(", "(,", 1)])
            else:
                s = s.replace("=", rng.choice([":", "==", " ", "=>", "= ="]), 1)
            tx[a][i] = s
            reading = None
        text = join(tx)
    elif label in ("empty-brackets", "empty-then-term"):
        kind = rng.choice(["cuda", "cpu"])
        if label == "empty-brackets":
            ts = rng.choice(e)
            w = rng.choice(["", " "])
            extra = dict(k="cuda", items=[dict(k="mem", n=0, u="")], mult=None) if kind == "cuda" else dict(k="cpu", items=[])
            txt = f"{kind}({w})"
            if kind == "cuda" and rng.random() < 0.4:
                extra["mult"] = 2
                txt += " * 2"
            pos = rng.randrange(len(ts) + 1)
            tx = texts()
            a = e.index(ts)
            ts.insert(pos, extra)
            tx[a].insert(pos, txt)
            text = join(tx)              # cuda() = cuda_gpu(): one GPU of any size; cpu() = cpu(): one core
        else:
            tx = texts()
            a = rng.randrange(len(tx))
            i = rng.randrange(len(tx[a]))
            tx[a][i] = f"{kind}() " + tx[a][i]          # an operator is missing
            text = join(tx)
            reading = None
    elif label in ("op-symbol", "op-word", "op-missing", "op-dangling", "op-double"):
        if all(len(ts) == 1 for ts in e) and len(e) == 1:
            e[0].append(gen_term(rng))
        tx = texts()
        has_amp, has_bar = any(len(x) > 1 for x in tx), len(tx) > 1
        on_amp = has_amp and (not has_bar or rng.random() < 0.5)
        if label == "op-symbol":
            text = join(tx, amp=rng.choice([" && ", " + ", "&&"])) if on_amp else join(tx, bar=rng.choice([" || ", "||", " / "]))
        elif label == "op-word":
            text = join(tx, amp=rng.choice([" and ", " AND "])) if on_amp else join(tx, bar=rng.choice([" or ", " OR "]))
        elif label == "op-missing":
            text = join(tx, amp=" ") if on_amp else join(tx, bar=" ")
            reading = None
        elif label == "op-dangling":
            op = rng.choice(["&", "|"])
            text = rng.choice([join(tx) + " " + op, op + " " + join(tx), join(tx) + op + " "])
            reading = None
        else:
            text = join(tx, amp=" & & ") if on_amp else join(tx, bar=" | | ")
            reading = None
    elif label == "odd-whitespace":
        tx = texts()
        sep = rng.choice(["\x0b", "\x0c", "\xa0", "\u2003", "\u3000"])
        text = join(tx, amp=sep + "&" + sep, bar=sep + "|" + sep)
        text = text if ("&" in text or "|" in text) else sep + text + sep
    else:   # junk-suffix
        text = join(texts()) + rng.choice([" x", ")", ";", " 2", " cuda", "&&", ",", " #"])
        reading = None
    rd = None if reading is None else [sem_alt(ts) for ts in e]
    return dict(text=text, label=label, reading=rd)


def oracle_bare(c, case):
    """configuration directories without a usable find_launcher: no launchers.py = the documented default (local host,
    nothing to match against); a launchers.py without find_launcher = hosts described that cannot be asked: no request may
    get a launcher there; and a text that parse() rejects is rejected whatever the configuration"""
    a = case["ans"]
    for text, parsed, bare in ((case["text"], a["parsed"], a["bare"]),
                               (case["near"]["text"] if case.get("near") else None, a.get("near_parsed"), a.get("bare_near"))):
        if bare is None:
            continue
        data = dict(text=text, parsed=parsed, answers=bare, derived_from=case["expr"])
        c.count("bare-registry:" + ("text-accepted" if parsed is not None else "text-rejected"))
        if bare["nofn"]["launcher"] is not None:
            c.violation("C18:registry-ignores-launchers-py",
                        "launchers.py describes the hosts but has no find_launcher(): the request gets the local host "
                        "although no host was asked whether it offers what is requested", data)
        if parsed is None:
            for kind in ("none", "nofn"):
                if bare[kind]["launcher"] is not None:
                    c.violation("C18:registry-text-not-parsed",
                                "a text that parse() rejects gets a launcher: the textual requirement is not even read", data)


def oracle_near(c, case):
    nr, a = case.get("near"), case["ans"]
    if nr is None:
        return
    got = a["near_parsed"]
    c.count(f"near-grammar:{nr['label']}:{'rejected' if got is None else 'accepted'}")
    if got is None:
        return
    data = dict(text=nr["text"], label=nr["label"], reading=nr["reading"], parsed=got, derived_from=case["expr"])
    if nr["reading"] is None:
        import re
        # empty brackets make a term vanish (arpeggio goes on from after an empty result): name that cause
        cause = "empty-brackets-dropped" if re.search(r"(cuda|cpu)\s*\(\s*\)", nr["text"]) else nr["label"]
        c.violation(f"C18:parse-accepts-malformed:{cause}",
                    "parse() accepts a text that has no reading in the request language", data)
    elif [strip(r) for r in got] != nr["reading"]:
        c.violation(f"C18:parse-near-grammar-wrong:{nr['label']}",
                    "parse() accepts the text but the request does not mean what is written", data)


# ---- Gallina rendering
def g_item(i):
    if i["k"] == "mem":
        return f"IMem {i['n']} {dict(G='UG', M='UM')[i['u']] if i['u'] else 'UNone'}"
    return f"ICores {i['n']}"


def g_term(t):
    if t["k"] == "duration":
        return f"TDuration {t['n']} {'DH' if t['u'][0] == 'h' else 'DD'}"
    if t["k"] == "cuda":
        return f"TCuda {glist(g_item(i) for i in t['items'])} {gopt(t['mult'], gz)}"
    return f"TCpu {glist(g_item(i) for i in t['items'])}"


def g_req(r):
    return (f"{{| r_gpus := {glist(gz(x) for x in r['gpus'])}; "
            f"r_cpu := {{| c_mem := {gz(r['mem'])}; c_cores := {gz(r['cores'])} |}}; r_dur := {gz(r['dur'])} |}}")


def g_host(h):
    cu = glist(f"{{| g_mem := {gz(g['mem'])}; g_min := {gz(g['min'])} |}}" for g in h["cuda"])
    return (f"{{| h_cuda := {cu}; h_cpu := {{| c_mem := {gz(h['mem'])}; c_cores := {gz(h['cores'])} |}}; "
            f"h_prio := {gz(h['prio'])}; h_maxdur := {gz(h['maxdur'])}; h_mingpu := {gz(h['mingpu'])} |}}")


def g_case(c):
    a = c["ans"]
    e = glist(glist(g_term(t) for t in ts) for ts in c["expr"])
    parsed = "None" if a["parsed"] is None else f"(Some {glist(g_req(r) for r in a['parsed'])})"
    union = "None" if a["union"] is None else f"(Some ({gnat(max(a['union'][0], 0))}, {gz(a['union'][1])}))"
    orunion = "None" if a["orunion"] is None else f"(Some ({gnat(max(a['orunion'][0], 0))}, {gz(a['orunion'][1])}))"
    rg = a["reg"]
    if rg["exc"] is not None or (rg["host"] is not None and rg["req"] is None):
        reg = "None"          # it raised / the requirement that matched is not a simple requirement
    elif rg["host"] is None:
        reg = "(Some None)"
    else:
        reg = f"(Some (Some ({gnat(rg['host'])}, {g_req(rg['req'])})))"
    def g_text(t, r):
        rr = "None" if r is None else f"(Some {glist(g_req(x) for x in r)})"
        if all(32 <= ord(ch) < 127 or ch in "\t\n\r" for ch in t):      # a string literal is much cheaper for coqc to read
            return f"(text_of_string \"{t.replace(chr(34), chr(34) * 2)}\"%string, {rr})"
        return f"(({glist(str(ord(ch)) for ch in t)})%N, {rr})"
    texts = [g_text(c["text"], a["parsed"])]
    if c.get("near") is not None:
        texts.append(g_text(c["near"]["text"], a["near_parsed"]))
    ans = (f"{{| a_parsed := {parsed}; a_prog := {glist(g_req(r) for r in a['prog'])}; "
           f"a_pure := {glist(gbool(b) for b in a['pure'])}; "
           f"a_single := {glist(gopt(s, gz) for s in a['single'])}; a_union := {union}; "
           f"a_orunion := {orunion}; a_texts := {glist(texts)}; a_reg := {reg} |}}")
    groups = glist(f"({gbool(g['kind'] == 'union')}, {gnat(g['n'])})" for g in c["groups"])
    return f"({e}, {g_host(c['host'])}, {glist(g_host(h) for h in c['hosts'])}, {groups}, {ans})"


# ---- the property restated over implementation observables (independent of the model)
def satisfies(r, h):
    gp = sorted(r["gpus"], reverse=True)
    hg = sorted((g["mem"] for g in h["cuda"]), reverse=True)
    if len(hg) < len(gp):
        return False
    if any(hm < rm for hm, rm in zip(hg, gp)):  # an injection exists iff the sorted pairing works
        return False
    if h["mem"] < r["mem"] or h["cores"] < r["cores"]:
        return False
    if h["maxdur"] > 0 and r["dur"] > h["maxdur"]:
        return False
    return True


def shrink_key_cpu(r, h):
    short_mem = h["mem"] < r["mem"]
    short_cores = h["cores"] < r["cores"]
    return f"mem-{'short' if short_mem else 'ok'}-cores-{'short' if short_cores else 'ok'}"


def oracle(c, case):
    a, h = case["ans"], case["host"]
    # (1) soundness of every individual match
    for i, (r, s) in enumerate(zip(a["prog"], a["single"])):
        if s is not None and not satisfies(r, h):
            gp = sorted(r["gpus"], reverse=True)
            hg = sorted((g["mem"] for g in h["cuda"]), reverse=True)
            if len(hg) < len(gp) or any(x < y for x, y in zip(hg, gp)):
                key = "C18:match-unsound:gpu"
            elif h["maxdur"] > 0 and r["dur"] > h["maxdur"]:
                key = "C18:match-unsound:duration"
            else:
                key = "C18:match-unsound:cpu:" + shrink_key_cpu(r, h)
            c.violation(key, "match() accepts a host that does not satisfy the request",
                        dict(request=r, host=h, text=case["text"], alternative=i, score=s))
    # (2) union returns the first alternative that matches
    first = next((i for i, s in enumerate(a["single"]) if s is not None), None)
    got = None if a["union"] is None else a["union"][0]
    if got != first:
        c.violation("C18:union-not-first", "RequirementUnion.match did not return the first matching alternative",
                    dict(expr=case["expr"], host=h, singles=a["single"], union=a["union"]))
    if a["orunion"] != a["union"] or (got is not None and got < 0):
        c.violation("C18:or-union-differs", "a | b | ... does not answer with the first matching simple requirement "
                    "as RequirementUnion(a, b, ...) does", dict(expr=case["expr"], host=h, singles=a["single"],
                                                                 union=a["union"], orunion=a["orunion"]))
    # (3) operands unchanged by & and * (and by |, match and find)
    if not all(a["pure"]) or not a["pure_after"]:
        c.violation("C18:operand-mutated", "&, * or | altered one of its operands",
                    dict(expr=case["expr"], pure=a["pure"], pure_after=a["pure_after"]))
    # (5) the registry: alternatives are tried in the order given, over all the hosts of launchers.py
    oracle_registry(c, case)
    # (6) a text near the grammar is rejected or means what is written
    oracle_near(c, case)
    # (7) registries without a find_launcher function
    oracle_bare(c, case)
    # (4) text means the same as the programmatic construction
    if a["parsed"] is None or [dict(r, gpu_extra=None) for r in a["parsed"]] != [dict(r, gpu_extra=None) for r in a["prog"]]:
        c.violation("C18:parse-differs", "parse(text) differs from the equivalent programmatic request",
                    dict(text=case["text"], parsed=a["parsed"], prog=a["prog"], exc=a.get("parse_exc")))


def strip(r):
    return None if r is None else {k: r[k] for k in ("gpus", "mem", "cores", "dur")}


def expected_registry(case):
    """first alternative, in the order given, that some host matches; on the first such host (the order in which
    launchers.py examines its hosts).  grid = the implementation's own match() of every alternative on every host."""
    for i, row in enumerate(case["ans"]["grid"]):
        for j, s in enumerate(row):
            if s is not None:
                return i, j
    return None


def oracle_registry(c, case):
    a, rg = case["ans"], case["ans"]["reg"]
    hosts = case["hosts"]
    data = dict(expr=case["expr"], host=case["host"], hosts=hosts, groups=case["groups"], text=case["text"],
                grid=a["grid"], registry=rg)
    union_object = any(g["kind"] == "union" for g in case["groups"])
    sfx = ":union-object" if union_object else ""
    # every match of the grid is sound as well
    for i, row in enumerate(a["grid"]):
        for j, s in enumerate(row):
            if s is not None and not satisfies(a["prog"][i], hosts[j]):
                c.violation("C18:match-unsound:site", "match() accepts a host of the site that does not satisfy the request",
                            dict(data, alternative=i, host_index=j))
    exp = expected_registry(case)
    data["expected"] = None if exp is None else dict(alternative=exp[0], host=exp[1], request=a["prog"][exp[0]])
    if rg["exc"] is not None:
        c.violation("C18:registry-raises" + sfx, f"LauncherRegistry.find raises {rg['exc']}", data)
        return
    if rg["host"] is not None and rg["req"] is None:
        c.violation("C18:registry-match-not-simple" + sfx,
                    "the requirement reported as matched is not a simple requirement", data)
        return
    if rg["host"] is not None and not satisfies(rg["req"], hosts[rg["host"]]):
        c.violation("C18:registry-unsound" + sfx, "the launcher found is for a host that does not satisfy the request", data)
    got = None if rg["host"] is None else (rg["host"], strip(rg["req"]))
    want = None if exp is None else (exp[1], strip(a["prog"][exp[0]]))
    if got != want:
        if want is not None and got is not None:
            what = ("alternatives are not tried in the order given: an earlier alternative is satisfiable by a host of "
                    "the site but the launcher is for a later alternative / another host")
        elif got is None:
            what = "no launcher although an alternative is satisfiable by a host of the site"
        else:
            what = "a launcher although no alternative matches any host of the site"
        c.violation("C18:registry-order" + sfx, what, data)
    if rg["host"] is not None and (rg["part"] != f"p{rg['host']}" or rg["gpus"] != len(rg["req"]["gpus"])):
        c.violation("C18:registry-other-launcher", "find() does not return the launcher find_launcher built", data)


def order_sensitive(case):
    """would 'each host, then each alternative' give another answer than 'each alternative, then each host'?"""
    grid = case["ans"]["grid"]
    exp = expected_registry(case)
    for j in range(len(case["hosts"])):
        for i in range(len(grid)):
            if grid[i][j] is not None:
                return exp != (i, j)
    return False


def run(c: Check):
    c.rule = ("random request ASTs (1-3 alternatives x 1-4 terms) printed with random whitespace and built "
              "programmatically, against random hosts near the request, and handed to the real LauncherRegistry.find "
              "(alternatives as one string, several strings, simple objects, objects built with |, or a mix) over a "
              "launchers.py with 1-4 hosts aimed at the alternatives; for 45% of the cases also a text near the grammar "
              "(38 kinds: units, keywords, brackets, multipliers, keys, operators, separators, numbers) with its reading or "
              "none; non-trivial = the request has >=2 terms or a "
              "multiplier, distinct by (expression, host, hosts, groups)")
    c.build()
    c.props()
    n = 1500 if c.quick else 40000
    cases = []
    if c.replay:
        rp = json.load(open(c.replay))["replay"]
        if "expr" in rp and "host" in rp:
            cases.append(dict(expr=rp["expr"], host=rp["host"], text=rp.get("text") or print_expr(c.rng, rp["expr"]),
                              hosts=rp.get("hosts") or [rp["host"]],
                              groups=rp.get("groups") or [dict(kind="str", n=len(rp["expr"]))]))
        elif "derived_from" in rp:          # a text near the grammar
            e = rp["derived_from"]
            cases.append(dict(expr=e, host=gen_host(c.rng, e), text=print_expr(c.rng, e), hosts=[gen_host(c.rng, e)],
                              groups=[dict(kind="str", n=len(e))],
                              near=dict(text=rp["text"], label=rp.get("label", "replay"),
                                        reading=rp["reading"] if "reading" in rp else
                                        (None if rp.get("parsed") is None else [strip(r) for r in rp["parsed"]]))))
        n = 0
    # golden corpus first (minimised earlier failures)
    gold = json.load(open(c_root() / "golden" / "c18.json"))
    for g in gold:
        cases.append(dict(expr=g["expr"], host=g["host"], text=print_expr(c.rng, g["expr"]),
                          hosts=g.get("hosts") or [g["host"]],
                          groups=g.get("groups") or [dict(kind="str", n=len(g["expr"]))]))
        if g.get("near"):
            cases[-1]["near"] = g["near"]
    for _ in range(n):
        e = gen_expr(c.rng)
        cases.append(dict(expr=e, host=gen_host(c.rng, e), text=print_expr(c.rng, e), hosts=gen_hosts(c.rng, e),
                          groups=gen_groups(c.rng, len(e))))
    for case in cases:
        with_group_texts(c.rng, case)
        if "near" not in case and not c.replay and c.rng.random() < 0.45:
            case["near"] = gen_near_req(c.rng, case["expr"])
    ans = run_impl("drive_c18.py", dict(cases=cases), timeout=1200)
    for case, a in zip(cases, ans):
        case["ans"] = a
        c.evaluations += 1
        nterms = sum(len(ts) for ts in case["expr"])
        c.count(f"alternatives={len(case['expr'])}")
        c.count(f"terms={nterms}")
        for ts in case["expr"]:
            for t in ts:
                c.count("term:" + t["k"] + (":mult" if t.get("mult") is not None else ""))
        c.count("union:" + ("none" if a["union"] is None else "some"))
        for s in a["single"]:
            c.count("match:" + ("no" if s is None else "yes"))
        c.count(f"site:hosts={len(case['hosts'])}")
        c.count("find-args:" + "+".join(sorted({g["kind"] for g in case["groups"]})))
        exp = expected_registry(case)
        c.count("registry:" + ("none" if exp is None else f"alternative{exp[0]}-host{exp[1]}"))
        if order_sensitive(case):
            c.count("registry:order-of-nesting-matters")
        if nterms >= 2 or any(t.get("mult") is not None for ts in case["expr"] for t in ts):
            c.nontrivial.add(json.dumps([case["expr"], case["host"], case["hosts"],
                                         [(g["kind"], g["n"]) for g in case["groups"]]], sort_keys=True))
        oracle(c, case)
    c.samples = [dict(text=x["text"], host=x["host"], hosts=x["hosts"], groups=x["groups"], answer=x["ans"])
                 for x in cases[:3]]
    header = ("From Coq Require Import String.\nFrom Coq Require Import ZArith NArith List Bool.\n"
              "From XV Require Import model.Launcher model.LauncherParse "
              "corr.LauncherCorr.\n"
              "Import ListNotations.\nOpen Scope Z_scope.\n")
    bad = c.corr_shards("corr", header, cases, g_case, "check_case")
    c.extra["disagreeing_cases"] = [dict(text=cases[i]["text"], host=cases[i]["host"], answer=cases[i]["ans"]) for i in bad[:5]]
    c.level_assumptions = ["humanfriendly.parse_size / parse_timespan and arpeggio are trusted to behave as probed "
                           "(decimal units G/M; d/h); the model covers match/union/&/*, the request grammar at character level "
                           "(ASCII digits) with its meaning, and the search of LauncherRegistry.find",
                           "the find_launcher function of launchers.py is the harness's: it goes through its hosts in "
                           "order and answers with the first host the requirement matches, as the documented ones do"]


def c_root():
    from vcommon import ROOT
    return ROOT


if __name__ == "__main__":
    main_wrapper("C18", run)
