"""C04 - no job is launched before everything it depends on has succeeded."""
from vcommon import main_wrapper
import schedlib


def run(c):
    schedlib.run_sched_check(
        c, "c04", [schedlib.oracle_c04, schedlib.oracle_c04_deps], n_quick=300, n_thorough=3000, golden_name="c04.json",
        rule=("random DAGs (<=7 jobs) whose upstream tasks are embedded in the parameters directly, in lists, dicts, "
              "nested configurations (also lists of configurations holding dicts), task outputs, pre-tasks (lightweight "
              "or submitted tasks), init tasks and explicit dependencies, with duplicates / re-submissions and the "
              "submitted object itself used instead of the value returned by submit(); tokens, exit codes and random "
              "delivery orders as for C06; non-trivial = at least two jobs and one dependency; "
              "distinct by (workload, schedule); + directed probes with real job processes through the Slurm launcher "
              "(the tree's fake sbatch/srun/sacct; sacct without and with job-step lines, before or after the job line) "
              "and the local launcher: the dependent of a failed job is never launched"))
    schedlib.run_proc_probes(c, "C04", [dict(mode="slurm", sacct=k, hows=["return", "raise", "exit:3"])
                                        for k in ("plain", "steps-after", "steps-before")] +
                             [dict(mode="exit", hows=["return", "exit:2", "exit:256", "status:exit 1", "raise"])])


if __name__ == "__main__":
    main_wrapper("C04", run)
