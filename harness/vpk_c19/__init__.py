"""Tasks used by harness/drive_c19.py to produce a workspace with the real scheduler."""
import sys

from experimaestro import Param, Task


class Ok(Task):
    x: Param[int]

    def execute(self):
        pass


class Fail(Task):
    x: Param[int]

    def execute(self):
        sys.exit(3)
