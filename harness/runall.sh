#!/bin/sh
# runs every enabled check (quick tier by default) against /repo itself; prints one line per check
cd "$(dirname "$0")/.."
tier="${1:-quick}"
for p in $(cat harness/manifest.d/ENABLED); do
  out=$(./check "$p" --tier "$tier" 2>&1); rc=$?
  echo "$p rc=$rc $(echo "$out" | grep -E '^\[' | tail -1)"
  echo "$out" | grep -E '^(VIOLATION|KNOWN-FINDING)' | cut -c1-160
done
