"""C16 - the experiment's job index lists exactly the jobs of the last completed plan."""
import copy
import json
from concurrent.futures import ThreadPoolExecutor

from vcommon import Check, InternalError, ROOT, main_wrapper, run_impl, gz, gnat, glist

NJ = 7            # job universe 0..NJ-1 (the driver knows 8)
ENDS = ["ok", "exc", "kill_in", "kill_moving", "kill_locked", "kill_exit", "kill_wait", "fail_wait"]
END_W = [32, 24, 11, 8, 4, 9, 7, 5]
# order of __exit__ as observed on the implementation (detect_exit_order): False = rmtree(jobs.bak) then wait()
# (the code as it is, model `step`), True = wait() then rmtree (fixes/C16-1.diff, model `step_late`)
LATE = [False]
# what a raising block raises (keys of EXC in the driver): instances of Exception ...
EXC_ERR = ["error", "error", "oserror", "both", "excgroup"]
# ... and BaseExceptions that are not Exceptions (sys.exit, Ctrl-C, a closed generator, a cancelled coroutine, ...)
EXC_BASE = ["sysexit0", "sysexit1", "sysexit1", "sysexitmsg", "kbint", "kbint", "cancelled", "halt", "basegroup", "genexit"]
VIAS = ["fall", "fall", "fall", "return", "break"]     # ways of leaving the block without exception


def gen_exc(rng):
    return rng.choice(EXC_BASE if rng.random() < 0.55 else EXC_ERR)


FLAKY = 7         # the one job that really runs (fails, is submitted again, succeeds); outside the universe 0..NJ-1
MODES = ["normal", "generate", "dry"]           # RunMode.NORMAL / GENERATE_ONLY / DRY_RUN
MODE_W = [80, 13, 7]
LAYOUTS = ["plain", "jobs-link", "task-link", "ws-link"]     # what is a symbolic link in the workspace (see the driver)
LAYOUT_W = [52, 18, 16, 14]
NAMES = ["e", "e", "e", "e", "e", "exp-1.b", "e e", "g/e"]   # experiment names ("g/e": must be refused or be seen by the tools)


def gen_layout(rng, names=True):
    d = dict(layout=rng.choices(LAYOUTS, LAYOUT_W)[0])
    if names:
        d["name"] = rng.choice(NAMES)
    return d


# ---------------------------------------------------------------- generator
def gen_run(rng, first):
    n = rng.choice([0, 1, 1, 2, 2, 3, 3, 4, 5])
    jobs = [rng.randrange(NJ) for _ in range(n)]
    mode = rng.choices(MODES, MODE_W)[0]
    end = rng.choices(ENDS, END_W)[0]
    if mode != "normal" and end not in ("ok", "exc", "kill_in"):      # no rotation, no rmtree, no scheduler in these modes
        end = rng.choice(["ok", "ok", "exc", "kill_in"])
    run = dict(jobs=jobs, end=end, mk=sorted(set(jobs)) if mode == "normal" else [], rm=[])
    if mode != "normal":
        run["mode"] = mode
    if first:
        run["mk"] = sorted(set(jobs) | {x for x in range(NJ) if rng.random() < 0.4})
    elif rng.random() < 0.15:
        run["rm"] = sorted({x for x in range(NJ) if x not in jobs and rng.random() < 0.3})
    if end in ("exc", "kill_in"):
        run["k"] = rng.randint(0, len(jobs))
    if end == "exc":
        run["exc"] = gen_exc(rng)
    if end == "ok":
        run["via"] = rng.choice(VIAS)
    elif end == "kill_moving":
        run["k"] = rng.choice([0, 0, 0, 1, 1, 2])
    elif end == "kill_exit":
        run["k"] = rng.choice([0, 1, 1, 2, 2, 3, 4, 6])
    run["sync"] = rng.random() < (0.8 if end != "ok" else 0.3)
    run["sig"] = rng.random() < 0.3
    return run


def gen_hist(rng, flaky=False):
    n = rng.choice([1, 2, 3, 3, 4, 4, 5, 6])
    case = dict(kind="hist", runs=[gen_run(rng, i == 0) for i in range(n)], **gen_layout(rng))
    if flaky:         # one run of the history, ending normally, also runs a job that fails and is submitted again
        oks = [r for r in case["runs"] if r["end"] == "ok" and r.get("mode", "normal") == "normal"]
        if not oks:
            oks = [dict(jobs=[rng.randrange(NJ)], end="ok", mk=[], rm=[], sync=True, sig=False)]
            oks[0]["mk"] = list(oks[0]["jobs"])
            case["runs"].append(oks[0])
        rng.choice(oks)["flaky"] = True
        case["name"] = "e"
    return case


def gen_reenter(rng):
    """One process, 2-4 blocks one after the other on one experiment object (or, control, a new object each time)."""
    pre = [gen_run(rng, True)] if rng.random() < 0.4 else []
    blocks = []
    for _ in range(rng.choice([2, 2, 3, 4])):
        b = dict(jobs=[rng.randrange(NJ) for _ in range(rng.choice([0, 1, 1, 2, 3]))], how=rng.choice(["ok", "ok", "ok", "exc"]))
        if b["how"] == "exc":
            b["exc"] = gen_exc(rng)
        blocks.append(b)
    mk = sorted({x for b in blocks for x in b["jobs"]})
    return dict(kind="reenter", pre=pre, mk=mk, blocks=blocks, reuse=rng.random() < 0.75, **gen_layout(rng, names=False))


def gen_nested(rng):
    pre = []
    for i in range(rng.choice([0, 0, 1])):
        r = gen_run(rng, i == 0)
        r["end"] = rng.choice(["ok", "exc"]) if r["end"] not in ("ok", "exc", "kill_in") else r["end"]
        pre.append(r)
    a, inner, b_ = ([rng.randrange(NJ) for _ in range(rng.choice([1, 1, 2]))] for _ in range(3))
    return dict(kind="nested", pre=pre, a=a, inner=inner, b=b_, mk=sorted(set(a) | set(inner) | set(b_)), wait=0.4,
                **gen_layout(rng, names=False))


def gen_excl(rng):
    pre = []
    for i in range(rng.choice([0, 1, 1, 2])):
        r = gen_run(rng, i == 0)
        if r["end"] in ("kill_moving", "kill_locked", "kill_exit", "kill_wait"):
            r["end"] = "ok"
        pre.append(r)
    p1 = [rng.randrange(NJ) for _ in range(rng.choice([1, 1, 2, 3]))]
    p2 = [rng.randrange(NJ) for _ in range(rng.choice([0, 1, 2, 3]))]
    return dict(kind="excl", pre=pre, p1=p1, p2=p2, mk=sorted(set(p1) | set(p2)),
                leave=rng.choice(["ok", "exc", "exc", "kill"]), exc=gen_exc(rng), wait=0.4, **gen_layout(rng, names=False))


def gen_excl3(rng):
    pre = []
    for i in range(rng.choice([0, 0, 1])):
        r = gen_run(rng, i == 0)
        r["end"] = rng.choice(["ok", "exc"]) if r["end"] not in ("ok", "exc", "kill_in") else r["end"]
        pre.append(r)
    a, b_, c_ = ([rng.randrange(NJ) for _ in range(rng.choice([1, 1, 2]))] for _ in range(3))
    return dict(kind="excl3", pre=pre, a=a, b=b_, c=c_, mk=sorted(set(a) | set(b_) | set(c_)),
                leave=rng.choice(["ok", "exc"]), exc=gen_exc(rng), third=rng.choice(["new", "relaunch"]), wait=0.4,
                **gen_layout(rng, names=False))


# ---------------------------------------------------------------- reading a run's record
def subs_of(log):
    return [int(l.split()[1]) for l in log if l.startswith("sub ")]


def tsubs(logs, tag):
    return [int(l.split()[2]) for who in logs.values() for l in who if l.startswith(tag + " sub ")]


def names(links):
    return [l[0] for l in (links or [])]


def run_failed(res):
    """Machinery problems (never a verdict about the property)."""
    if res["status"] == "timeout":
        return "child timed out"
    if "try" not in res["log"]:
        return "child did not start"
    o = res["snap"]["orph"]
    if isinstance(o, dict) and "error" in o:
        return "orphans command failed: " + o["error"]
    return None


# ---------------------------------------------------------------- model schedule (Gallina items)
def g_link(l):
    return f"({gz(l[0])}, {gz(l[1])})"


def g_obs(snap):
    bak = "None" if snap["bak"] is None else f"(Some {glist(g_link(l) for l in snap['bak'])})"
    o = snap["orph"]
    orph = "None" if o is None else f"(Some ({glist(gz(x) for x in o['orphans'])}, {gz(o['found'] if o['found'] is not None else -1)}))"
    return f"Obs {{| o_jobs := {glist(g_link(l) for l in snap['jobs'])}; o_bak := {bak}; o_orph := {orph} |}}"


def ev(name, p=None, x=None):
    s = name
    if p is not None:
        s += " " + gnat(p)
    if x is not None:
        s += " " + gz(x)
    return f"Ev ({s})"


def ev_exc(p, log, tag=""):
    """The block raised: the class the implementation was handed (recorded by the driver from the exception
    object itself); a context that raised by itself counts as an ordinary error."""
    return f"Ev (EndExc {gnat(p)} {'ExcExit' if tag + 'exc-class base' in log else 'ExcError'})"


def run_items(p, run, res, pre):
    """The steps the implementation took in this run, read from its log and from the index
    before/after (which links were moved / removed / made is the implementation's choice)."""
    log, snap = res["log"], res["snap"]
    jpre, bpre = names(pre["jobs"]), names(pre["bak"])
    jpost = names(snap["jobs"])
    items = [ev("RmJobDir", None, x) for x in run.get("rm", [])] + [ev("MkJobDir", None, x) for x in run.get("mk", [])]
    mode = run.get("mode", "normal")
    if mode == "dry":            # RunMode.DRY_RUN: no lock, nothing touched, nothing prepared - no event
        return items + [g_obs(snap)]
    if mode == "generate":       # RunMode.GENERATE_ONLY: lock held, submit() prepares the job folder, nothing else
        items.append(ev("LockGen", p))
        items += [ev("MkJobDir", None, x) for x in subs_of(log)]
        if "exited" in log:
            items.append(f"Ev (EndGen {gnat(p)} false)")
        elif "raise" in log or any(l.startswith("error") for l in log):
            items.append(f"Ev (EndGen {gnat(p)} true)")
        else:
            items.append(ev("Kill", p))
        return items + [g_obs(snap)]
    if "flaky-failed" in log or "flaky-done" in log:      # the job that really ran made its own folder
        items.append(ev("MkJobDir", None, FLAKY))
    items.append(ev("Lock", p))
    if "kill locked" in log:
        return items + [ev("Kill", p), g_obs(snap)]
    items.append(ev("MkBak", p))
    entered = "entered" in log
    moved = jpre if entered else [n for n in jpre if n not in jpost]
    items += [ev("Move", p, n) for n in moved]
    if not entered:
        return items + [ev("Kill", p), g_obs(snap)]
    items.append(ev("Ready", p))
    items += [ev("Submit", p, x) for x in subs_of(log)]
    items += [ev("Link", p, n) for n in jpost]
    if "raise" in log or any(l.startswith("error") for l in log):
        items.append(ev_exc(p, log))
    elif "kill in" in log:
        items.append(ev("Kill", p))
    elif "endblock" in log:
        items.append(ev("EndOk", p))
        full = sorted(set(jpre) | set(bpre))
        if "exited" in log:
            items += ok_exit_tail(p, full)
        elif "wait-raise" in log:     # wait() raised: with the code as it is the backup is already gone
            items += ([] if LATE[0] else [ev("RmEntry", p, n) for n in full] + [ev("RmBakDir", p)]) + [ev("WaitFail", p)]
        else:
            left = names(snap["bak"])
            if not LATE[0] or "waited" in log:
                items += [ev("WaitOk", p)] if LATE[0] else []
                items += [ev("RmEntry", p, n) for n in full if n not in left]
                if snap["bak"] is None:
                    items.append(ev("RmBakDir", p))
            items.append(ev("Kill", p))
    else:
        items.append(ev("Kill", p))
    return items + [g_obs(snap)]


def ok_exit_tail(p, bak_names):
    """What follows EndOk in an __exit__ that returns: the rmtree entry by entry and the end of wait(), in the
    order the implementation has them."""
    rm = [ev("RmEntry", p, n) for n in bak_names] + [ev("RmBakDir", p)]
    return ([ev("WaitOk", p)] + rm if LATE[0] else rm) + [ev("Done", p)]


EMPTY = dict(jobs=[], bak=None, orph=None)


def as_runs(case):
    """(process, run) of every run of a history; a "reenter" case is a history whose blocks are runs of one process."""
    if case["kind"] == "hist":
        return list(enumerate(case["runs"]))
    n = len(case["pre"])
    out = list(enumerate(case["pre"]))
    for i, b in enumerate(case["blocks"]):
        out.append((n, dict(jobs=b["jobs"], end=b.get("how", "ok"), exc=b.get("exc", "error"), k=len(b["jobs"]),
                            mk=case["mk"] if i == 0 else [], rm=[])))
    return out


def case_items(case, res):
    items, pre = [], EMPTY
    if case["kind"] in ("hist", "reenter"):
        for (p, run), r in zip(as_runs(case), res["runs"]):
            items += run_items(p, run, r, pre)
            pre = r["snap"]
        return items
    for p, (run, r) in enumerate(zip(case["pre"], res["pre"])):
        items += run_items(p, run, r, pre)
        pre = r["snap"]
    if case["kind"] == "excl3":
        return items + excl3_items(case, res, pre)
    if case["kind"] == "nested":
        return items + nested_items(case, res, pre)
    p1, p2 = len(case["pre"]), len(case["pre"]) + 1
    items += [ev("MkJobDir", None, x) for x in case["mk"]]
    held = res["s_held"]
    items += [ev("Lock", p1), ev("MkBak", p1)] + [ev("Move", p1, n) for n in names(pre["jobs"])] + [ev("Ready", p1)]
    items += [ev("Submit", p1, x) for x in subs_of(res["p1_log"])] + [ev("Link", p1, n) for n in names(held["jobs"])]
    items.append(g_obs(held))
    if not res["p2_early"]:
        items.append(f"Blocked (Lock {gnat(p2)})")
    items.append(g_obs(res["s_waiting"]))
    if case["leave"] == "ok":
        items += [ev("EndOk", p1)] + ok_exit_tail(p1, names(held["bak"]))
    elif case["leave"] == "exc":
        items.append(ev_exc(p1, res["p1_log"]))
    else:
        items.append(ev("Kill", p1))
    mid = res["s_p2in"]
    items += [ev("Lock", p2), ev("MkBak", p2)] + [ev("Move", p2, n) for n in names(held["jobs"])] + [ev("Ready", p2), g_obs(mid)]
    items += [ev("Submit", p2, x) for x in subs_of(res["p2_log"])] + [ev("Link", p2, n) for n in names(res["s_end"]["jobs"])]
    items += [ev("EndOk", p2)] + ok_exit_tail(p2, names(mid["bak"]))
    items.append(g_obs(res["s_end"]))
    return items


def enter_items(p, before, subs, inside):
    return ([ev("Lock", p), ev("MkBak", p)] + [ev("Move", p, n) for n in names(before["jobs"])] + [ev("Ready", p)]
            + [ev("Submit", p, x) for x in subs] + [ev("Link", p, n) for n in names(inside["jobs"])] + [g_obs(inside)])


def leave_ok_items(p, inside):
    return [ev("EndOk", p)] + ok_exit_tail(p, names(inside["bak"]))


def excl3_items(case, res, pre):
    n = len(case["pre"])
    pa, pb = n, n + 1
    pc = n + 2 if case["third"] == "new" else pa      # "relaunch": the first process runs the experiment again
    logs = res["logs"]
    items = [ev("MkJobDir", None, x) for x in case["mk"]]
    items += enter_items(pa, pre, tsubs(logs, "A"), res["s_a"])
    if not res["b_early"]:
        items.append(f"Blocked (Lock {gnat(pb)})")
    items.append(g_obs(res["s_bwait"]))
    items += leave_ok_items(pa, res["s_a"]) if case["leave"] == "ok" else [ev_exc(pa, logs["a"], "A ")]
    items += enter_items(pb, res["s_a"], tsubs(logs, "B"), res["s_b"])
    if not res["c_early"]:
        items.append(f"Blocked (Lock {gnat(pc)})")
    items.append(g_obs(res["s_cwait"]))
    items += leave_ok_items(pb, res["s_b"])
    items += enter_items(pc, res["s_b"], tsubs(logs, "C"), res["s_c"])
    items += leave_ok_items(pc, res["s_c"]) + [g_obs(res["s_end"])]
    return items


def nested_items(case, res, pre):
    """A inside; its process tries the same experiment again inside the block: refused = no step at all; a second
    process stays outside until A leaves."""
    n = len(case["pre"])
    pa, pb = n, n + 1
    logs = res["logs"]
    items = [ev("MkJobDir", None, x) for x in case["mk"]]
    items += enter_items(pa, pre, tsubs(logs, "A"), res["s_a"])
    items.append(g_obs(res["s_n"]))
    if not res["b_early"]:
        items.append(f"Blocked (Lock {gnat(pb)})")
    items.append(g_obs(res["s_bwait"]))
    items += leave_ok_items(pa, res["s_a"])
    items += enter_items(pb, res["s_a"], tsubs(logs, "B"), res["s_b"])
    items += leave_ok_items(pb, res["s_b"]) + [g_obs(res["s_end"])]
    return items


def g_case(cr):
    return glist(case_items(cr[0], cr[1]))


# ---------------------------------------------------------------- the property over observables
class Oracle:
    """The property restated over what the implementation left on disk; no model involved."""

    def __init__(self):
        self.keep = set()      # jobs linked by the last run whose block ended without exception, and by every later run
        self.keep_w = set()    # jobs linked by the last run that completed (its wait() returned), and by every later run
        self.found = []        # (key, what, run index)
        self.prev = EMPTY      # the index as the previous run left it

    def flag(self, key, what, i):
        self.found.append((key, what, i))

    def links_ok(self, snap, i):
        for l in (snap["jobs"] or []) + (snap["bak"] or []):
            if l[0] < 0 or l[1] != l[0]:
                self.flag("C16:link-target-wrong", f"a link of the index does not point to its job directory: {l}", i)

    def completed(self, snap, subs, i):
        got = sorted(names(snap["jobs"]))
        if got != sorted(set(subs)):
            self.flag("C16:completed-index-differs",
                      f"after a run that ended without exception jobs/ links {got} but the run submitted {sorted(set(subs))}", i)
        if snap["bak"] is not None:
            self.flag("C16:backup-left-after-ok", "jobs.bak still exists after a run that ended without exception", i)

    def kept(self, snap, i):
        have = set(names(snap["jobs"])) | set(names(snap["bak"]))
        lost = sorted(self.keep - have)
        if lost:
            self.flag("C16:kept-job-lost", f"jobs {lost} of the last completed plan / of aborted runs are neither in jobs/ nor in jobs.bak/", i)
        o = snap["orph"]
        if o is not None:
            bad = sorted(self.keep & set(o["orphans"]))
            if bad:
                self.flag("C16:kept-job-orphan", f"orphans reports {bad}, jobs of the last completed plan / of aborted runs", i)

    def kept_until_completed(self, snap, i, how):
        """The property with 'completed' read as 'the run's wait() returned': a run whose block ended but which was
        killed before/while waiting for its jobs, or whose wait() raised, has not completed - the previous plan must
        still be indexed.  Only what the block-ended reading (self.keep) does not already demand is reported here."""
        extra = self.keep_w - self.keep
        have = set(names(snap["jobs"])) | set(names(snap["bak"]))
        lost = sorted(extra - have)
        o = snap["orph"]
        orph = sorted(extra & set(o["orphans"])) if o is not None else []
        if lost or orph:
            self.flag("C16:backup-dropped-before-wait",
                      f"the block of this run ended without exception but the run did not complete ({how}); jobs {lost} of the "
                      f"last plan whose run completed (or linked by aborted runs since) are in neither jobs/ nor jobs.bak/ (jobs.bak = "
                      f"{'absent' if snap['bak'] is None else names(snap['bak'])}); orphans reports {orph}", i)

    def raised_keeps(self, pre, snap, i, how):
        """If the block raises - whatever it raises - the previous index is kept as backup."""
        gone = sorted(set(names(pre["jobs"])) - set(names(snap["bak"])))
        if gone:
            self.flag("C16:previous-index-not-kept-after-raise",
                      f"the block was left through an exception ({how}) but the links {gone} of the index found on entry "
                      f"are not in jobs.bak/ afterwards (jobs.bak = {'absent' if snap['bak'] is None else names(snap['bak'])})", i)

    def run(self, res, i, mode="normal"):
        log, snap = res["log"], res["snap"]
        subs = subs_of(log)
        self.links_ok(snap, i)
        if mode != "normal":
            # a generate-only or dry run schedules nothing: it completes no plan and begins none; what had to be kept
            # before it still has to be (in particular the backup an aborted normal run left)
            if any(l.startswith("error") for l in log):
                self.flag("C16:context-raised", "the experiment context raised although the block did not: " +
                          [l for l in log if l.startswith("error")][0][:200], i)
            self.kept(snap, i)
            self.kept_until_completed(snap, i, f"a {mode} run does not complete a plan")
            self.prev = snap
            return
        if any(l.startswith("error") for l in log):
            self.flag("C16:context-raised", "the experiment context raised although the block did not: " +
                      [l for l in log if l.startswith("error")][0][:200], i)
        if "sync-timeout" in log:
            self.flag("C16:link-missing", "a submitted job never got its link while the experiment was held", i)
        made = set(names(snap["jobs"])) & set(subs)
        if "exited" in log:
            self.completed(snap, subs, i)
            self.keep = set(subs)
            self.keep_w = set(subs)
        elif "endblock" in log:
            self.keep = made
            if "waited" in log:        # wait() returned, the process died later in __exit__: the plan had completed
                self.keep_w = made
            else:                      # killed before/while waiting for its jobs, or wait() raised: not completed
                self.keep_w |= made
        elif "entered" in log:
            self.keep |= made
            self.keep_w |= made
        self.kept(snap, i)
        self.kept_until_completed(snap, i, "wait() raised" if "wait-raise" in log else "the process was killed before wait() returned")
        if "raise" in log and "exc-out" in log:
            self.raised_keeps(self.prev, snap, i, "an Exception" if "exc-class error" in log else "not an Exception: sys.exit, KeyboardInterrupt, ...")
        self.prev = snap


def tag_key(case, key, i):
    """The same clause, reported under its own key when the input belongs to one of the families of round 6."""
    if "/" in case.get("name", "e"):
        return key + ":experiment-name-with-separator"
    if case["kind"] == "reenter" and case.get("reuse") and i > len(case["pre"]):
        return key + ":same-object-entered-again"
    if case["kind"] == "hist" and i < len(case["runs"]) and case["runs"][i].get("flaky"):
        return key + ":resubmitted-job"
    if case["kind"] == "nested" and not key.endswith("nested-block"):
        return key + ":nested-probe"
    return key


def oracle_case(case, res):
    return [(tag_key(case, k, i), w, i) for k, w, i in oracle_case_(case, res)]


def oracle_case_(case, res):
    o = Oracle()
    if case["kind"] in ("hist", "reenter"):
        for i, ((_, run), r) in enumerate(zip(as_runs(case), res["runs"])):
            o.run(r, i, run.get("mode", "normal"))
            if run.get("flaky") and "flaky-done" not in r["log"]:
                raise InternalError(f"the flaky job did not fail and then succeed: {r['log']}")
        return o.found
    for i, (run, r) in enumerate(zip(case["pre"], res["pre"])):
        o.run(r, i, run.get("mode", "normal"))
    n = len(res["pre"])
    if case["kind"] == "excl3":
        return oracle_excl3(o, case, res, n)
    if case["kind"] == "nested":
        return oracle_nested(o, case, res, n)
    if res["p2_early"]:
        o.flag("C16:second-holder-entered", "a second process entered the experiment while the first still held it", n)
    if res["s_waiting"] != res["s_held"]:
        o.flag("C16:index-changed-by-waiter", f"the index changed while a second process was waiting for the experiment: "
               f"{res['s_held']} -> {res['s_waiting']}", n)
    if not res["p2_after"] or res.get("p2_timeout"):
        o.flag("C16:second-never-entered", "the second process did not get the experiment after the first left", n + 1)
    # the two processes as runs
    o.links_ok(res["s_held"], n)
    o.keep |= set(names(res["s_held"]["jobs"])) & set(subs_of(res["p1_log"]))
    o.kept(res["s_waiting"], n)
    if case["leave"] == "ok":       # the first process's block ended without exception (and its __exit__ returned): its plan is the completed one
        o.keep = set(names(res["s_held"]["jobs"])) & set(subs_of(res["p1_log"]))
    if res["p2_after"] and not res.get("p2_timeout"):
        o.kept(res["s_p2in"], n + 1)
        if case["leave"] == "exc" and "exc-out" in res["p1_log"]:
            o.raised_keeps(o.prev, res["s_p2in"], n, "exception kind " + case.get("exc", "error"))
        o.links_ok(res["s_end"], n + 1)
        if "exited" in res["p2_log"]:
            o.completed(res["s_end"], subs_of(res["p2_log"]), n + 1)
            o.keep = set(subs_of(res["p2_log"]))
            o.kept(res["s_end"], n + 1)
    return o.found


def oracle_excl3(o, case, res, n):
    """The times spent inside the block by A, B and the third contender must be pairwise disjoint:
    B gets in only after A left, the third only after B left; nobody but the process inside touches the index."""
    logs = res["logs"]
    all_lines = [l for who in logs.values() for l in who]
    for l in all_lines:
        if " error " in l:
            o.flag("C16:context-raised", "the experiment context raised although the block did not: " + l[:200], n)
        if l.endswith("sync-timeout"):
            o.flag("C16:link-missing", "a submitted job never got its link while the experiment was held", n)
    if res["b_early"]:
        o.flag("C16:second-holder-entered", "a second process entered the experiment while the first still held it", n)
    if res["s_bwait"] != res["s_a"]:
        o.flag("C16:index-changed-by-waiter", f"the index changed while a second process was waiting for the experiment: "
               f"{res['s_a']} -> {res['s_bwait']}", n)
    if not res["b_after"]:
        o.flag("C16:second-never-entered", "the second process did not get the experiment after the first left", n + 1)
        return o.found
    if res["c_early"]:
        o.flag("C16:holder-joined-after-handover", "after the experiment went from a first process to a waiting second one, "
               "a third contender entered while the second was still inside", n + 2)
    if res["s_cwait"] != res["s_b"]:
        o.flag("C16:index-changed-after-handover", f"the index of the process inside changed while another contender was "
               f"supposed to wait: {res['s_b']} -> {res['s_cwait']}", n + 2)
    if not res["c_after"]:
        o.flag("C16:third-never-entered", "the third contender did not get the experiment after the second left", n + 2)
    # the three blocks as runs of the experiment
    o.links_ok(res["s_a"], n)
    made_a = set(names(res["s_a"]["jobs"])) & set(tsubs(logs, "A"))
    o.keep |= made_a
    o.kept(res["s_bwait"], n)
    if case["leave"] == "ok":
        o.keep = made_a
    if case["leave"] == "exc" and "A exc-out" in logs["a"]:
        o.raised_keeps(o.prev, res["s_b"], n, "exception kind " + case.get("exc", "error"))
    o.links_ok(res["s_b"], n + 1)
    made_b = set(names(res["s_b"]["jobs"])) & set(tsubs(logs, "B"))
    o.keep |= made_b
    o.kept(res["s_b"], n + 1)
    o.kept(res["s_cwait"], n + 1)
    if res["c_after"] and res["c_left"] and not res["c_early"]:
        o.keep = made_b                       # B left normally
        o.keep |= set(names(res["s_c"]["jobs"])) & set(tsubs(logs, "C"))
        o.kept(res["s_c"], n + 2)
        o.links_ok(res["s_end"], n + 2)
        o.completed(res["s_end"], tsubs(logs, "C"), n + 2)
        o.keep = set(tsubs(logs, "C"))
        o.kept(res["s_end"], n + 2)
    return o.found


def oracle_nested(o, case, res, n):
    """While A is inside - whatever its own process tried meanwhile - nobody else gets in and nobody but A's block
    touches the index."""
    logs = res["logs"]
    for l in [l for who in logs.values() for l in who]:
        if " error " in l:
            o.flag("C16:context-raised", "the experiment context raised although the block did not: " + l[:200], n)
    refused = "A nested-entered" not in logs["a"]
    if res["s_n"] != res["s_a"]:
        o.flag("C16:index-changed-by-nested-block", f"the same experiment entered again by the process that is inside it "
               f"({'refused' if refused else 'entered'}) changed the index of the running block: {res['s_a']} -> {res['s_n']}", n)
    if res["b_early"]:
        o.flag("C16:second-holder-entered:after-nested-block", "after the process inside the experiment entered and left the same "
               "experiment again within its block, a second process entered while the first block was still running", n)
    elif res["s_bwait"] != res["s_n"]:
        o.flag("C16:index-changed-by-waiter", f"the index changed while a second process was waiting for the experiment: "
               f"{res['s_n']} -> {res['s_bwait']}", n)
    if not res["b_after"]:
        o.flag("C16:second-never-entered", "the second process did not get the experiment after the first left", n + 1)
        return o.found
    o.links_ok(res["s_a"], n)
    made_a = set(names(res["s_a"]["jobs"])) & set(tsubs(logs, "A"))
    o.keep |= made_a
    o.kept(res["s_n"], n)
    o.kept(res["s_bwait"], n)
    if refused and not res["b_early"] and res["b_left"]:
        o.keep = made_a                       # A left normally
        o.keep |= set(names(res["s_b"]["jobs"])) & set(tsubs(logs, "B"))
        o.kept(res["s_b"], n + 1)
        o.links_ok(res["s_end"], n + 1)
        o.completed(res["s_end"], tsubs(logs, "B"), n + 1)
    return o.found


def machinery_problem(case, res):
    rs = res["runs"] if case["kind"] in ("hist", "reenter") else res["pre"]
    for r in rs:
        m = run_failed(r)
        if m:
            return m
    if case["kind"] == "excl3":
        if not res["a_in"] or not res["a_left"] or res["timeouts"]:
            return "probe3: first process did not get in / did not leave"
        if not res["b_trying"] or not res["c_trying"]:
            return "probe3: a contender did not start"
    if case["kind"] == "nested":
        if not res["a_in"] or not res["n_done"] or not res["a_left"] or res["timeouts"]:
            return "nested: first process did not get in / did not finish the nested attempt / did not leave"
        if not res["b_trying"]:
            return "nested: second process did not start"
    if case["kind"] == "excl":
        if not res["p1_in"] or res.get("p1_timeout"):
            return "probe: first process did not get in / did not leave"
        if not res["p2_trying"]:
            return "probe: second process did not start"
    return None


# ---------------------------------------------------------------- running
def drive(c, cases, tag):
    """Run the cases on the implementation, 16 drivers in parallel."""
    if not cases:
        return []
    nw = min(16, len(cases))
    chunks = [cases[i::nw] for i in range(nw)]
    base = c.scratch()

    def one(k):
        return run_impl("drive_c16.py", dict(scratch=str(base / f"{tag}{k}"), cases=chunks[k]), timeout=3000)

    with ThreadPoolExecutor(max_workers=nw) as ex:
        outs = list(ex.map(one, range(nw)))
    res = [None] * len(cases)
    for k in range(nw):
        for j, r in enumerate(outs[k]):
            res[k + j * nw] = r
    return res


def detect_exit_order(c):
    """Does __exit__ still have its backup when it calls wait()?  Observed on the implementation: a completed run,
    then a run that dies the moment wait() is called."""
    case = dict(kind="hist", runs=[dict(mk=[0, 1], rm=[], jobs=[0], end="ok", sync=True, sig=False),
                                   dict(mk=[], rm=[], jobs=[1], end="kill_wait", sync=True, sig=False)])
    res = drive(c, [case], "cal")[0]
    m = machinery_problem(case, res)
    r = res["runs"][1]
    if m or "kill wait" not in r["log"]:
        raise InternalError(f"exit-order calibration failed: {m} {json.dumps(res)[:800]}")
    return r["snap"]["bak"] is not None


def shrink(c, case, key):
    """Greedy: drop runs / jobs while the same violation key is still found (bounded)."""
    if case["kind"] != "hist":
        return case
    best, budget = case, 8

    def still(cand):
        r = drive(c, [cand], "shr")[0]
        return machinery_problem(cand, r) is None and any(k == key for k, _, _ in oracle_case(cand, r))

    changed = True
    while changed and budget > 0:
        changed = False
        for i in range(len(best["runs"])):
            if len(best["runs"]) == 1 or budget <= 0:
                break
            cand = copy.deepcopy(best)
            removed = cand["runs"].pop(i)
            if cand["runs"]:
                cand["runs"][0]["mk"] = sorted(set(cand["runs"][0]["mk"]) | set(removed["mk"]))
            budget -= 1
            if still(cand):
                best, changed = cand, True
                break
    return best


def run(c: Check):
    c.rule = ("random histories of 1-6 runs of one experiment on one workspace (0-5 submits each out of 7 jobs; ending "
              "normally (falling off the block, return, break), raising after k submits (Exception subclasses and groups; "
              "non-Exception BaseExceptions: sys.exit(0/1/msg), KeyboardInterrupt, asyncio.CancelledError, a user BaseException, "
              "a BaseExceptionGroup, GeneratorExit of a closed generator), killed after k submits, killed inside __enter__ before/after k moves, "
              "killed inside __exit__ after k removals, when wait() is called or after it returned, wait() raising; each run in "
              "RunMode NORMAL (80%), GENERATE_ONLY or DRY_RUN; some runs also really run a job that fails, is submitted again and "
              "succeeds), on a workspace where nothing / <workspace>/jobs / <workspace>/jobs/<task> / the workspace itself is a "
              "symbolic link, under experiment names with dots, spaces and a path separator; one process running 2-4 blocks on one "
              "experiment object; plus two-process probes, three-process lock hand-over "
              "probes (A inside, B waiting, A leaves through __exit__, B inside, C or A again contends) and nested probes (A inside "
              "enters the same experiment again within its block, then B contends); non-trivial = a history "
              "with a completed run followed by at least one aborted or killed run, or a probe; distinct by canonical case")
    if "props/C16.v" in (ROOT / "coq" / "_CoqProject").read_text():
        c.build()
    else:       # not yet listed in _CoqProject: the .vo files were compiled by hand
        c.gate()
    c.props()
    LATE[0] = detect_exit_order(c)
    c.extra["exit_order"] = "wait() then rmtree(jobs.bak) (model step_late)" if LATE[0] else "rmtree(jobs.bak) then wait() (model step)"
    c.count("exit-order:" + ("wait-then-rmtree" if LATE[0] else "rmtree-then-wait"))
    cases = []
    if c.replay:
        rp = json.load(open(c.replay))["replay"]
        if isinstance(rp, dict) and "case" in rp:
            cases.append(rp["case"])
        nh = ne = n3 = nr = nn = nf = 0
    else:
        gold = ROOT / "golden" / "c16.json"
        if gold.exists():
            cases += json.load(open(gold))
        nh, ne, n3, nr, nn, nf = (300, 24, 12, 12, 8, 3) if c.quick else (4500, 240, 120, 160, 100, 32)
    for _ in range(nh):
        cases.append(gen_hist(c.rng))
    for _ in range(nf):
        cases.append(gen_hist(c.rng, flaky=True))
    for _ in range(nr):
        cases.append(gen_reenter(c.rng))
    for _ in range(nn):
        cases.append(gen_nested(c.rng))
    for _ in range(ne):
        cases.append(gen_excl(c.rng))
    for _ in range(n3):
        cases.append(gen_excl3(c.rng))
    results = drive(c, cases, "d")
    good = []
    for case, res in zip(cases, results):
        m = machinery_problem(case, res)
        if m:
            raise InternalError(f"{m}: case={json.dumps(case)} result={json.dumps(res)[:1500]}")
        c.evaluations += 1
        histlike = case["kind"] in ("hist", "reenter")
        rs = [r_ for _, r_ in as_runs(case)] if histlike else case["pre"]
        rr = res["runs"] if histlike else res["pre"]
        c.count("kind:" + case["kind"])
        c.count("layout:" + case.get("layout", "plain"))
        c.count("name:" + case.get("name", "e"))
        if any(l.startswith("refused") for r in rr for l in r["log"]):
            # the implementation does not accept this experiment (name): nothing to observe
            c.count("experiment-refused:" + case.get("name", "e"))
            continue
        good.append((case, res))
        if case["kind"] == "hist":
            c.count(f"runs={len(rs)}")
        elif case["kind"] == "reenter":
            c.count(f"reenter:blocks={len(case['blocks'])},reuse={case.get('reuse')}")
        elif case["kind"] == "nested":
            c.count("nested:" + ("refused" if "A nested-entered" not in res["logs"]["a"] else "entered"))
        elif case["kind"] == "excl3":
            c.count(f"probe3:leave={case['leave']},third={case['third']}")
            if case["leave"] == "exc":
                c.count("probe-raised:" + case.get("exc", "error"))
        else:
            c.count("probe-leave:" + case["leave"])
            if case["leave"] == "exc":
                c.count("probe-raised:" + case.get("exc", "error"))
        seen_ok, nontrivial = False, case["kind"] != "hist"
        if any(r_.get("flaky") for r_ in rs):
            c.count("history-with-resubmitted-failed-job")
        prev = EMPTY
        for run_, r in zip(rs, rr):
            jp, bp = set(names(prev["jobs"])), set(names(prev["bak"]))
            if jp & bp and "mkbak" in r["log"]:
                c.count("enter-finds-same-link-in-jobs-and-backup")
            if "entered" not in r["log"] and "mkbak" in r["log"] and 0 < len(jp - set(names(r["snap"]["jobs"]))) < len(jp):
                c.count("killed-with-links-partly-moved")
            if "endblock" in r["log"] and "exited" not in r["log"] and r["snap"]["bak"] is not None \
                    and len(names(r["snap"]["bak"])) < len(jp | bp):
                c.count("killed-with-backup-partly-removed")
            prev = r["snap"]
            c.count("end:" + run_["end"])
            c.count("mode:" + run_.get("mode", "normal"))
            if run_.get("mode", "normal") != "normal" and bp and "exited" in r["log"]:
                c.count(f"{run_['mode']}-run-ended-normally-with-a-backup-present")
            if "raise" in r["log"]:
                c.count("raised:" + run_.get("exc", "error"))
                c.count("raised-class:" + ("not-an-Exception" if "exc-class base" in r["log"] else "Exception"))
                if "exc-class base" in r["log"] and (jp | bp) - set(names(r["snap"]["jobs"])):
                    c.count("left-through-non-Exception-with-previous-links-not-relinked")
            if "exited" in r["log"]:
                c.count("ok-via:" + run_.get("via", "fall"))
            c.count(f"submits={len(subs_of(r['log']))}")
            reached = ("exited" if "exited" in r["log"] else "exc" if "raise" in r["log"] else "wait-raise" if "wait-raise" in r["log"] else
                       [l for l in r["log"] if l.startswith("kill")][-1].rstrip(" 0123456789") if any(l.startswith("kill") for l in r["log"]) else "other")
            c.count("reached:" + reached)
            if r["snap"]["bak"] is not None:
                c.count("backup-present-after-run")
            if set(subs_of(r["log"])) - set(names(r["snap"]["jobs"])) and "entered" in r["log"]:
                c.count("submitted-without-link-at-abort")
            if seen_ok and "endblock" in r["log"] and "exited" not in r["log"] and "waited" not in r["log"]:
                c.count("block-ended-but-run-not-completed-after-a-completed-plan")
            if seen_ok and "exited" not in r["log"]:
                nontrivial = True
            if "exited" in r["log"]:
                seen_ok = True
        if nontrivial:
            c.nontrivial.add(json.dumps(case, sort_keys=True))
        for key, what, i in oracle_case(case, res):
            if any(v["key"] == key for v in c.violations):
                continue
            small = case
            if case["kind"] == "hist":
                small = dict(case, runs=case["runs"][:i + 1])
                if not c.replay and len(c.violations) < 2:
                    small = shrink(c, small, key)
            c.violation(key, what, dict(case=small, found_in_run=i, original=case, result=res))
    c.samples = [dict(case=cs, result=rs_) for cs, rs_ in good[:3]]
    header = ("From Coq Require Import ZArith List Bool.\nFrom XV Require Import model.XpIndex corr.XpIndexCorr.\n"
              "Import ListNotations.\nOpen Scope Z_scope.\n")
    bad = c.corr_shards("corr", header, good, g_case, "check_case_late" if LATE[0] else "check_case", shard=120)
    c.extra["disagreeing_cases"] = [dict(case=good[i][0], result=good[i][1]) for i in bad[:4]]
    c.level_assumptions = [
        "fcntl/fasteners inter-process locks are exclusive and die with their process (modelled by Lock/Kill; observed by the two-process probes)",
        "rename, unlink, symlink, mkdir, rmdir are atomic steps; a kill falls between two of them",
        "a run whose block ended without exception counts as a completed plan from the moment __exit__ starts "
        "(rmtree of jobs.bak precedes wait()); links are made by the scheduler thread, so a job submitted microseconds "
        "before an abort may have no link yet - 'begun to schedule' is read as 'link exists'",
        "after an exception the scheduler loop is stopped without waiting: a link made by the loop thread after the "
        "lock was released is outside the model",
        "one experiment name per workspace; a DRY_RUN run is modelled as no event at all, a GENERATE_ONLY run as "
        "lock / prepared job folders / release",
        "the harness never lets jobs run, except the one job of the resubmission scenario; job directories and success "
        "markers are created beforehand",
    ]


if __name__ == "__main__":
    main_wrapper("C16", run)
