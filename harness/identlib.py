"""Implementation-side library for the identifier-core checks (C01-C03, C12, C14, C20):
builds real configuration graphs from an abstract description, reads the heap back
from the real objects (reflection), and runs request histories.

Imported by drivers only (needs experimaestro on PYTHONPATH)."""
import logging
import struct
from enum import Enum
from pathlib import Path

logging.disable(logging.CRITICAL)

from experimaestro import Config, setmeta, tag  # noqa: E402
from experimaestro.core.objects import ConfigInformation  # noqa: E402
from experimaestro.scheduler.workspace import RunMode  # noqa: E402
from experimaestro.xpmutils import DirectoryContext  # noqa: E402
from vpk import schema  # noqa: E402


def exc_name(e):
    return type(e).__name__


class Built:
    """One instance of a described graph."""

    def __init__(self, desc, wd=None):
        self.desc = desc
        self.wd = wd
        self.objs = []          # described nodes, by index
        self.outs = {}          # submitted task index -> output object
        self.errors = []        # (action index, exception name) for rejected build actions
        self.build()

    # -- values
    def val(self, v):
        t = v["t"]
        if t == "none":
            return None
        if t in ("int", "bool", "str"):
            return v["v"]
        if t == "float":
            return float.fromhex(v["hex"])
        if t == "path":
            return Path(v["v"])
        if t == "enum":
            return schema.ENUMS[v["e"]][v["m"]]
        if t == "list":
            return [self.val(x) for x in v["v"]]
        if t == "dict":
            return {k: self.val(x) for k, x in v["v"]}
        if t == "ref":
            return self.objs[v["n"]]
        if t == "tagged":          # tag(value) given to the constructor: the value is used AND recorded as a tag
            from experimaestro import tag
            return tag(self.val(v["v"]))
        if t == "pyint":           # a Python int (given where a float is declared: a documented coercion)
            return int(v["v"])
        if t == "out":
            return self.submit(v["n"], [])
        raise ValueError(t)

    def submit(self, n, init):
        if n not in self.outs:
            # the caller keeps the list it gave as init_tasks (and may go on using it)
            self.initlists = getattr(self, "initlists", {})
            self.initlists[n] = [self.objs[i] for i in init]
            self.outs[n] = self.objs[n].submit(run_mode=RunMode.DRY_RUN, init_tasks=self.initlists[n])
        return self.outs[n]

    def build(self):
        for nd in self.desc["nodes"]:
            cls = schema.CLASSES[nd["cls"]]
            self.objs.append(cls(**{k: self.val(v) for k, v in nd["kw"]}))
        # the caller may hold the list handed out by the pre_tasks property from before any sealing
        self.heldpre = {}
        for i, o in enumerate(self.objs):
            try:
                self.heldpre[i] = o.pre_tasks
            except Exception:  # noqa
                pass
        for ai, a in enumerate(self.desc.get("actions", [])):
            try:
                self.action(a)
            except Exception as e:  # noqa
                self.errors.append([ai, exc_name(e)])

    def action(self, a):
        k = a["a"]
        o = self.objs[a["n"]] if "n" in a else None
        if k == "set":
            setattr(o, a["name"], self.val(a["v"]))
        elif k == "meta":
            setmeta(o, a["flag"])
        elif k == "pre":
            o.add_pretasks(*[self.objs[i] for i in a["ids"]])
        elif k == "submit":
            self.submit(a["n"], a.get("init", []))
        elif k == "tag":
            o.tag(a["k"], a["v"])
        elif k == "dep":
            o.add_dependencies(*[self.objs[i].__xpm__.dependency() for i in a["ids"]])
        elif k == "seal":
            o.__xpm__.seal(DirectoryContext(Path("/nonexistent/ctx")))
        elif k == "copydeps":               # o takes over the task mark (and dependencies) of the output of task a["out"]
            o.copy_dependencies(self.submit(a["out"], []))
        elif k == "ids":                    # the identifiers are requested (and cached when sealed)
            o.__xpm__.full_identifier
        elif k == "unseal":
            o.__xpm__.__unseal__()
        else:
            raise ValueError(k)

    # -- reflection: the heap as the real objects hold it
    def export(self):
        # objects discovered by an earlier export keep their indices (a later export may discover more, e.g. the
        # configurations generated when another node gets sealed)
        objs = list(getattr(self, "allobjs", None) or self.objs)
        index = {id(o): i for i, o in enumerate(objs)}
        classes, cindex = [], {}

        def ref(o):
            if id(o) not in index:
                index[id(o)] = len(objs)
                objs.append(o)
            return index[id(o)]

        def ev(v):
            if v is None:
                return {"t": "none"}
            if isinstance(v, bool):
                return {"t": "bool", "v": v}
            if isinstance(v, int):
                return {"t": "int", "v": v}
            if isinstance(v, float):
                return {"t": "float", "bits": struct.unpack("!Q", struct.pack("!d", v))[0]}
            if isinstance(v, str):
                return {"t": "str", "b": list(v.encode("utf-8"))}
            if isinstance(v, Path):
                sv = str(v)
                if self.wd and sv.startswith(self.wd):      # generated paths: workspace-relative
                    sv = "$WD" + sv[len(self.wd):]
                return {"t": "path", "b": list(sv.encode("utf-8"))}
            if isinstance(v, Enum):
                k = v.__class__
                return {"t": "enum", "b": list(f"{k.__module__}.{k.__qualname__}:{v.name}".encode("utf-8"))}
            if isinstance(v, list):
                return {"t": "list", "v": [ev(x) for x in v]}
            if isinstance(v, dict):
                if not all(isinstance(k, str) for k in v):
                    return {"t": "baddict"}
                return {"t": "dict", "v": [[list(k.encode("utf-8")), ev(x)] for k, x in v.items()]}
            if isinstance(v, Config):
                return {"t": "ref", "n": ref(v)}
            return {"t": "unknown", "py": type(v).__name__}

        def ty_of(t, required):
            from experimaestro.core import types as T
            def go(t):
                if isinstance(t, T.IntType) or isinstance(t, T.BoolType):
                    return "int"        # bool is hashed as the int 0/1
                if isinstance(t, T.FloatType):
                    return "float"
                if isinstance(t, T.StrType):
                    return "str"
                if isinstance(t, T.EnumType):
                    # an IntEnum member is hashed as the int it is, a str-based Enum member as a str
                    if issubclass(t.type, int):
                        return "int"
                    if issubclass(t.type, str):
                        return "str"
                    return "enum"
                if isinstance(t, T.ObjectType):
                    return "obj"
                if isinstance(t, T.ArrayType):
                    return ["list", go(t.type)]
                if isinstance(t, T.DictType):
                    if not isinstance(t.keytype, T.StrType):
                        return "other"
                    return ["dict", go(t.valuetype)]
                return "other"          # Path, Any, Union, generics: outside the typed domain
            r = go(t)
            return r if required else ["opt", r]

        self._ev = ev

        def cls_of(o):
            xt = o.__xpmtype__
            if id(xt) not in cindex:
                cindex[id(xt)] = len(classes)
                classes.append(dict(
                    py=xt.basetype.__qualname__,
                    pymod=xt.basetype.__module__,
                    tid=list(xt.identifier.name.encode("utf-8")),
                    args=[dict(name=list(a.name.encode("utf-8")), ignored=bool(a.ignored),
                               gen=a.generator is not None, const=bool(a.constant), required=bool(a.required),
                               default=None if a.default is None else ev(a.default),
                               ty=ty_of(a.type, a.required))
                          for a in xt.arguments.values()]))
            return cindex[id(xt)]

        nodes = []
        i = 0
        while i < len(objs):
            o = objs[i]
            x = o.__xpm__
            nodes.append(dict(
                cls=cls_of(o),
                fields=[[list(k.encode("utf-8")), ev(v)] for k, v in x.values.items()],
                meta=x._meta,
                task=None if x.task is None else ref(x.task),     # a submitted task is its own task
                selftask=x.task is o,
                pre=[ref(p) for p in x.pre_tasks],
                init=[ref(p) for p in x.init_tasks],
                sealed=bool(x._sealed),
                craw=(None if x._raw_identifier is None else [x._raw_identifier.main.hex(), bool(x._raw_identifier.has_loops)]),
                cfull=(None if x._full_identifier is None else x._full_identifier.main.hex()),
                tags=sorted(x._tags.items()) if isinstance(x._tags, dict) else [],
            ))
            i += 1
        self.allobjs = objs
        return dict(classes=classes, nodes=nodes)

    # -- attempts to modify + identifier requests (C14)
    def run_sops(self, ops):
        """ops: assign/meta/pre/seal/raw/full/jobpath.  Returns (answers, ops with the stored value filled in)."""
        from experimaestro.core.objects import SealedError
        out, eff = [], []
        for op in ops:
            k = op["op"]
            o = self.allobjs[op["n"]]
            op = dict(op)
            try:
                if k == "assign":
                    setattr(o, op["name"], self.val(op["v"]))
                    op["stored"] = self._ev(o.__xpm__.values[op["name"]])
                    out.append("ok")
                elif k == "meta":
                    setmeta(o, op["flag"])
                    out.append("ok")
                elif k == "pre":
                    o.add_pretasks(*[self.allobjs[i] for i in op["ids"]])
                    out.append("ok")
                elif k == "preappend":
                    # the other way to the pre-task list: the list handed out by the pre_tasks property
                    o.pre_tasks.append(*[self.allobjs[i] for i in op["ids"]])
                    out.append("ok")
                elif k == "preheldappend":
                    # the list obtained from o.pre_tasks BEFORE the configuration was sealed, used afterwards
                    lst = self.heldpre.get(op["n"])
                    if not isinstance(lst, list):
                        raise AttributeError("no list held")
                    lst.extend(self.allobjs[i] for i in op["ids"])
                    out.append("ok")
                elif k == "initappend":
                    # the caller appends to the list object it gave as init_tasks at submission: its own list, so
                    # nothing to reject - and nothing of the submitted task may change
                    lst = getattr(self, "initlists", {}).get(op["n"])
                    if lst is None:
                        raise AttributeError("not submitted through the description")
                    lst.extend(self.allobjs[i] for i in op["ids"])
                    out.append("ok")
                elif k == "inplace":
                    # the list / dict held as a parameter value, modified in place through the parameter property
                    cur = getattr(o, op["name"])
                    if isinstance(cur, list):
                        cur.append(cur[0] if cur else None)
                    elif isinstance(cur, dict):
                        cur["__inplace__"] = next(iter(cur.values()), None)
                    else:
                        raise AttributeError("not a container")
                    out.append("ok")
                elif k == "copydeps":
                    # copy_dependencies(other) sets the task mark of o (part of its identity) from other's
                    o.copy_dependencies(self.allobjs[op["other"]])
                    out.append("ok")
                elif k == "prefrom":
                    # add_pretasks_from(donor): the pre-tasks the donor holds at this moment are added
                    idx = {id(x): j for j, x in enumerate(self.allobjs)}
                    donor = self.allobjs[op["donor"]]
                    op["ids"] = [idx[id(p)] for p in donor.__xpm__.pre_tasks if id(p) in idx]
                    o.add_pretasks_from(donor)
                    out.append("ok")
                elif k == "seal":
                    o.__xpm__.seal(DirectoryContext(Path("/nonexistent/ctx")))
                    out.append("ok")
                elif k == "full":
                    out.append(o.__xpm__.full_identifier.all.hex())
                elif k == "raw":
                    out.append(o.__xpm__.raw_identifier.all.hex())
                elif k == "jobpath":
                    out.append("path:" + str(o.__xpm__.job.relpath))
                elif k in ("copyconfig", "clone"):
                    # the documented ways to get a modifiable version of a (possibly frozen) configuration:
                    # copyconfig(o, name=v) and o.copy(); the change goes to the copy, o itself is untouched
                    from experimaestro import copyconfig
                    if k == "copyconfig":
                        c = copyconfig(o, **{op["name"]: self.val(op["v"])})
                    else:
                        c = o.copy()
                        setattr(c, op["name"], self.val(op["v"]))
                    problems = []
                    if c is o:
                        problems.append("same-object")
                    if c.__xpm__._sealed:
                        problems.append("copy-sealed")
                    if c.__xpm__.values.get(op["name"]) != self.val(op["v"]) and op["v"]["t"] not in ("ref", "out"):
                        problems.append("value-not-applied")
                    if k == "clone":
                        for nm, x in c.__xpm__.values.items():
                            if isinstance(x, Config) and x is o.__xpm__.values.get(nm) and x.__xpm__._sealed:
                                problems.append("shared-sealed-child")
                                break
                    out.append("ok" if not problems else "copybad:" + ",".join(problems))
                elif k == "resubmit":
                    # a second submit() of an already submitted task object must be refused and change nothing
                    try:
                        o.submit(run_mode=RunMode.DRY_RUN, init_tasks=[self.allobjs[i] for i in op.get("init", [])])
                        out.append("ok")
                    except Exception as e:  # noqa
                        out.append("rejected:" + exc_name(e))
                else:
                    raise ValueError(k)
            except (AttributeError, SealedError, AssertionError) as e:
                out.append("rejected:" + exc_name(e))
            except Exception as e:  # noqa
                out.append("exc:" + exc_name(e))
            eff.append(op)
        return out, eff

    # -- request histories
    def run_history(self, ops):
        out = []
        for op in ops:
            try:
                k = op["op"]
                o = self.allobjs[op["n"]]
                if k == "full":
                    out.append(o.__xpm__.full_identifier.all.hex())
                elif k == "raw":
                    out.append(o.__xpm__.raw_identifier.all.hex())
                elif k == "seal":
                    o.__xpm__.seal(DirectoryContext(Path("/nonexistent/ctx")))
                    out.append("ok")
                else:
                    raise ValueError(k)
            except Exception as e:  # noqa
                out.append("exc:" + exc_name(e))
        return out
