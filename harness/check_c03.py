"""C03 - configurations with different signatures never share an identifier."""
import json
from concurrent.futures import ThreadPoolExecutor

from vcommon import Check, main_wrapper, run_impl
import identgen
from check_c01 import HEADER


def deep_canon(e, n, stack=(), memo=None):
    """the exported graph unfolded from node n into a tree (a reference back into the stack becomes its relative
    position, as the hash does); caches and seal flags left out, fields in name order.  Two nodes with the same
    unfolding have the same signature, whatever the indices of the nodes they are built from."""
    memo = {} if memo is None else memo
    key = (n, stack)
    if key in memo:
        return memo[key]
    if n >= len(e["nodes"]):
        return ["dangling", n]
    if n in stack:
        return ["cycle", len(stack) - stack.index(n)]
    x = e["nodes"][n]
    st = stack + (n,)

    def cv(v):
        if v["t"] == "ref":
            return deep_canon(e, v["n"], st, memo)
        if v["t"] == "list":
            return ["list", [cv(y) for y in v["v"]]]
        if v["t"] == "dict":
            return ["dict", sorted(([k, cv(y)] for k, y in v["v"]), key=lambda kv: kv[0])]
        return v
    cls = e["classes"][x["cls"]]
    out = [json.dumps(cls, sort_keys=True), x.get("meta"), x.get("selftask"),
           (deep_canon(e, x["task"], st, memo) if x.get("task") is not None and x["task"] != n else None),
           sorted(([k, cv(v)] for k, v in x["fields"]), key=lambda kv: kv[0]),
           sorted(json.dumps(deep_canon(e, q, st, memo), sort_keys=True) for q in x["pre"]),
           [deep_canon(e, q, st, memo) for q in x["init"]], x.get("tags")]
    memo[key] = out
    return out


def run(c: Check):
    c.rule = ("random configuration graphs on the claimed domain (no control characters, dicts nested <= 2), each paired "
              "with the graph obtained by one small structural edit that changes the canonical signature of one node "
              "(scalar / enum member changed, two list elements swapped, element moved between neighbouring inner lists, "
              "dict key renamed, dict values swapped, entry moved between neighbouring inner dicts, value moved to a "
              "sibling parameter, list length, constant, type identifier, pre-task added, init tasks rotated); the two "
              "identifiers of that node must differ and each must equal the model's; plus the two collision families "
              "outside the domain, which must collide in the model exactly as in the implementation; "
              "non-trivial = every pair (the edit is the mechanism); distinct by (graph, edit)")
    c.build()
    c.props()
    npairs = 160 if c.quick else 5000
    g = identgen.Gen(c.rng)
    pairs = []
    if c.replay:
        rp = json.load(open(c.replay))["replay"]
        if "pair" in rp:
            pairs.append(dict(a=rp["pair"][0], b=rp["pair"][1], kind=rp["kind"], node=rp["node"], which=rp["which"]))
        npairs = 0
    tries = 0
    while len(pairs) < npairs + (1 if c.replay else 0) * 0 and tries < npairs * 4:
        tries += 1
        d = g.graph(p_cycle=(0.9 if tries % 10 in (2, 8) else 0.15), p_meta=0.1, p_pre=0.4, p_init=0.8)
        # a quota of the rarer families: the producing task upstream, pre-task <-> init-task moves, init order
        prefer = [None, "pre-to-init", "cycle-target", None, "upstream-task", None, "init-order", "pre-to-init", "cycle-target", None][tries % 10]
        r = identgen.signature_edit(c.rng, d, prefer)
        if r is None:
            continue
        pairs.append(dict(a=r[0].pop("base", d), b=r[0], kind=r[1], node=r[2], which=r[3]))
    coll = [dict(a=a, b=b, kind="collision:" + k, node=0, which="collide", wf_a=wa, wf_b=wb)
            for a, b, k, wa, wb in identgen.collision_pairs()]
    allp = pairs + coll
    cases = []
    for p in allp:
        hist = [dict(op="full", n=p["node"]), dict(op="raw", n=p["node"])]
        for side in ("a", "b"):
            cases.append(dict(desc=p[side], histories=[hist], pair=p, side=side))
    chunks = [cases[i::16] for i in range(16)]

    def drive(chunk):
        if not chunk:
            return []
        return run_impl("drive_ident.py", dict(cases=[dict(desc=x["desc"], histories=x["histories"]) for x in chunk]),
                        timeout=1500)

    with ThreadPoolExecutor(max_workers=16) as ex:
        results = list(ex.map(drive, chunks))
    for ch, res in zip(chunks, results):
        for x, r in zip(ch, res):
            x["res"] = r
            x["pair"]["ans_" + x["side"]] = r["answers"][0]
            x["pair"]["exp_" + x["side"]] = r["export"]
    coq_cases = []
    dom_cases = []
    for x in cases:
        r = x["res"]
        if r["export"] is None or r["answers"][0][0].startswith("build-exc"):
            c.count("build-failed")
            continue
        if identgen.in_model(r["export"]):
            coq_cases.append(dict(export=r["export"], ops=x["histories"][0], answers=r["answers"][0], desc=x["desc"]))
            if not r["answers"][0][0].startswith("exc:"):
                dom_cases.append(dict(export=r["export"], node=x["pair"]["node"], desc=x["desc"],
                                      expect=x["pair"].get("wf_" + x["side"], True)))
    for p in allp:
        fa, ra = (p["ans_a"] + ["?", "?"])[:2]
        fb, rb = (p["ans_b"] + ["?", "?"])[:2]
        if any(z.startswith(("exc:", "build-exc", "?")) for z in (fa, ra, fb, rb)):
            c.count("pair-with-error:" + p["kind"])
            continue
        c.evaluations += 1
        c.count("edit:" + p["kind"])
        if p["which"] == "collide":
            c.count("collides:" + str(fa == fb))
            continue     # agreement with the model is what is checked (correspondence)
        if p["kind"] == "cycle-target" and p["b"].get("edited_node") is not None:
            t = p["b"]["edited_node"]
            if p["exp_a"]["nodes"][t] == p["exp_b"]["nodes"][t]:
                c.count("edit-had-no-effect")
                continue
        elif p["kind"] == "upstream-task":
            # the edit sits in the producing task t: it counts when t really differs in the two built graphs and
            # the compared node reaches t in both (an action of the description may have failed or been overwritten)
            t = p["b"].get("edited_node")

            def reach(e, r):
                seen, todo = set(), [r]
                while todo:
                    m = todo.pop()
                    if m in seen or m >= len(e["nodes"]):
                        continue
                    seen.add(m)
                    # the raw identifier does not follow pre/init tasks, nor Meta/Option (ignored) parameters
                    ign_ = {bytes(a_["name"]).decode() for a_ in e["classes"][e["nodes"][m]["cls"]]["args"] if a_["ignored"]}
                    nd_ = dict(e["nodes"][m], pre=[], init=[],
                               fields=[f_ for f_ in e["nodes"][m]["fields"] if bytes(f_[0]).decode() not in ign_])
                    # a configuration flagged meta is outside the signature of what holds it
                    todo.extend(q for q in identgen._export_succs(nd_)
                                if q < len(e["nodes"]) and e["nodes"][q].get("meta") is not True)
                return seen
            if (t is None or p["exp_a"]["nodes"][t] == p["exp_b"]["nodes"][t]
                    or t not in reach(p["exp_a"], p["node"]) or t not in reach(p["exp_b"], p["node"])):
                c.count("edit-had-no-effect")
                continue
            # the recorded finding (a task marking one of its OWN parameters: identifiers cached at its submission
            # predate the mark) reaches this oracle when the compared node was sealed by that very submission, i.e.
            # when it is reachable from the task (pre-tasks, init tasks, parameters)
            def reach_all(e, r):
                seen, todo = set(), [r]
                while todo:
                    m = todo.pop()
                    if m in seen or m >= len(e["nodes"]):
                        continue
                    seen.add(m)
                    todo.extend(identgen._export_succs(e["nodes"][m]))
                return seen
            if p["a"]["nodes"][t]["cls"] in ("TaskSelf", "TaskSelfG") and p["node"] in reach_all(p["exp_a"], t) \
                    and (identgen.remarked(p["a"]) or identgen.remarked(p["b"])):
                p["kind"] = "upstream-task" + identgen.SELFMARK
        # guard: the two graphs unfold to the same tree (the edit swapped two configurations that are EQUAL in every
        # respect, or only changed the order in which the constructor received its values): same signature
        elif deep_canon(p["exp_a"], p["node"]) == deep_canon(p["exp_b"], p["node"]):
            c.count("edit-had-no-effect")
            continue
        # guard: the edit may have been neutralised by the build (e.g. value coerced); only count real changes
        elif p["kind"] != "cycle-target" and p["exp_a"]["nodes"][p["node"]] == p["exp_b"]["nodes"][p["node"]] and p["which"] == "raw" \
                and p["exp_a"]["classes"][p["exp_a"]["nodes"][p["node"]]["cls"]] == p["exp_b"]["classes"][p["exp_b"]["nodes"][p["node"]]["cls"]]:
            c.count("edit-had-no-effect")
            continue
        if p["which"] == "full":
            na, nb = p["exp_a"]["nodes"][p["node"]], p["exp_b"]["nodes"][p["node"]]
            # (pre-tasks and init tasks of a lightweight task are not part of ITS raw identifier)
            ida = lambda e, l: [json.dumps(dict(e["nodes"][i], pre=[], init=[], craw=None, cfull=None, sealed=None), sort_keys=True) for i in l]
            if (ida(p["exp_a"], na["init"]) == ida(p["exp_b"], nb["init"])
                    and sorted(ida(p["exp_a"], na["pre"])) == sorted(ida(p["exp_b"], nb["pre"]))):
                c.count("edit-had-no-effect")     # e.g. the task had already been submitted, or identical init tasks
                continue
        c.nontrivial.add(json.dumps([p["a"], p["kind"], p["node"]], sort_keys=True))
        if fa == fb or (p["which"] == "raw" and ra == rb):
            c.violation(f"C03:collision:{p['kind']}",
                        f"two configurations that differ by a signature-relevant edit ({p['kind']}) share an identifier",
                        dict(pair=[p["a"], p["b"]], kind=p["kind"], node=p["node"], which=p["which"],
                             full=[fa, fb], raw=[ra, rb]))
    c.samples = [dict(a=p["a"], b=p["b"], kind=p["kind"], node=p["node"]) for p in pairs[:2]]
    bad = c.corr_shards("corr", HEADER, coq_cases,
                        lambda k: identgen.g_icase(k["export"], k["ops"], k["answers"]), "check_case", shard=60)
    SHEADER = ("From Coq Require Import ZArith NArith List Bool.\n"
               "From XV Require Import core.Value model.Hash model.Ser model.Deep corr.SerCorr.\nImport ListNotations.\n")
    bad2 = c.corr_shards("domain", SHEADER, dom_cases,
                         lambda k: identgen.g_scase(k["export"], k["node"], k["expect"]), "check_scase", shard=60)
    # the deep signature (nested configurations unfolded) of the same configurations: hypotheses of C03_deep_injective
    bad3 = c.corr_shards("deep", SHEADER, dom_cases,
                         lambda k: identgen.g_scase(k["export"], k["node"], k["expect"]), "check_deep", shard=60)
    c.extra["deep_disagreeing"] = [dict(desc=dom_cases[i]["desc"], node=dom_cases[i]["node"],
                                        expect_wf=dom_cases[i]["expect"]) for i in bad3[:5]]
    c.extra["domain_cases"] = len(dom_cases)
    c.extra["domain_disagreeing"] = [dict(desc=dom_cases[i]["desc"], node=dom_cases[i]["node"],
                                          expect_wf=dom_cases[i]["expect"]) for i in bad2[:5]]
    c.extra["disagreeing_cases"] = [dict(desc=coq_cases[i]["desc"], ops=coq_cases[i]["ops"],
                                         answers=coq_cases[i]["answers"]) for i in bad[:5]]
    # directed probe: the init tasks of the task that produced an embedded output
    pr = run_impl("drive_c03probe.py", {}, timeout=300)
    c.count("probe:producer-init-tasks")
    if pr["producer_jobs_differ"] and pr["embedders"][0] == pr["embedders"][1]:
        c.violation("C03:collision:init-tasks-of-producing-task",
                    "two submissions of a task that differ by their init tasks are two jobs, but what embeds their outputs gets "
                    "one identifier (the task mark is hashed through the raw identifier of the task)",
                    dict(pair=[], kind="init-tasks-of-producing-task", probe="harness/drive_c03probe.py", got=pr))
    # directed probe outside the modelled domain: configuration-valued defaults (compared through TypeConfig.__eq__,
    # which does not look at the task mark)
    pr2 = run_impl("drive_cfgdefault.py", {}, timeout=300)
    c.count("probe:config-valued-default")
    if len({pr2["c02_default"], pr2["c03_output_of_e1"], pr2["c03_output_of_e2"]}) < 3:
        c.violation("C03:collision:config-valued-default-ignores-task-mark",
                    "Holder.sub: Param[A] = A(x=1); Holder(), Holder(sub=<output A(x=1) of Prod(e=1)>) and "
                    "Holder(sub=<output A(x=1) of Prod(e=2)>) share an identifier: the output equals the default for "
                    "TypeConfig.__eq__ (which ignores the task mark) and is elided with the task that produced it",
                    dict(pair=[], kind="config-valued-default", probe="harness/drive_cfgdefault.py", got=pr2))
    # directed probe outside the model (type identifiers are data of the model): the documented derivation of the type
    # identifier, and two nested classes of the same simple name
    from vcommon import EXPECTED_TID
    pr3 = run_impl("drive_typeprobe.py", {}, timeout=300)
    c.count("probe:type-identifiers")
    wrong = {k: [pr3["tid"].get(k), v] for k, v in EXPECTED_TID.items() if pr3["tid"].get(k) != v}
    if wrong:
        c.violation("C03:type-identifier-derivation", "a class does not get the type identifier the documented rules give it "
                    "(got, expected): " + json.dumps(wrong)[:300], dict(pair=[], kind="type-identifier-derivation",
                                                                        probe="harness/drive_typeprobe.py", got=pr3))
    ud = pr3.get("union_dict_ids")
    if isinstance(ud, list) and ud[0] == ud[1]:
        c.violation("C03:collision:dict-entry-moved-between-levels:union-valued-dict",
                    "d: Param[Dict[str, Union[int, Dict[str, int]]]]: {'a': {'b': 1}, 'c': 2} and {'a': {'b': 1, 'c': 2}} share an "
                    "identifier (dictionaries have no length or end marker; with values that may be ints or dictionaries an "
                    "entry moves between the two levels)", dict(pair=[], kind="union-valued-dict", probe="harness/drive_typeprobe.py", got=pr3))
    if pr3["nested_same_name_ids"][0] == pr3["nested_same_name_ids"][1]:
        c.violation("C03:collision:nested-classes-same-simple-name", "Enc.Opt(x=1) and Dec.Opt(x=1) (two classes) share an identifier",
                    dict(pair=[], kind="nested-classes", probe="harness/drive_typeprobe.py", got=pr3))
    c.level_assumptions = [
        "SHA-256 is a parameter H of every theorem; conclusions are 'the hashed streams differ' (so identifiers differ unless H collides)",
        "the claimed domain: strings, enum and type names without bytes < 0x20; dict types nested at most two levels; ints in the !q range",
    ]


if __name__ == "__main__":
    main_wrapper("C03", run)
