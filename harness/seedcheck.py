"""Confirms one independently seeded defect and records it under /verif/seeded/<name>/.

usage: seedcheck.py <property> <k> <srcdir> [--no-suite] [--checks C01,C14] [--tier quick]

 1. scratch worktree of /repo HEAD under /tmp/sc-<name>
 2. demonstration on the clean tree (must exit 0), then with the change (must exit non-zero)
 3. the repository's own test suite with the change: every test of BASELINE.stable_pass must pass
 4. our checks against the changed tree (VERIF_REPO=<worktree>): verdict per check
 5. worktree removed; patch.diff, demo.py, notes.md, meta.json written
"""
import json
import os
import shutil
import subprocess
import sys
import time
import xml.etree.ElementTree as ET
from pathlib import Path

ROOT = Path(__file__).resolve().parent.parent
PY = "/venv/bin/python"


def sh(cmd, **kw):
    return subprocess.run(cmd, capture_output=True, text=True, **kw)


def main():
    prop, k, src = sys.argv[1], sys.argv[2], Path(sys.argv[3])
    args = sys.argv[4:]
    no_suite = "--no-suite" in args
    checks = [prop]
    tier = "quick"
    base = "HEAD"
    for i, a in enumerate(args):
        if a == "--checks":
            checks = args[i + 1].split(",")
        if a == "--tier":
            tier = args[i + 1]
        if a == "--base":          # the commit of /repo the change was written against (when it no longer applies to HEAD)
            base = args[i + 1]
    name = f"{prop}-{k}"
    wt = Path(f"/tmp/sc-{name}")
    out = ROOT / "seeded" / name
    out.mkdir(parents=True, exist_ok=True)
    shutil.copy(src / f"change{k}.diff", out / "patch.diff")
    shutil.copy(src / f"demo{k}.py", out / "demo.py")
    if (src / f"notes{k}.md").exists():
        shutil.copy(src / f"notes{k}.md", out / "notes.md")
    meta = dict(property=prop, name=name, repo_head=sh(["git", "-C", "/repo", "rev-parse", "HEAD"]).stdout.strip(),
                ran=[], at=time.strftime("%Y-%m-%dT%H:%M:%SZ", time.gmtime()))
    # earlier runs of this record are kept (what the checks said before they were strengthened)
    prev = {}
    if (out / "meta.json").exists():
        try:
            prev = json.load(open(out / "meta.json"))
        except Exception:  # noqa
            prev = {}
    for k_ in ("history", "suite_stable_missing", "suite_missing_rerun_ok", "suite_wall_s", "suite_note",
               "suite_still_missing_after_rerun", "suite_missing_rerun_tail"):
        if k_ in prev:
            meta[k_] = prev[k_]
    meta["previous_runs"] = list(prev.get("previous_runs", []))
    if "verdicts" in prev:
        meta["previous_runs"].append(dict(at=prev.get("at"), repo_head=prev.get("repo_head"), caught_by=prev.get("caught_by"),
                                          verdicts={c_: dict(exit=v_["exit"], lines=v_["lines"][-3:]) for c_, v_ in prev["verdicts"].items()}))
    sh(["git", "-C", "/repo", "worktree", "remove", "--force", str(wt)])
    r = sh(["git", "-C", "/repo", "worktree", "add", "--detach", str(wt), base])
    if base != "HEAD":
        meta["base"] = base
        meta["base_note"] = ("the change no longer applies to /repo HEAD (a later fix: commit rewrote the same lines); it is applied to "
                             "the commit it was written against, so the checks also report the defects repaired since then")
    assert r.returncode == 0, r.stderr
    try:
        env = dict(os.environ, PYTHONPATH=f"{wt}/src", PYTHONDONTWRITEBYTECODE="1")
        env.pop("XPM_WORKDIR", None)
        d0 = sh([PY, "-W", "ignore", str(out / "demo.py")], env=env, timeout=900, cwd="/tmp")
        meta["demo_clean_exit"] = d0.returncode
        meta["ran"].append("demo.py on the clean worktree")
        ap = sh(["git", "-C", str(wt), "apply", str(out / "patch.diff")])
        meta["patch_applies"] = ap.returncode == 0
        if ap.returncode != 0:
            meta["patch_error"] = ap.stderr[-500:]
        d1 = sh([PY, "-W", "ignore", str(out / "demo.py")], env=env, timeout=900, cwd="/tmp")
        meta["demo_changed_exit"] = d1.returncode
        meta["demo_changed_tail"] = (d1.stdout + d1.stderr)[-600:]
        meta["ran"].append("demo.py with patch.diff applied")
        imp = sh([PY, "-W", "ignore", "-c", "import experimaestro, experimaestro.cli, experimaestro.tools.jobs"], env=env)
        meta["imports_fine"] = imp.returncode == 0
        if not no_suite:
            base = json.load(open("/root/.vp/BASELINE.json"))
            xml = wt / "junit.xml"
            t0 = time.time()
            sh([PY, "-m", "pytest", "-ra", "-q", "-p", "no:cacheprovider", "--timeout=900",
                "--continue-on-collection-errors", f"--junitxml={xml}"], cwd=str(wt), timeout=3000)
            passed = set()
            if xml.exists():
                for tc in ET.parse(xml).getroot().iter("testcase"):
                    ok = not any(ch.tag in ("failure", "error", "skipped") for ch in tc)
                    if ok:
                        passed.add(f"{tc.get('classname')}::{tc.get('name')}")
            missing = sorted(set(base["stable_pass"]) - passed)
            meta["suite_stable_missing"] = missing
            meta["suite_wall_s"] = round(time.time() - t0)
            meta["ran"].append("repository test suite (BASELINE cmd) with the change; stable_pass tests compared")
            if missing:
                # re-run the missing ones alone (load on the machine makes timing tests flaky)
                ids = [m.replace("src.experimaestro.tests.", "src/experimaestro/tests/").replace(".", "/", 0) for m in missing]
                sel = []
                for m in missing:
                    mod, test = m.split("::")
                    sel.append(mod.replace(".", "/") + ".py::" + test)
                r2 = sh([PY, "-m", "pytest", "-q", "-p", "no:cacheprovider", "--timeout=900"] + sel, cwd=str(wt), timeout=3000)
                meta["suite_missing_rerun_tail"] = r2.stdout[-400:]
                meta["suite_missing_rerun_ok"] = r2.returncode == 0
        verdicts = {}
        for c in checks:
            e2 = dict(os.environ, VERIF_REPO=str(wt))
            t0 = time.time()
            rr = sh([str(ROOT / "check"), c, "--tier", tier], env=e2, cwd=str(ROOT), timeout=7200)
            lines = [l for l in rr.stdout.splitlines() if l.startswith(("VIOLATION", "KNOWN-FINDING", "["))]
            verdicts[c] = dict(exit=rr.returncode, lines=lines[-8:], wall_s=round(time.time() - t0))
            # keep the replay files named by VIOLATION lines
            for l in lines:
                if l.startswith("VIOLATION") and "replay=" in l:
                    rp = l.split("replay=")[1].split()[0]
                    if os.path.exists(rp):
                        shutil.copy(rp, out / ("replay_" + c + "_" + os.path.basename(rp)))
            meta["ran"].append(f"VERIF_REPO=<worktree with the change> ./check {c} --tier {tier}")
        meta["verdicts"] = verdicts
        meta["caught_by"] = sorted(c for c, v in verdicts.items() if v["exit"] == 1)
    finally:
        sh(["git", "-C", "/repo", "worktree", "remove", "--force", str(wt)])
    (out / "meta.json").write_text(json.dumps(meta, indent=1))
    print(json.dumps({k2: meta[k2] for k2 in ("name", "demo_clean_exit", "demo_changed_exit", "imports_fine", "caught_by") if k2 in meta}))
    if "suite_stable_missing" in meta:
        print("suite missing:", meta["suite_stable_missing"], meta.get("suite_missing_rerun_ok"))
    for c, v in meta["verdicts"].items():
        print(c, v["exit"], v["lines"][-3:])


if __name__ == "__main__":
    main()
