"""Directed probes (implementation only): type identifiers of special classes, argument tables under multiple
inheritance, a configuration-valued default holding an explicit None.  One JSON document on the last line."""
import json
import sys


def main():
    json.load(sys.stdin)
    from vpk import typeprobe as m
    from vpk import schema
    fid = lambda c: c.__xpm__.full_identifier.all.hex()
    out = {}
    out["tid"] = {name: str(cls.__getxpmtype__().identifier) for name, cls in
                  [("NamedBase", m.NamedBase), ("NamedChild", m.NamedChild), ("Fixed", m.Fixed), ("FixedChild", m.FixedChild),
                   ("Enc.Opt", m.Enc.Opt), ("Dec.Opt", m.Dec.Opt), ("Leaf", schema.Leaf), ("EH", schema.EH), ("V1", schema.V1),
                   ("V2", schema.V2)]}
    out["nested_same_name_ids"] = [fid(m.Enc.Opt(x=1)), fid(m.Dec.Opt(x=1))]
    out["diamond_x_ignored"] = bool(m.Diamond.__getxpmtype__().arguments["x"].ignored)
    out["diamond_ids"] = [fid(m.Diamond(x=1)), fid(m.Diamond(x=5)), fid(m.Diamond(z=7))]
    out["none_default"] = [fid(m.HolderB()), fid(m.HolderB(sub=m.OptB(o=None))), fid(m.HolderB(sub=m.OptB()))]
    out["none_default_value"] = m.HolderB().sub.o
    from experimaestro import setmeta as _setmeta
    out["meta_in_default"] = [fid(m.MHolder()), fid(m.MHolder(l=[_setmeta(m.MLeaf(x=1), True)])), fid(m.MHolder(l=[])),
                              fid(m.MHolder().copy())]
    try:
        out["union_dict_ids"] = [fid(m.UD(d={"a": {"b": 1}, "c": 2})), fid(m.UD(d={"a": {"b": 1, "c": 2}}))]
    except Exception as e:  # noqa
        out["union_dict_ids"] = "exc:" + type(e).__name__
    sys.stderr = open("/dev/null", "w")
    print(json.dumps(out))


if __name__ == "__main__":
    main()
