"""Deterministic control of the real experimaestro scheduler (C04, C06, C07).

No change to /repo is needed:

* every ``experimaestro.*`` module global that *is* ``utils.asyncio.asyncThreadcheck`` is rebound
  to ``Controller.park``: the helper-thread operation is not started, it is parked as a pending
  completion ``(job, name)`` (names: ``lock (aenter)``, ``lock (aexit)``, ``aio_code``,
  ``End of job processing``) and run on the loop thread when the controller says so;
* real ``Task`` classes of ``vpk_sched`` get a ``FakeJob`` factory as ``__xpmtype__.task``: the
  job is a real ``Job`` (real registration, ``aio_submit``, ``aio_start``, ``dependencychanged``,
  ``Dependency.check``, token ``acquire``/``release``); only ``aio_process`` (no adopted process)
  and ``aio_run`` (a process whose exit code is planned, state RUNNING as CommandLineJob does)
  are stand-ins;
* quiescence = a sentinel callback re-posted until ``loop._ready`` is empty;
* ``experiment.wait()`` / ``__exit__`` run on a helper thread, so that a hang is observed as
  "blocked at quiescence with nothing pending", never as a hang of the check.

One process runs one workload (``run_workload``).  Everything waits with a timeout.
"""
import asyncio
import os
import queue
import random
import sys
import threading
import time
import traceback
from pathlib import Path

TIMEOUT = 20.0
OPNAMES = {"lock (aenter)": "lockin", "lock (aexit)": "lockout", "aio_code": "proc",
           "End of job processing": "doneh", "aio_code (adopted)": "adopt"}


class Stuck(Exception):
    pass


class _AsyncioProxy:
    """Stands for the ``asyncio`` module inside scheduler/base.py: records the concurrent futures
    made by run_coroutine_threadsafe (so that the status of experiment.wait() can be read)."""

    def __init__(self, ctl):
        self._ctl = ctl

    def __getattr__(self, name):
        return getattr(asyncio, name)

    def run_coroutine_threadsafe(self, coro, loop):
        fut = asyncio.run_coroutine_threadsafe(coro, loop)
        name = getattr(coro, "__qualname__", "")
        if "awaitcompletion" in name:
            self._ctl.wait_future = fut
            self._ctl.wait_future_ev.set()
        return fut


class Controller:
    def __init__(self):
        self.pending = []          # dicts: job(index), op, func, args, kwargs, future
        self.task2job = {}
        self.jobs = []             # index -> Job object (or None before submission)
        self.jobidx = {}           # id(Job) -> index
        self.launches = {}         # index -> count
        self.events = []           # launch events with the upstream states seen at that time
        self.plan = None           # plan of the job being created by the factory
        self.wait_future = None
        self.wait_future_ev = threading.Event()
        self.loop = None
        self.q = queue.Queue()
        self.nsteps = 0
        self.lost = []             # (job, op): helper function raised and the tree drops the exception
        self.foreign = []          # jobs whose dependencychanged ran outside the scheduler loop thread
        self.loop_tid = None
        self.helper_exc_delivered = True
        self.prebuilt = {}         # index -> (cfg, init) built before its turn (given unsubmitted to an earlier job)
        self.copied = set()        # ids of the configurations on which copy_dependencies was called

    # ---------------------------------------------------------------- installation
    def install(self):
        import experimaestro.utils.asyncio as ua
        import experimaestro.scheduler.base as base
        orig = ua.asyncThreadcheck
        self.helper_exc_delivered = probe_helper_exception(orig)
        n = 0
        for name, mod in list(sys.modules.items()):
            if name.startswith("experimaestro") and mod is not None:
                for k, v in list(vars(mod).items()):
                    if v is orig:
                        setattr(mod, k, self.park)
                        n += 1
        if n < 2:
            raise RuntimeError("asyncThreadcheck: expected rebinding sites not found")
        base.asyncio = _AsyncioProxy(self)
        orig_submit = base.Scheduler.aio_submit
        ctl = self

        async def aio_submit(sched, job):
            ctl.task2job[asyncio.current_task()] = job
            return await orig_submit(sched, job)

        base.Scheduler.aio_submit = aio_submit

    def park(self, name, func, *args, **kwargs):
        loop = asyncio.get_running_loop()
        fut = loop.create_future()
        job = self.task2job.get(asyncio.current_task())
        self.pending.append(dict(job=self.jobidx.get(id(job), -1), op=OPNAMES.get(name, name), func=func,
                                 args=args, kwargs=kwargs, future=fut))
        return fut

    # ---------------------------------------------------------------- loop control
    def quiesce(self, also=None):
        """Wait until the loop has nothing ready (or until `also` (a thread) ended)."""
        loop = self.loop
        token = object()

        def sentinel():
            if len(loop._ready) == 0:
                self.q.put(("quiet", token))
            else:
                loop.call_soon(sentinel)

        loop.call_soon_threadsafe(sentinel)
        t0 = time.time()
        while True:
            try:
                kind, what = self.q.get(timeout=0.05 if also is not None else TIMEOUT)
            except queue.Empty:
                if also is not None:
                    if not also.is_alive():
                        return "ended"
                    if time.time() - t0 > TIMEOUT:
                        raise Stuck("no quiescence")
                    continue
                raise Stuck("no quiescence")
            if kind == "quiet" and what is token:
                return "quiet"

    def deliver(self, ops):
        """Run the parked operations `ops` (list of (job, op)) now, on the loop thread, in order."""
        chosen = []
        for (j, op) in ops:
            k = next((i for i, p in enumerate(self.pending) if p["job"] == j and p["op"] == op), None)
            if k is None:
                raise KeyError(f"not pending: {(j, op)}")
            chosen.append(self.pending.pop(k))

        def run():
            for p in chosen:
                try:
                    p["future"].set_result(p["func"](*p["args"], **p["kwargs"]))
                except BaseException as e:  # noqa
                    # what the tree's asyncThreadcheck does with an exception of the helper function (probed at
                    # installation): delivered to the awaiting coroutine, or the future is left pending for ever
                    if self.helper_exc_delivered:
                        p["future"].set_exception(e)
                    else:
                        self.lost.append((p["job"], p["op"]))

        self.loop.call_soon_threadsafe(run)


def probe_helper_exception(orig):
    """does asyncThreadcheck of the tree under test deliver an exception of the helper function to the awaiting
    coroutine (True) or leave the future pending (False)"""
    def boom():
        raise RuntimeError("probe")

    async def body():
        try:
            await asyncio.wait_for(orig("probe", boom), 1.0)
        except asyncio.TimeoutError:
            return False
        except RuntimeError:
            return True
        return True

    hook = threading.excepthook
    threading.excepthook = lambda *a: None
    try:
        return asyncio.run(body())
    finally:
        threading.excepthook = hook


CTL = Controller()


def make_factory(ctl):
    from experimaestro.scheduler.base import Job, JobState

    class FakeProcess:
        def __init__(self, job):
            self.job = job

        async def aio_code(self):
            return await ctl.park("aio_code", lambda: self.job.v_code)

    class AdoptedProcess:
        """A process started by an earlier scheduler, still running when the job is submitted again:
        aio_code() gives the planned code (None: cannot be retrieved); the .done marker is there or not
        once it has ended"""

        def __init__(self, job):
            self.job = job

        async def aio_code(self):
            def ended():
                if self.job.v_adopt["done"]:
                    self.job.donepath.parent.mkdir(parents=True, exist_ok=True)
                    self.job.donepath.touch()
                return self.job.v_adopt["code"]
            return await ctl.park("aio_code (adopted)", ended)

    class FakeJob(Job):
        def __init__(self, config, *, launcher=None, workspace=None, run_mode=None):
            super().__init__(config, workspace=workspace, launcher=launcher, run_mode=run_mode)
            plan = ctl.plan
            self.v_index = plan["index"]
            self.v_code = plan["code"]
            self.v_adopt = plan.get("adopt")
            self.v_raise = plan.get("raises")
            if plan.get("marker"):
                self.donepath.parent.mkdir(parents=True, exist_ok=True)
                self.donepath.touch()
            ctl.jobs[self.v_index] = self
            ctl.jobidx[id(self)] = self.v_index

        async def aio_process(self):
            return AdoptedProcess(self) if self.v_adopt else None

        def done_handler(self):
            if self.v_raise == "doneh":
                raise RuntimeError("watched output callback failed")
            return super().done_handler()

        def dependencychanged(self, dependency, oldstatus, status):
            if ctl.loop_tid is not None and threading.get_ident() != ctl.loop_tid:
                ctl.foreign.append(self.v_index)
            return super().dependencychanged(dependency, oldstatus, status)

        async def aio_run(self):
            from experimaestro.scheduler.base import JobDependency
            ctl.launches[self.v_index] = ctl.launches.get(self.v_index, 0) + 1
            ups = sorted((ctl.jobidx.get(id(d.origin), -1), d.origin.state.name) for d in self.dependencies
                         if isinstance(d, JobDependency))
            ctl.events.append(dict(launch=self.v_index, upstream=ups, step=ctl.nsteps,
                                   states=[None if x is None else x.state.name for x in ctl.jobs]))
            self.state = JobState.RUNNING      # as CommandLineJob.aio_run does
            return FakeProcess(self)

    def factory(pyobject, *, launcher=None, workspace=None, run_mode=None):
        return FakeJob(pyobject, launcher=launcher, workspace=workspace, run_mode=run_mode)

    return factory


# ---------------------------------------------------------------------------- one workload
def build_config(ctl, w, j, values, objs):
    """Build the configuration of job j from its embedding list (see gen in check_c06.py)."""
    import vpk_sched as V
    spec = w["jobs"][j]
    cls = getattr(V, spec["cls"])
    kw = dict(name=spec["name"])
    items, table, pre, init, explicit, frm = [], {}, [], [], [], []
    copyfrom = None
    held = [(k, (objs[k] if how.endswith("_obj") else values[k])) for (k, how) in spec["embed"] if how.split("_obj")[0] == "held"]
    for n, (k, how) in enumerate(spec["embed"]):
        use_obj = how.endswith("_obj")
        how = how[:-4] if use_obj else how
        if how == "late":
            # a task that is NOT submitted yet (it will be, at its turn), given through Param[Optional[Config]]
            if ctl.prebuilt.get(k) is None:
                ctl.prebuilt[k] = build_config(ctl, w, k, values, objs)
            kw["child"] = ctl.prebuilt[k][0]
            continue
        v = objs[k] if use_obj else values[k]
        if how == "held":
            continue                    # (placed by a `copydep_in` / `out_holder` entry)
        if how == "copydep":
            copyfrom = v                # cfg.copy_dependencies(v) on the task that is submitted
        elif how == "copydep_in":
            # a nested configuration that holds the next `held` value and takes the dependencies of v
            h = V.Node(x=n, child=held.pop(0)[1] if held else None)
            h.copy_dependencies(v)
            ctl.copied.add(id(h))
            items.append(h)
        elif how == "out_holder":
            # the (unsealed) output of task k completed by the caller with the next `held` value
            if held:
                v.extra = held.pop(0)[1]
            items.append(v)
        elif how == "direct":
            kw["child"] = v
        elif how == "falsy":
            kw["bag"] = V.Bag(names=[], child=v)      # a configuration whose truth value is False
        elif how == "list":
            items.append(v)
        elif how == "dict":
            table[f"k{n}"] = v
        elif how == "nested":
            items.append(V.Node(x=n, child=v))
        elif how == "nested_list":
            table[f"n{n}"] = V.Node(x=n, items=[V.Node(x=n + 100, table={"z": v})])
        elif how == "pre":
            pre.append(V.Pre(x=n, child=v))
        elif how == "pre_task":
            pre.append(v)               # a submitted task used as a pre-task
        elif how == "init":
            init.append(V.Pre(x=1000 + n, child=v))
        elif how == "pre_from":
            frm.append(v)               # the pre-tasks of the value are taken over (add_pretasks_from)
        elif how == "explicit":
            explicit.append(v.__xpm__.task)      # the task behind the value returned by submit()
        else:
            raise ValueError(how)
    if items:
        kw["items"] = items
    if table:
        kw["table"] = table
    cfg = cls(**kw)
    if pre:
        cfg.add_pretasks(*pre)
    if frm:
        cfg.add_pretasks_from(*frm)
    if copyfrom is not None:
        cfg.copy_dependencies(copyfrom)
        ctl.copied.add(id(cfg))
    for up in explicit:
        cfg.add_dependencies(up.__xpm__.dependency())
    return cfg, init


def dump_heap(ctl, root, init_tasks):
    """The object graph updatedependencies() is about to walk, read off the real objects: nodes =
    configuration objects; fields in xpmvalues() order (None skipped); pre/init tasks; the task mark;
    which Job object `.job` is (as workload index); loaded flag."""
    from pathlib import Path
    from enum import Enum
    from experimaestro import Config
    ids, nodes, order = {}, [], []

    def nid(o):
        if id(o) not in ids:
            ids[id(o)] = len(order)
            order.append(o)
            nodes.append(None)
        return ids[id(o)]

    def val(v):
        if isinstance(v, Config):
            return ["ref", nid(v)]
        if isinstance(v, (list, set)):
            return ["list", [val(x) for x in v]]
        if isinstance(v, dict):
            return ["dict", [[val(k), val(x)] for k, x in v.items()]]
        if isinstance(v, (str, int, float, Path, Enum)):
            return ["atom"]
        return ["other", type(v).__name__]

    nid(root)
    i = 0
    while i < len(order):
        o = order[i]
        xi = o.__xpm__
        fields = [val(v) for (a, v) in xi.xpmvalues() if v is not None]
        pre = [nid(x) for x in xi.pre_tasks]
        init = [nid(x) for x in (init_tasks if o is root else xi.init_tasks)]
        task = None if xi.task is None else nid(xi.task)
        jobof = None if xi.job is None else ctl.jobidx.get(id(xi.job), -1)
        nodes[i] = dict(fields=fields, pre=pre, init=init, task=task, jobof=jobof, loaded=bool(xi.loaded), falsy=not bool(o),
                        copied=(id(o) in ctl.copied and xi.task is not None and xi.task is not o))
        i += 1
    return nodes


def snapshot(ctl, xp, w, tokens, wait_status):
    jobs = []
    for j, job in enumerate(ctl.jobs):
        if job is None:
            jobs.append(None)
            continue
        fut = getattr(job, "_future", None)
        res = None
        if fut is not None and fut.done():
            try:
                res = fut.result().name
            except BaseException as e:  # noqa
                res = "EXC:" + type(e).__name__
        jobs.append(dict(state=job.state.name, launches=ctl.launches.get(j, 0), result=res,
                         registered=fut is not None,
                         failure=None if job.failure_status is None else job.failure_status.name))
    return dict(jobs=jobs, unfinished=xp.unfinishedJobs, failed=len(xp.failedJobs),
                avail=[t.available for t in tokens], wait=wait_status,
                pending=sorted([p["job"], p["op"]] for p in ctl.pending))


def run_workload(w):
    """Runs one workload on the real scheduler; returns the recorded trace."""
    import logging
    import tempfile
    import shutil
    logging.disable(logging.CRITICAL)
    os.environ.pop("XPM_WORKDIR", None)
    from experimaestro import experiment
    from experimaestro.scheduler.base import JobDependency, FailedExperiment
    from experimaestro.tokens import ProcessCounterToken, CounterToken, CounterTokenDependency
    from experimaestro.ipc import ipcom
    from pathlib import Path as _P
    import vpk_sched as V

    ctl = CTL
    ctl.install()
    factory = make_factory(ctl)
    for cls in V.TASK_CLASSES:
        xt = cls.__getxpmtype__()
        xt.__initialize__()              # (lazy initialisation would overwrite .task)
        xt.task = factory
    rng = random.Random(w.get("seed", 0))
    sched_in = w.get("schedule")
    pbatch = w.get("pbatch", 0.15)
    njobs = len(w["jobs"])
    ctl.jobs = [None] * njobs
    wd = tempfile.mkdtemp(prefix="xpmverif-sched-", dir=w.get("scratch"))
    trace = dict(steps=[], deps=[None] * njobs, dup=[None] * njobs, heaps=[None] * njobs, refused={}, skipped={}, falsy={}, error=None,
                 ended="schedule")
    filetokens = []
    try:
        xp = experiment(wd, "x", port=-1)
        xp.__enter__()
        ctl.loop = xp.central.loop
        ctl.lost, ctl.foreign, ctl.loop_tid = [], [], None
        ctl.prebuilt, ctl.copied = {}, set()
        ctl.loop.call_soon_threadsafe(lambda: setattr(ctl, "loop_tid", threading.get_ident()))

        class RaisingListener:
            """a listener that fails for the jobs planned so (`raises: listener`)"""
            def job_submitted(self, job):
                pass

            def job_state(self, job):
                if getattr(job, "v_raise", None) == "listener":
                    raise RuntimeError("listener failed")

            def service_add(self, service):
                pass

        if any(s.get("raises") == "listener" for s in w["jobs"]):
            xp.scheduler.addlistener(RaisingListener())
        # "file": the file-based CounterToken (one directory per token) used within this one scheduler;
        # its acquire/release are separate code from ProcessCounterToken, the scheduler sees the same thing
        kinds = w.get("tokkind") or ["proc"] * len(w["tokens"])
        tokens = [CounterToken(f"v{i}", _P(wd) / "_tokens" / f"t{i}", n) if kinds[i] == "file" else ProcessCounterToken(n)
                  for i, n in enumerate(w["tokens"])]
        filetokens[:] = [t for t in tokens if isinstance(t, CounterToken)]
        # the directory watcher is taken off at once: this run is the only user of the token, and a late event
        # about the scheduler's own files (a delete event that arrives after the same job has taken the token
        # again) changes the count at a moment no schedule records - file events are C08/C09's ground
        for t in filetokens:
            ipcom().fsunwatch(t.watcher)
        tokidx = {id(t): i for i, t in enumerate(tokens)}
        values, objs = [None] * njobs, [None] * njobs
        depobjs = {}
        wait = dict(status="none", thread=None, final=False)
        nxt = 0

        def wait_status():
            if wait["status"] in ("none", "returned", "raised", "other"):
                return wait["status"]
            f = ctl.wait_future
            if f is None or not f.done():
                return "blocked"
            e = f.exception()
            wait["status"] = "returned" if e is None else ("raised" if isinstance(e, FailedExperiment) else "other")
            if e is not None and not isinstance(e, FailedExperiment):
                trace["error"] = "wait() raised " + repr(e)
            return wait["status"]

        def do_submit(j):
            spec = w["jobs"][j]
            ups = [k for (k, _how) in spec.get("embed", [])] + ([spec["copy_of"]] if spec.get("copy_of") is not None else [])
            gone = [k for k in ups if k in trace["refused"] or k in trace["skipped"]]
            if gone:
                # nothing can be built on a submission that was refused: this job is left out
                trace["skipped"][j] = gone[0]
                ctl.jobs[j] = None
                return False
            try:
                cfg, init = ctl.prebuilt.pop(j) if ctl.prebuilt.get(j) is not None else build_config(ctl, w, j, values, objs)
            except ValueError as e:
                # the configuration itself is refused (e.g. a task that is not submitted given as a value)
                trace["refused"][j] = "at construction: " + str(e)[:200]
                ctl.jobs[j] = None
                return False
            root = spec.get("copy_of")
            if spec.get("reuse") and root is not None and depobjs.get(root) is not None:
                mine = depobjs[root]          # the Dependency objects of the first submission, used again
            else:
                mine = [tokens[t].dependency(c) for (t, c) in spec["toks"]]
            depobjs[j] = mine
            for d in mine:
                cfg.add_dependencies(d)
            ctl.plan = dict(index=j, code=spec["code"], marker=spec.get("marker", False), adopt=spec.get("adopt"),
                            raises=spec.get("raises"))
            objs[j] = cfg
            trace["falsy"][j] = not bool(cfg)     # a task object whose truth value is False (__len__ == 0)
            if w.get("dump_heaps"):
                trace["heaps"][j] = dict(nodes=dump_heap(ctl, cfg, init),
                                         explicit=[ctl.jobidx.get(id(d.origin), -1) for d in cfg.__xpm__.dependencies
                                                   if isinstance(d, JobDependency)])
            try:
                values[j] = cfg.submit(init_tasks=init) if init else cfg.submit()
            except ValueError as e:
                # the submission is refused (e.g. the job asks a token for more than it can ever give)
                trace["refused"][j] = str(e)[:200]
                ctl.jobs[j] = None
                return False
            job = ctl.jobs[j]                   # the Job object created for this submission
            deps = []
            for d in job.dependencies:          # iteration order of the set = order used by the scheduler
                if isinstance(d, JobDependency):
                    deps.append(["job", ctl.jobidx.get(id(d.origin), -1)])
                elif isinstance(d, CounterTokenDependency):
                    deps.append(["tok", tokidx[id(d.token)], d.count])
                else:
                    deps.append(["other", type(d).__name__])
            trace["deps"][j] = deps
            if getattr(job, "_future", None) is None:
                other = xp.scheduler.jobs.get(job.identifier)
                trace["dup"][j] = ctl.jobidx.get(id(other), -1)
            return True

        def start_wait(final):
            ctl.wait_future = None
            ctl.wait_future_ev.clear()

            def body():
                try:
                    if final:
                        xp.__exit__(None, None, None)
                    else:
                        xp.wait()
                except BaseException:  # noqa
                    pass

            th = threading.Thread(target=body, daemon=True)
            wait.update(status="pending", thread=th, final=final)
            th.start()
            if not ctl.wait_future_ev.wait(TIMEOUT):
                raise Stuck("wait() did not start")

        si = 0
        while ctl.nsteps < w.get("maxsteps", 400):
            ws = wait_status()
            busy = ws == "blocked"
            if sched_in is not None and si < len(sched_in):
                act = sched_in[si]
                si += 1
                if act[0] == "refused":
                    act = ["submit", act[1]]          # (a recorded schedule: the submission that was refused)
                # a directed schedule is best effort: steps that are not enabled here are skipped
                if act[0] == "deliver":
                    pend = {(p["job"], p["op"]) for p in ctl.pending}
                    ops = [o for o in act[1] if tuple(o) in pend]
                    if not ops:
                        continue
                    act = ["deliver", ops]
                elif act[0] == "submit" and (act[1] != nxt or busy):
                    continue
                elif act[0] in ("wait", "exit") and (busy or wait["final"]):
                    continue
            elif sched_in is not None and not w.get("then_random", True):
                break
            else:
                choices = []
                if nxt < njobs and not busy:
                    choices += [["submit", nxt]] * 3
                if ctl.pending:
                    choices += [["deliver"]] * 4
                if not busy and not wait["final"]:
                    if nxt >= njobs:
                        choices += [["exit"]] * (1 if ctl.pending else 50)
                    elif rng.random() < w.get("pwait", 0.08):
                        choices += [["wait"]]
                if not choices:
                    break
                act = rng.choice(choices)
                if act[0] == "deliver":
                    ops = sorted((p["job"], p["op"]) for p in ctl.pending)
                    n = 1
                    while n < len(ops) and rng.random() < pbatch:
                        n += 1
                    act = ["deliver", [list(o) for o in rng.sample(ops, n)]]
            ctl.nsteps += 1
            if act[0] == "submit":
                if act[1] != nxt:
                    raise ValueError("submissions must follow the job order")
                if not do_submit(nxt):
                    act = ["refused", nxt]
                nxt += 1
                ctl.quiesce()
            elif act[0] == "deliver":
                ctl.deliver([tuple(o) for o in act[1]])
                ctl.quiesce(also=wait["thread"] if wait["final"] else None)
            elif act[0] in ("wait", "exit"):
                start_wait(act[0] == "exit")
                ctl.quiesce(also=wait["thread"] if wait["final"] else None)
            elif act[0] == "grow":
                # another process rewrites token.info with a larger total: the file event reaches the token in
                # the thread of the directory watcher (here: a thread of ours, the watcher being off)
                from watchdog.events import FileModifiedEvent
                tok = tokens[act[1]]
                tok.infopath.write_text(str(act[2]))
                th = threading.Thread(target=tok.on_modified, args=(FileModifiedEvent(str(tok.infopath)),))
                th.start()
                th.join(TIMEOUT)
                ctl.quiesce(also=wait["thread"] if wait["final"] else None)
            else:
                raise ValueError(act)
            snap = snapshot(ctl, xp, w, tokens, wait_status())
            trace["steps"].append(dict(act=act, snap=snap))
            if wait["final"] and snap["wait"] in ("returned", "raised", "other"):
                break                    # the experiment has been left: the loop is stopped
        if ctl.nsteps >= w.get("maxsteps", 400):
            trace["ended"] = "maxsteps"          # the run did not come to rest within the bound
        trace["events"] = ctl.events
        trace["lost"] = [list(x) for x in ctl.lost]
        trace["foreign"] = sorted(set(ctl.foreign))
        trace["left"] = wait["final"] and wait_status() in ("returned", "raised")
        trace["all_submitted"] = nxt >= njobs
    except Stuck as e:
        trace["error"] = "stuck: " + str(e)
    except BaseException as e:  # noqa
        trace["error"] = "exception: " + "".join(traceback.format_exception(type(e), e, e.__traceback__))[-1500:]
    finally:
        shutil.rmtree(wd, ignore_errors=True)
    return trace
