"""Tasks run as REAL job processes by harness/drive_procs.py (C04 / C07 directed probes).

They must live in an importable package (never __main__)."""
import os
import sys
import time
from pathlib import Path

from experimaestro import Meta, Param, Task


class Leave(Task):
    """Ends the way `how` says: `exit:<n>` = sys.exit(n), `status:<cmd>` = sys.exit(os.system(cmd)) (a wait
    status: 256 * the exit code of the command), `raise` = an exception, `text` = sys.exit("message"),
    `none` = sys.exit(None), `return` = plain return"""

    name: Param[str]
    how: Param[str]
    control: Meta[Path]

    def execute(self):
        (self.control / f"{self.name}.started").write_text(str(time.time()))
        kind, _, arg = self.how.partition(":")
        if kind == "exit":
            sys.exit(int(arg))
        if kind == "status":
            sys.exit(os.system(arg))
        if kind == "raise":
            raise RuntimeError("this task fails")
        if kind == "text":
            sys.exit("this task fails with a message")
        if kind == "none":
            sys.exit(None)


class After(Task):
    """Depends on a Leave task; leaves a file when its process starts"""

    name: Param[str]
    upstream: Param[Leave]
    control: Meta[Path]

    def execute(self):
        (self.control / f"{self.name}.started").write_text(str(time.time()))


class Alone(Task):
    name: Param[str]
    control: Meta[Path]

    def execute(self):
        (self.control / f"{self.name}.started").write_text(str(time.time()))
