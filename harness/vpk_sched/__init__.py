"""Task/Config classes used by the scheduler checks (C04, C06, C07).

They must live in an importable package (never __main__)."""
from typing import Dict, List, Optional

from experimaestro import Config, LightweightTask, Param, Task


class Node(Config):
    """A nested non-task configuration that can hold other configurations"""

    x: Param[int] = 0
    child: Param[Optional[Config]] = None
    items: Param[List[Config]] = []
    table: Param[Dict[str, Config]] = {}


class Out(Config):
    """What VTaskOut.submit() returns (marked as produced by the task)"""

    x: Param[int] = 0
    extra: Param[Optional[Config]] = None


class Bag(Config):
    """A collection-like configuration: its truth value is False while `names` is empty, yet it may
    hold a submitted task or be the output of one"""

    names: Param[List[str]] = []
    child: Param[Optional[Config]] = None

    def __len__(self):
        return len(self.names)


class Pre(LightweightTask):
    """A lightweight task used as pre-task / init task; may embed submitted tasks"""

    x: Param[int] = 0
    child: Param[Optional[Config]] = None

    def execute(self):
        pass


class VTask(Task):
    name: Param[str]
    child: Param[Optional[Config]] = None
    bag: Param[Optional[Config]] = None
    items: Param[List[Config]] = []
    table: Param[Dict[str, Config]] = {}

    def execute(self):
        pass


class VTaskOut(Task):
    """A task with task_outputs: submit() returns a marked plain configuration"""

    name: Param[str]
    child: Param[Optional[Config]] = None
    bag: Param[Optional[Config]] = None
    items: Param[List[Config]] = []
    table: Param[Dict[str, Config]] = {}

    def task_outputs(self, dep):
        return dep(Out(x=1))

    def execute(self):
        pass


class VTaskBag(Task):
    """A task whose output is a configuration that evaluates to False"""

    name: Param[str]
    child: Param[Optional[Config]] = None
    bag: Param[Optional[Config]] = None
    items: Param[List[Config]] = []
    table: Param[Dict[str, Config]] = {}

    def task_outputs(self, dep):
        return dep(Bag(names=[]))

    def execute(self):
        pass


class VTaskEmpty(Task):
    """A collection-like task: its truth value is False while `items` is empty (a dataset task that has
    a __len__); submit() returns the task itself"""

    name: Param[str]
    child: Param[Optional[Config]] = None
    bag: Param[Optional[Config]] = None
    items: Param[List[Config]] = []
    table: Param[Dict[str, Config]] = {}

    def __len__(self):
        return len(self.items)

    def execute(self):
        pass


class VTaskRelay(Task):
    """A task that works on a configuration in place and hands the SAME object on: when `child` is a plain
    configuration (typically the output of another task) task_outputs returns dep(self.child) - the object is
    now the output of this task -; otherwise a fresh marked configuration"""

    name: Param[str]
    child: Param[Optional[Config]] = None
    bag: Param[Optional[Config]] = None
    items: Param[List[Config]] = []
    table: Param[Dict[str, Config]] = {}

    def task_outputs(self, dep):
        if self.child is not None and not isinstance(self.child, Task):
            return dep(self.child)
        return dep(Out(x=2))

    def execute(self):
        pass


class VTaskLoad(Task):
    """The serializer pattern: the output is an unmarked configuration that carries a pre-task (a lightweight
    loader) marked as produced by this task.  The loaders of all VTaskLoad tasks are structurally equal."""

    name: Param[str]
    child: Param[Optional[Config]] = None
    bag: Param[Optional[Config]] = None
    items: Param[List[Config]] = []
    table: Param[Dict[str, Config]] = {}

    def task_outputs(self, dep):
        out = Out(x=3)
        return out.add_pretasks(dep(Pre(x=0)))

    def execute(self):
        pass


TASK_CLASSES = [VTask, VTaskOut, VTaskBag, VTaskEmpty, VTaskRelay, VTaskLoad]
