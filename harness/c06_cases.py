"""C06 directed cases with real job processes (round 7), one process per case: python c06_cases.py CASE
(cases adapted from the reproducers of the seeding agent, notes/seed_side_findings/C06_r7_existing_defect_repro.py).
Prints `ok: ...` (exit 0) or `DEFECT: ...` (exit 1); a hang is cut after HANG_AFTER seconds.

alt_workspaces : the documented workspace setting `alt_workspaces` is set: the job still runs to DONE
nested         : two experiments open at once, a job of the inner one depends on a job of the outer one
refused        : a task whose submission was refused (over capacity) is given to another task
dryrun_dep     : a task submitted with run_mode=DRY_RUN is given to a normally submitted task
In the last two the dependent must either be refused or reach a final state - never wait for ever."""
import json
import logging
import os
import shutil
import subprocess
import sys
import tempfile
import threading
import time
from pathlib import Path

from experimaestro import Task, Param, experiment
from experimaestro.scheduler import JobState, FailedExperiment

HANG_AFTER = 15.0


class Quick(Task):
    x: Param[int]

    def execute(self):
        print("ran", self.x)


class Sleep(Task):
    secs: Param[float]

    def execute(self):
        time.sleep(self.secs)


class AfterSleep(Task):
    dep: Param[Sleep]

    def execute(self):
        pass


class AfterQuick(Task):
    dep: Param[Quick]

    def execute(self):
        pass


def leave(workdir, defect: bool, message: str):
    print(("DEFECT: " if defect else "ok: ") + message, flush=True)
    shutil.rmtree(workdir, ignore_errors=True)
    # (the scheduler may be stuck: do not go through experiment.__exit__)
    os._exit(1 if defect else 0)


def hang_watchdog(workdir, describe):
    def run():
        time.sleep(HANG_AFTER)
        leave(workdir, True, f"still waiting after {HANG_AFTER}s - " + describe())

    threading.Thread(target=run, daemon=True).start()


def case_alt_workspaces():
    """WorkspaceSettings.alt_workspaces ("Alternative workspaces to find jobs or
    experiments", a list of workspace ids, settable from settings.yaml) makes
    every submission raise inside Scheduler.aio_submit: Workspace.alt_workdirs
    does `ws.path` on the ids (strings). The job stays UNSCHEDULED for ever, its
    future holds an AttributeError, unfinishedJobs is never decremented:
    job.wait() raises and experiment.wait() never returns."""
    from experimaestro.settings import WorkspaceSettings

    workdir = Path(tempfile.mkdtemp(prefix="seed7c06-e1-"))
    ws = WorkspaceSettings(id="main", path=workdir, alt_workspaces=["other"])
    with experiment(ws, "demo", port=-1) as xp:
        xp.setenv("PYTHONPATH", os.environ.get("PYTHONPATH", ""))
        task = Quick(x=1).submit()
        job = task.__xpm__.job
        hang_watchdog(
            workdir,
            lambda: f"job state {job.state}, unfinished jobs {xp.unfinishedJobs}, "
            f"job future: {job._future.exception(timeout=0)!r}",
        )
        xp.wait()
        leave(workdir, job.state != JobState.DONE, f"job state {job.state}")


# --- Case 2: nested experiments, dependency across them


def case_nested():
    """Two experiments open at the same time in one process (nesting is
    supported: experiment.CURRENT is saved and restored). A job of the inner
    experiment depends on a job of the outer one. When the outer job ends, its
    scheduler checks the dependency from ITS event loop thread
    (`self.loop.call_soon(dependency.check)`): the asyncio.Event of the inner
    job is set from a foreign thread, the inner loop is not woken up. The inner
    job is READY for ever, inner experiment.wait() never returns."""
    workdir = Path(tempfile.mkdtemp(prefix="seed7c06-e2-"))
    with experiment(workdir, "outer", port=-1) as xp1:
        xp1.setenv("PYTHONPATH", os.environ.get("PYTHONPATH", ""))
        a = Sleep(secs=3.0).submit()
        with experiment(workdir, "inner", port=-1) as xp2:
            xp2.setenv("PYTHONPATH", os.environ.get("PYTHONPATH", ""))
            b = AfterSleep(dep=a).submit()
            hang_watchdog(
                workdir,
                lambda: f"outer job {a.__xpm__.job.state}, inner job "
                f"{b.__xpm__.job.state}, inner unfinished {xp2.unfinishedJobs}",
            )
            xp2.wait()
            state = b.__xpm__.job.state
    leave(workdir, state != JobState.DONE, f"inner job {state}")


# --- Case 3: a submission refused by the scheduler leaves a phantom job


def case_refused():
    """A task that asks a token for more than its capacity is refused by
    Scheduler.submit (ValueError) - but only after ConfigInformation.submit has
    set `self.job`. The task therefore counts as submitted (it is accepted as a
    parameter value, and cannot be submitted again), with a job that no
    scheduler knows: a task that depends on it waits for ever."""
    from experimaestro.tokens import ProcessCounterToken

    workdir = Path(tempfile.mkdtemp(prefix="seed7c06-e4-"))
    token = ProcessCounterToken(1)
    with experiment(workdir, "demo", port=-1) as xp:
        xp.setenv("PYTHONPATH", os.environ.get("PYTHONPATH", ""))
        a = Quick(x=1)
        a.add_dependencies(token.dependency(2))
        try:
            a.submit()
            leave(workdir, False, "submission not refused?")
        except ValueError as e:
            print("refused as expected:", e)

        # A sweep that skips what cannot be run goes on...
        try:
            b = AfterQuick(dep=a).submit()
        except ValueError as e:
            leave(workdir, False, f"the dependent is refused: {e}")
        hang_watchdog(
            workdir,
            lambda: f"refused task's job {a.__xpm__.job.state}, dependent "
            f"{b.__xpm__.job.state}, unfinished {xp.unfinishedJobs}",
        )
        try:
            xp.wait()
        except FailedExperiment:
            pass
        leave(workdir, False, f"dependent job {b.__xpm__.job.state}")


# --- Case 4: stale pid file whose pid belongs to another process


def case_dryrun_dep():
    """Same root as case 3: `task.submit(run_mode=RunMode.DRY_RUN)` (the
    run_mode argument of submit is public) gives the task a job that no
    scheduler runs. Used as a parameter of a normally submitted task, it is a
    dependency that never changes: the dependent waits for ever instead of
    being refused or cancelled."""
    from experimaestro.scheduler.workspace import RunMode

    workdir = Path(tempfile.mkdtemp(prefix="seed7c06-e5-"))
    with experiment(workdir, "demo", port=-1) as xp:
        xp.setenv("PYTHONPATH", os.environ.get("PYTHONPATH", ""))
        a = Quick(x=1)
        a.submit(run_mode=RunMode.DRY_RUN)
        try:
            b = AfterQuick(dep=a).submit()
        except ValueError as e:
            leave(workdir, False, f"the dependent is refused: {e}")
        hang_watchdog(
            workdir,
            lambda: f"dry-run task's job {a.__xpm__.job.state}, dependent "
            f"{b.__xpm__.job.state}, unfinished {xp.unfinishedJobs}",
        )
        try:
            xp.wait()
        except FailedExperiment:
            pass
        leave(workdir, False, f"dependent job {b.__xpm__.job.state}")


CASES = {"alt_workspaces": case_alt_workspaces, "nested": case_nested, "refused": case_refused,
         "dryrun_dep": case_dryrun_dep}

if __name__ == "__main__":
    logging.basicConfig(level=logging.CRITICAL)
    CASES[sys.argv[1]]()
    sys.exit(0)
