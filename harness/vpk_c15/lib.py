"""Fixed classes used by the C15 check.

CLASSES / ENUMS give the numbering used in the Coq cases (position = class / enum id)."""
from enum import Enum
from pathlib import Path
from typing import Annotated, Dict, List, Optional

from experimaestro import Config, LightweightTask, Meta, Param, Task, pathgenerator
from experimaestro.checkers import Checker


class NonEmpty(Checker):
    """a user-defined checker: the value has at least one element (len() of a number raises)"""

    def check(self, value):
        return len(value) > 0

    def __str__(self):
        return "non empty"


class E1(Enum):
    A = 1
    B = 2
    C = 3


class E2(Enum):
    A = 1
    X = 2


# ---- assignment half: a small hierarchy, with and without tasks
class A(Config):
    pass


class A1(A):
    pass


class A2(A1):
    pass


class B(Config):
    pass


class T(Task):
    def execute(self):
        pass


class T1(T):
    pass


class LWT(LightweightTask):
    def execute(self):
        pass


# ---- submission half: graphs of N nodes below a task TK, pre-tasks / init tasks LW
class N(Config):
    a: Param[int]
    m: Meta[int]
    c: Param[Optional["N"]]
    cs: Param[Optional[List["N"]]]
    dc: Param[Optional[Dict[str, "N"]]]
    ll: Param[Optional[List[List["N"]]]]
    dl: Param[Optional[Dict[str, List["N"]]]]
    d: Param[int] = 1
    p: Annotated[Path, pathgenerator("out")]

    def __len__(self):
        """collection-like configuration: the number of members of `cs` (so an N without
        members is falsy - validation must not depend on the truth value of a configuration)"""
        try:
            return len(self.__xpm__.values.get("cs") or [])
        except AttributeError:
            return 0


class N1(N):
    z: Param[int]
    lr: Param[List[N]]


class LW(LightweightTask):
    a: Param[int]
    m: Meta[int]
    c: Param[Optional[N]]

    def execute(self):
        pass


class TK(Task):
    a: Param[int]
    m: Meta[int]
    c: Param[Optional[N]]
    cs: Param[Optional[List[N]]]
    dc: Param[Optional[Dict[str, N]]]
    ld: Param[Optional[List[Dict[str, N]]]]
    # tasks given to tasks (a task value must have been submitted before it can be assigned)
    t: Param[Optional["TK"]]
    ts: Param[Optional[List["TK"]]]
    dt: Param[Optional[Dict[str, "TK"]]]

    def execute(self):
        pass


class N2(N):
    """a configuration that holds tasks (a bundle of upstream results)"""
    t: Param[Optional[TK]]
    ts: Param[Optional[List[TK]]]
    dt: Param[Optional[Dict[str, TK]]]
    lt: Param[Optional[List[List[TK]]]]


ENUMS = [E1, E2]
CLASSES = [A, A1, A2, B, T, T1, LWT, N, N1, LW, TK, N2]
