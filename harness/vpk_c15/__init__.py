"""Importable class library of the C15 check (parameter typing, validation at submit)."""
