"""Holder classes of the C15 assignment cases are created here at run time (drive_c15.py),
so that they are importable by module path like any user class."""
