"""C07 - failures are contained: dependents are cancelled, others still run."""
from vcommon import main_wrapper
import schedlib


def run(c):
    schedlib.run_sched_check(
        c, "c07", [schedlib.oracle_c07, lambda w, t, r: schedlib.oracle_rest(w, t, r, "C07")], n_quick=300, n_thorough=3000, golden_name="c07.json",
        rule=("random DAGs (<=7 jobs, deeper chains, about a third of the processes failing), failures delivered "
              "before, while and after dependents are submitted (submissions interleaved with completions), markers, "
              "tokens, experiment.wait() mid-way and at exit; non-trivial = at least two jobs and one dependency; "
              "distinct by (workload, schedule); + directed probes with real job processes: every way of leaving "
              "the task body (status 0, non-zero, multiples of 256, wait status of os.system, exception, message) "
              "through the local launcher and the Slurm launcher"))
    schedlib.run_proc_probes(c, "C07", [dict(mode="exit", hows=schedlib.LEAVE_EXIT),
                                        dict(mode="slurm", sacct="steps-after", hows=["return", "exit:3", "exit:256", "raise"])])


if __name__ == "__main__":
    main_wrapper("C07", run)
