"""C07 - failures are contained: dependents are cancelled, others still run."""
from vcommon import main_wrapper
import schedlib


def run(c):
    schedlib.run_sched_check(
        c, "c07", [schedlib.oracle_c07, lambda w, t, r: schedlib.oracle_rest(w, t, r, "C07")], n_quick=300, n_thorough=3000, golden_name="c07.json",
        rule=("random DAGs (<=7 jobs, deeper chains, about a third of the processes failing), failures delivered "
              "before, while and after dependents are submitted (submissions interleaved with completions), markers, "
              "tokens, experiment.wait() mid-way and at exit; non-trivial = at least two jobs and one dependency; "
              "distinct by (workload, schedule)"))


if __name__ == "__main__":
    main_wrapper("C07", run)
