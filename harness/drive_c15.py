"""Implementation driver for C15: real assignments on real classes, real submit() inside a real
experiment (jobs are a Job subclass that finishes at once, so nothing is spawned).

stdin : {"assign": [case...], "graphs": [case...]}
stdout: last line = {"classes": [...], "assign": [answer...], "graphs": [answer...]}
"""
import json
import logging
import math
import os
import shutil
import struct
import sys
import tempfile
from enum import Enum
from pathlib import Path
from typing import Annotated, Dict, List, Optional, Union

logging.disable(logging.CRITICAL)

from experimaestro import Config, Param, experiment  # noqa: E402
from experimaestro.core import types as xtypes  # noqa: E402
from experimaestro.core.arguments import field  # noqa: E402
from experimaestro.core.context import SerializationContext  # noqa: E402
from experimaestro.core.serialization import from_state_dict, state_dict  # noqa: E402
from experimaestro.checkers import Choices  # noqa: E402
from experimaestro.xpmutils import DirectoryContext  # noqa: E402
from experimaestro.core.objects import ConfigWalkContext  # noqa: E402
from experimaestro.scheduler.base import Job, JobState  # noqa: E402
from experimaestro.scheduler.workspace import RunMode  # noqa: E402

import vpk_c15.dyn as dyn  # noqa: E402
from vpk_c15.lib import CLASSES, ENUMS, NonEmpty  # noqa: E402


class FakeJob(Job):
    """A job that needs no process: the scheduler registers it, starts it, and it is done."""

    async def aio_run(self):
        return JobState.DONE

    async def aio_process(self):
        return None


def install_fake_jobs():
    for cls in CLASSES:
        xt = cls.__getxpmtype__()
        xt.__initialize__()
        if xt.task is not None:
            xt.task = lambda pyobject, launcher=None, workspace=None, run_mode=None: FakeJob(
                pyobject, launcher=launcher, workspace=workspace, run_mode=run_mode)


# ------------------------------------------------------------------ class tables
def type_ast(t):
    if isinstance(t, xtypes.IntType):
        return {"k": "int"}
    if isinstance(t, xtypes.FloatType):
        return {"k": "float"}
    if isinstance(t, xtypes.BoolType):
        return {"k": "bool"}
    if isinstance(t, xtypes.StrType):
        return {"k": "str"}
    if isinstance(t, xtypes.PathType):
        return {"k": "path"}
    if isinstance(t, xtypes.EnumType):
        return {"k": "enum", "e": ENUMS.index(t.type)}
    if isinstance(t, xtypes.ArrayType):
        return {"k": "list", "t": type_ast(t.type)}
    if isinstance(t, xtypes.DictType):
        return {"k": "dict", "kt": type_ast(t.keytype), "vt": type_ast(t.valuetype)}
    if isinstance(t, xtypes.ObjectType):
        return {"k": "obj", "c": CLASSES.index(t.basetype)}
    return {"k": "other", "repr": type(t).__name__}


def is_optional(a):
    """None is a value of the parameter: it was declared Optional[...] (Argument.optional once the library records
    it; before that: not required although it has neither a default nor a generator)"""
    if hasattr(a, "optional"):
        return bool(a.optional)
    return bool(not a.required and a.default is None and not a.generator)


def arg_info(name, a):
    return dict(name=name, required=bool(a.required), generated=bool(a.generator), constant=bool(a.constant),
                ignored=bool(a.ignored), ty=type_ast(a.type), optional=is_optional(a), checker=bool(a.checker))


def class_table():
    out = []
    for cls in CLASSES:
        xt = cls.__getxpmtype__()
        out.append(dict(
            name=cls.__name__,
            parents=[CLASSES.index(b) for b in cls.__bases__ if b in CLASSES],
            task=xt.task is not None,
            args=[arg_info(k, a) for k, a in xt.arguments.items()]))
    return out


# ------------------------------------------------------------------ annotations and values
def annotation(a):
    k = a["k"]
    if k == "int":
        return int
    if k == "float":
        return float
    if k == "bool":
        return bool
    if k == "str":
        return str
    if k == "path":
        return Path
    if k == "enum":
        return ENUMS[a["e"]]
    if k == "list":
        return List[annotation(a["t"])]
    if k == "dict":
        return Dict[annotation(a["kt"]), annotation(a["vt"])]
    if k == "obj":
        return CLASSES[a["c"]]
    if k == "opt":
        return Optional[annotation(a["t"])]
    if k == "union":
        return Union[tuple(annotation(x) for x in a["ts"])]
    raise ValueError(k)


def float_of(v):
    if "z" in v:
        return float(int(v["z"]))
    return struct.unpack("!d", struct.pack("!q", int(v["bits"])))[0]


class Objects:
    """The configuration objects of a case, by the identity the case gives them."""

    def __init__(self):
        self.by_id = {}
        self.ids = {}

    def add(self, oid, obj):
        self.by_id[oid] = obj
        self.ids[id(obj)] = oid

    def make(self, oid, c, sub):
        if oid in self.by_id:
            return self.by_id[oid]
        obj = CLASSES[c]()
        if sub:
            obj.submit(run_mode=RunMode.DRY_RUN)
        self.add(oid, obj)
        return obj


def build(v, objs: Objects):
    k = v["k"]
    if k == "none":
        return None
    if k == "int":
        return int(v["z"])
    if k == "bool":
        return bool(v["b"])
    if k == "float":
        return float_of(v)
    if k == "str":
        return v["s"]
    if k == "path":
        return Path(v["s"])
    if k == "enum":
        return list(ENUMS[v["e"]])[v["m"]]
    if k == "list":
        return [build(x, objs) for x in v["l"]]
    if k == "dict":
        return {build(a, objs): build(b, objs) for a, b in v["ps"]}
    if k == "obj":
        if "c" in v:
            return objs.make(v["o"], v["c"], v.get("sub", False))
        return objs.by_id[v["o"]]
    raise ValueError(k)


def canon(v, objs: Objects):
    if v is None:
        return {"k": "none"}
    if isinstance(v, bool):
        return {"k": "bool", "b": v}
    if isinstance(v, int):
        return {"k": "int", "z": str(v)}
    if isinstance(v, float):
        if math.isfinite(v) and v == int(v):
            return {"k": "float", "z": str(int(v))}
        return {"k": "float", "bits": str(struct.unpack("!q", struct.pack("!d", v))[0])}
    if isinstance(v, str):
        return {"k": "str", "s": v}
    if isinstance(v, Path):
        return {"k": "path", "s": str(v)}
    if isinstance(v, Enum) and type(v) in ENUMS:
        return {"k": "enum", "e": ENUMS.index(type(v)), "m": list(type(v)).index(v)}
    if isinstance(v, list):
        return {"k": "list", "l": [canon(x, objs) for x in v]}
    if isinstance(v, dict):
        return {"k": "dict", "ps": [[canon(a, objs), canon(b, objs)] for a, b in v.items()]}
    if isinstance(v, Config):
        base = v.__xpmtype__.basetype
        return {"k": "obj", "o": objs.ids.get(id(v), -1), "c": CLASSES.index(base) if base in CLASSES else -1,
                "sub": bool(v.__xpm__.job)}
    return {"k": "other", "repr": type(v).__name__}


ABSENT = {"k": "absent"}


def stored(o, objs):
    vals = o.__xpm__.values
    return canon(vals["x"], objs) if "x" in vals else ABSENT


# ------------------------------------------------------------------ assignment cases
COUNTER = [0]


def run_assign(case):
    """case: annot, default (value or null), old (value or null), v, via ('setattr'|'ctor'), sealed"""
    COUNTER[0] += 1
    name = f"H{os.getpid()}_{COUNTER[0]}"
    objs = Objects()
    out = dict(declared=True)
    try:
        hint = Param[annotation(case["annot"])]
        ck = case.get("checker")
        if ck is not None:
            # x: Annotated[T, Choices([...])] / Annotated[T, NonEmpty()]
            checker = NonEmpty() if ck["k"] == "nonempty" else Choices([build(x, objs) for x in ck["choices"]])
            hint = Annotated[annotation(case["annot"]), checker]
        ns = {"__annotations__": {"x": hint}, "__module__": dyn.__name__, "__qualname__": name}
        if case.get("bare_field"):
            ns["x"] = field()            # neither default nor default_factory
        if case.get("default") is not None:
            ns["x"] = build(case["default"], objs)
            # the default as Python built it (a dict literal merges keys that are equal: {True: a, 1: b})
            out["default_input"] = canon(ns["x"], objs)
        cls = type(name, (Config,), ns)
        setattr(dyn, name, cls)
        arg = cls.__getxpmtype__().arguments["x"]
        out.update(required=bool(arg.required), ty=type_ast(arg.type), has_checker=bool(arg.checker))
    except Exception as e:  # the class cannot be used at all
        return dict(declared=False, exc=type(e).__name__, **({"default_input": out["default_input"]} if "default_input" in out else {}))
    value = build(case["v"], objs)
    out["input"] = canon(value, objs)
    # what a parameter that was never assigned holds (TypeConfig.__init__: the declared default)
    try:
        fresh = cls()
        out.update(init_raised=False, initial=stored(fresh, objs))
        if "x" in fresh.__xpm__.values:
            out["initial_read"] = canon(fresh.x, objs)
    except Exception as e:
        out.update(init_raised=True, init_exc=type(e).__name__, initial=ABSENT, raised=False, before=ABSENT,
                   after=ABSENT)
        return out
    if case["via"] == "ctor":
        try:
            o = cls(x=value)
            out.update(raised=False, before=ABSENT, after=stored(o, objs), readback=canon(o.x, objs))
        except Exception as e:
            out.update(raised=True, exc=type(e).__name__, before=ABSENT, after=ABSENT)
        return out
    o = cls()
    if case.get("old") is not None:
        try:
            o.x = build(case["old"], objs)
        except Exception:      # e.g. refused by the checker of the parameter: the object stays as it was
            pass
    if case.get("sealed"):
        o.__xpm__._sealed = True  # what Sealer.postprocess does (the walk itself refuses non-str dict keys)
    out["before"] = stored(o, objs)
    try:
        o.x = value
        out.update(raised=False)
    except Exception as e:
        out.update(raised=True, exc=type(e).__name__)
    out["after"] = stored(o, objs)
    if not out["raised"]:
        out["readback"] = canon(o.x, objs)
    return out


# ------------------------------------------------------------------ graph cases
def has_obj(v):
    k = v["k"]
    if k == "obj":
        return True
    if k == "list":
        return any(has_obj(x) for x in v["l"])
    if k == "dict":
        return any(has_obj(b) for _, b in v["ps"])
    return False


def remap_loaded(nodes, objs, i, loaded):
    """the loaded copy of node i and, in parallel with the description of the case, of everything below it"""
    objs.by_id[i] = loaded
    objs.ids[id(loaded)] = i

    def walk(v, real):
        if v["k"] == "obj":
            if objs.by_id.get(v["o"]) is not real:
                remap_loaded(nodes, objs, v["o"], real)
        elif v["k"] == "list":
            for x, y in zip(v["l"], real):
                walk(x, y)
        elif v["k"] == "dict":
            for (ka, x) in v["ps"]:
                walk(x, real[build(ka, objs)])

    n = nodes[i]
    for k, v in n["fields"].items():
        if has_obj(v):
            walk(v, loaded.__xpm__.values[k])
    for j, real in zip(n.get("pre", []), loaded.__xpm__.pre_tasks):
        if objs.by_id.get(j) is not real:
            remap_loaded(nodes, objs, j, real)


def run_graph(case, xp):
    """case: nodes [{c, fields {name: value}, pre [ids]}], loaded {roots [ids], region [ids]} (configurations that
    are saved and LOADED back - from_state_dict - before they are given to the others: sealed, never validated),
    ops [{op: submit|validate|instance, root, init [ids]} | {op: set, node, field, value}]"""
    objs = Objects()
    nodes = case["nodes"]
    region = set((case.get("loaded") or {}).get("region", []))
    for i, n in enumerate(nodes):
        kw = {k: build(v, objs) for k, v in n["fields"].items() if not has_obj(v)}
        objs.add(i, CLASSES[n["c"]](**kw))

    def wire(which):
        for i, n in enumerate(nodes):
            if which(i):
                for k, v in n["fields"].items():
                    if has_obj(v):
                        setattr(objs.by_id[i], k, build(v, objs))
        for i, n in enumerate(nodes):
            if which(i) and n.get("pre"):
                objs.by_id[i].add_pretasks(*[objs.by_id[j] for j in n["pre"]])

    wire(lambda i: i in region)
    # a saved definition that lacks a field the class requires (written before the parameter existed, edited ...):
    # the object is saved complete (the identifier written along needs every value) and the field is then removed
    # from the definition
    stripped = set()
    for i in sorted(region):
        o = objs.by_id[i]
        for name, arg in o.__xpmtype__.arguments.items():
            if arg.required and not arg.generator and o.__xpm__.values.get(name) is None:
                o.__xpm__.set(name, [] if isinstance(arg.type, xtypes.ArrayType) else 0, bypass=True)
                stripped.add((id(o), name))
    for r in (case.get("loaded") or {}).get("roots", []):
        state = state_dict(SerializationContext(), objs.by_id[r])
        for definition in state["objects"]:
            for name in list(definition["fields"]):
                if (definition["id"], name) in stripped:
                    del definition["fields"][name]
        remap_loaded(nodes, objs, r, from_state_dict(json.loads(json.dumps(state))))
    wire(lambda i: i not in region)
    answers = []
    for op in case["ops"]:
        root = objs.by_id[op["node" if op["op"] == "set" else "root"]]
        before = len(xp.scheduler.jobs)
        a = {}
        try:
            if op["op"] == "submit":
                root.submit(init_tasks=[objs.by_id[j] for j in op.get("init", [])])
            elif op["op"] == "set":
                # an assignment in the middle of the history (e.g. a task that went through its own
                # submit, given as a parameter of another one)
                setattr(root, op["field"], build(op["value"], objs))
            elif op["op"] == "instance":
                # validates, seals and builds the instance (before the task is submitted)
                root.instance(DirectoryContext(Path(os.environ.get("C15_SCRATCH", tempfile.gettempdir())) / "instance"))
            else:
                root.__xpm__.validate()
            a["raised"] = False
        except Exception as e:
            a.update(raised=True, exc=type(e).__name__)
        a["delta"] = len(xp.scheduler.jobs) - before
        # what the call left on its object: a job (the "was submitted" flag), its init tasks, the sealed flag
        a["job"] = root.__xpm__.job is not None
        a["init"] = [objs.ids.get(id(t), -1) for t in root.__xpm__.init_tasks]
        a["sealed"] = bool(root.__xpm__._sealed)
        a["registered"] = bool(op["op"] != "set" and root.__xpm__.job is not None
                               and any(j is root.__xpm__.job for j in xp.scheduler.jobs.values()))
        answers.append(a)
    return answers


# ------------------------------------------------------------------ directed cases without a Coq model
def run_special(case):
    """Union-typed parameters (outside the modelled type expressions): x: Param[Union[...]] (= default)"""
    COUNTER[0] += 1
    name = f"S{os.getpid()}_{COUNTER[0]}"
    objs = Objects()
    try:
        ns = {"__annotations__": {"x": Param[annotation(case["annot"])]}, "__module__": dyn.__name__, "__qualname__": name}
        if case.get("default") is not None:
            ns["x"] = build(case["default"], objs)
        cls = type(name, (Config,), ns)
        setattr(dyn, name, cls)
        cls.__getxpmtype__().arguments["x"]
        o = cls()
    except Exception as e:
        return dict(declared=False, exc=type(e).__name__)
    value = build(case["v"], objs)
    out = dict(declared=True, input=canon(value, objs), before=stored(o, objs))
    try:
        o.x = value
        out["raised"] = False
    except Exception as e:
        out.update(raised=True, exc=type(e).__name__)
    out["after"] = stored(o, objs)
    return out


def main():
    payload = json.load(sys.stdin)
    install_fake_jobs()
    wd = tempfile.mkdtemp(prefix="c15-", dir=os.environ.get("C15_SCRATCH"))
    res = dict(classes=class_table(), assign=[], graphs=[])
    try:
        with experiment(wd, "c15", port=-1) as xp:
            for case in payload.get("assign", []):
                try:
                    res["assign"].append(run_assign(case))
                except Exception:
                    if os.environ.get("C15_DEBUG"):
                        print("FAILED CASE", json.dumps(case), file=sys.stderr)
                    raise
            for case in payload.get("graphs", []):
                res["graphs"].append(run_graph(case, xp))
            res["special"] = [run_special(case) for case in payload.get("special", [])]
        res["experiment_exit"] = "ok"
    except Exception as e:  # e.g. FailedExperiment; the answers are already recorded
        res["experiment_exit"] = type(e).__name__ + ": " + str(e)[:200]
    finally:
        shutil.rmtree(wd, ignore_errors=True)
    print(json.dumps(res))


if __name__ == "__main__":
    main()
