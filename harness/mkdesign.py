"""Regenerates the tables at the end of DESIGN.md (everything below the GENERATED marker) from the repository state:
fix: commits of /repo, known_findings.json, seeded/*/meta.json, props/*.v and manifest.d/*.json."""
import json
import re
import subprocess
from pathlib import Path

ROOT = Path(__file__).resolve().parent.parent
MARK = "<!-- GENERATED BELOW by harness/mkdesign.py - do not edit by hand -->"


def sh(*cmd):
    return subprocess.run(cmd, capture_output=True, text=True).stdout


def main():
    out = [MARK, ""]
    kf = json.load(open(ROOT / "known_findings.json"))
    bycommit = {}
    for e in kf:
        if e["status"] == "fixed" and e.get("commit"):
            bycommit.setdefault(e["commit"][:7], []).append(e)
    out.append("### 13.1 `fix:` commits in /repo (oldest first)\n")
    out.append("| commit | properties | subject | finding keys closed |")
    out.append("|---|---|---|---|")
    log = sh("git", "-C", "/repo", "log", "--reverse", "--format=%h %s", "406b0b9..HEAD").strip().splitlines()
    for line in log:
        h, subj = line.split(" ", 1)
        es = bycommit.get(h[:7], [])
        props = ", ".join(sorted({e["property"] for e in es})) or "-"
        keys = "; ".join(e["key"] for e in es[:4]) + (" ..." if len(es) > 4 else "")
        out.append(f"| {h} | {props} | {subj} | {keys} |")
    out.append(f"\n{len(log)} commits; every one starts with `fix:` and touches only what the defect requires.\n")
    out.append("### 13.2 Open findings (recorded, not repaired)\n")
    out.append("| property | key | what fails |")
    out.append("|---|---|---|")
    for e in kf:
        if e["status"] == "open":
            out.append(f"| {e['property']} | `{e['key']}` | {e['what'][:400]} |")
    out.append("\n### 13.3 Seeded changes and which checks catch them\n")
    out.append(sh("/venv/bin/python", str(ROOT / "harness" / "mkseedtable.py")))
    out.append("### 13.4 Per-property summary\n")
    out.append("| property | theorems (props/Cxx.v) | technique | evidence: obligations / evaluations (last quick run on /repo) |")
    out.append("|---|---|---|---|")
    for f in sorted((ROOT / "harness" / "manifest.d").glob("C*.json")):
        d = json.load(open(f))
        pid = d["property_id"]
        pv = ROOT / "coq" / "props" / f"{pid}.v"
        nth = len(re.findall(r"^Theorem ", pv.read_text(), re.M)) if pv.exists() else 0
        ev = ROOT / "evidence" / f"{pid}.json"
        cov = ""
        if ev.exists():
            e = json.load(open(ev))
            c = e.get("coverage", {})
            cov = f"{c.get('discharged', '?')}/{c.get('obligations', '?')} ; {c.get('evaluations', c.get('cases', '?'))}"
        out.append(f"| {pid} | {nth} | {d.get('technique', '')[:160]} | {cov} |")
    p = ROOT / "DESIGN.md"
    s = p.read_text()
    if MARK in s:
        s = s[:s.index(MARK)]
    p.write_text(s.rstrip() + "\n\n" + "\n".join(out) + "\n")


if __name__ == "__main__":
    main()
