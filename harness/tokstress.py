"""Thorough-tier supporting run for C08/C09: real scheduler-like processes share one token directory
(real CounterToken, real watchdog observer, real watcher threads, real inter-process locks); every
task is a real child process that appends `start`/`end` lines with its request to a common log.
The controller checks that at no instant the running tasks together hold more than the total.

Used through tokctl.py (kind "stress"); `python tokstress.py worker ...` is the scheduler process."""
import json
import os
import subprocess
import sys
import tempfile
import threading
import time
import shutil
from pathlib import Path

CHILD = r"""
import os, sys, time
log, jid, cnt, dur = sys.argv[1], sys.argv[2], sys.argv[3], float(sys.argv[4])
def w(kind):
    fd = os.open(log, os.O_WRONLY | os.O_APPEND | os.O_CREAT, 0o644)
    os.write(fd, ("%s %s %s %.6f\n" % (kind, jid, cnt, time.time())).encode())
    os.close(fd)
w("start")
time.sleep(dur)
w("end")
"""


def worker(root, idx, total, jobs, deadline, reps):
    import logging
    logging.disable(logging.CRITICAL)
    import fasteners
    import experimaestro.tokens as T
    from experimaestro.locking import Locks, LockError
    from experimaestro.scheduler.dependencies import DependencyStatus
    from experimaestro.ipc import ipcom

    root = Path(root)
    tok = T.CounterToken("tok", root / "tok", total)
    stats = dict(runs=0, aborts=0, rescued=0, other_exc=0, unfinished=0)
    slock = threading.Lock()

    class Loop:
        def call_soon_threadsafe(self, fn, *a):
            fn(*a)

    class Job:
        def __init__(self, jid, rep):
            # one identity per run: the scheduler never runs the same job twice back to back
            self.identifier = "w%dj%dr%d" % (idx, jid, rep)
            self.path = root / "jobs" / self.identifier
            self.path.mkdir(parents=True, exist_ok=True)
            self.basepath = self.path / self.identifier
            self.ready = threading.Event()

        def dependencychanged(self, dep, old, new):
            if new == DependencyStatus.OK:
                self.ready.set()

    def new_job(jid, cnt, rep):
        job = Job(jid, rep)
        dep = tok.dependency(cnt)
        dep.target, dep.loop = job, Loop()
        dep.origin.dependents.add(dep)
        dep.check()
        return job, dep

    def run_job(jid, cnt, dur):
        done = 0
        job, dep = new_job(jid, cnt, 0)
        while done < reps and time.time() < deadline:
            if not job.ready.wait(0.4):
                # bounded fallback so that the capacity run does not hang on a lost notification;
                # counted: every rescue is a notification the scheduler would have waited for
                before = dep.currentstatus
                dep.check()
                if before != DependencyStatus.OK and dep.currentstatus == DependencyStatus.OK:
                    with slock:
                        stats["rescued"] += 1
                if dep.currentstatus != DependencyStatus.OK:
                    continue
            job.ready.clear()
            if dep.currentstatus != DependencyStatus.OK:
                continue
            lockpath = job.basepath.with_suffix(".lock")
            pidpath = job.basepath.with_suffix(".pid")
            locks = Locks()
            locks.acquire()
            proc = None
            with fasteners.InterProcessLock(lockpath):
                try:
                    locks.append(dep.lock().acquire())
                except LockError:
                    dep.check()
                    locks.release()
                    with slock:
                        stats["aborts"] += 1
                    continue
                except Exception:
                    locks.release()
                    with slock:
                        stats["other_exc"] += 1
                    time.sleep(0.05)
                    job.ready.set()
                    continue
                proc = subprocess.Popen([sys.executable, "-c", CHILD, str(root / "log"), job.identifier, str(cnt), str(dur)],
                                        start_new_session=True)
                pidpath.write_text(json.dumps({"type": "local", "pid": proc.pid}))
            try:
                proc.wait(timeout=max(1.0, deadline - time.time() + 5))
            except subprocess.TimeoutExpired:
                proc.kill()
            try:
                pidpath.unlink()
            except FileNotFoundError:
                pass
            locks.release()
            done += 1
            with slock:
                stats["runs"] += 1
            if done < reps:
                job, dep = new_job(jid, cnt, done)
        if done < reps:
            with slock:
                stats["unfinished"] += 1

    threads = [threading.Thread(target=run_job, args=(i, c, d), daemon=True) for i, (c, d) in enumerate(jobs)]
    for t in threads:
        t.start()
    for t in threads:
        t.join(max(0.1, deadline - time.time() + 8))
    stats["observer_alive"] = ipcom().observer.is_alive()
    print(json.dumps(stats))
    sys.stdout.flush()
    os._exit(0)


def run_stress(sc):
    root = Path(tempfile.mkdtemp(prefix="xpmverif-toks-", dir=sc.get("scratch")))
    try:
        total = sc["total"]
        duration = sc.get("duration", 12)
        deadline = time.time() + duration
        procs = []
        env = dict(os.environ)
        for idx, jobs in enumerate(sc["workers"]):
            procs.append(subprocess.Popen(
                [sys.executable, "-W", "ignore", __file__, "worker", str(root), str(idx), str(total), json.dumps(jobs),
                 str(deadline), str(sc.get("reps", 4))], stdout=subprocess.PIPE, stderr=subprocess.DEVNULL, env=env, text=True))
        stats = []
        for p in procs:
            try:
                out, _ = p.communicate(timeout=duration + 25)
                stats.append(json.loads(out.strip().splitlines()[-1]) if out.strip() else dict(error="no output"))
            except subprocess.TimeoutExpired:
                p.kill()
                stats.append(dict(error="worker timeout"))
            except Exception as e:  # noqa
                stats.append(dict(error="worker: %s" % e))
        time.sleep(0.5)
        events = []
        log = root / "log"
        if log.exists():
            for line in log.read_text().splitlines():
                kind, jid, cnt, t = line.split()
                events.append((float(t), 0 if kind == "end" else 1, kind, jid, int(cnt)))
        events.sort()
        cur, peak, peak_at = 0, 0, None
        running = {}
        for t, _, kind, jid, cnt in events:
            if kind == "start":
                cur += cnt
                running[jid] = cnt
            else:
                cur -= cnt
                running.pop(jid, None)
            if cur > peak:
                peak, peak_at = cur, (t, dict(running))
        left = sorted(f.name for f in (root / "tok").glob("*.token")) if (root / "tok").is_dir() else []
        return dict(total=total, peak=peak, peak_at=peak_at, tasks=sum(1 for e in events if e[2] == "start"),
                    stats=stats, leftover_files=left, log=[list(e[2:]) + [round(e[0], 4)] for e in events][:400])
    finally:
        shutil.rmtree(root, ignore_errors=True)


if __name__ == "__main__":
    if len(sys.argv) > 1 and sys.argv[1] == "worker":
        worker(sys.argv[2], int(sys.argv[3]), int(sys.argv[4]), json.loads(sys.argv[5]), float(sys.argv[6]), int(sys.argv[7]))
