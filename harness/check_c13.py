"""C13 - runtime objects mirror the configuration graph and are initialised once."""
import copy
import json
from concurrent.futures import ThreadPoolExecutor

from vcommon import Check, ROOT, main_wrapper, run_impl, glist, gnat, gz

# declared parameters, declaration order, with their defaults
SHAPE = {
    "N": ["v", "c", "c2", "l", "d", "ll"],
    "M": ["v", "c"],
    "P": ["v", "c"],
    "T": ["v", "c", "c2", "l", "d"],
}
KEYS = ["a", "b", "k0", "0", "x.y", "é"]
# classes of vpk_c13 (index = `cls` of the model's node); a disguised class has the parameters of its base
# and objects that are falsy (empty container / __bool__ False) or equal by content
CLASS_ORDER = ["N", "M", "P", "T", "NZ", "NQ", "MB", "PZ", "PB", "PQ", "TZ"]
BASE = dict(N="N", M="M", P="P", T="T", NZ="N", NQ="N", MB="M", PZ="P", PB="P", PQ="P", TZ="T")
VARIANTS = dict(N=["NZ", "NQ"], M=["MB"], P=["PZ", "PB", "PQ"], T=["TZ"])
DISGUISE = dict(NZ="empty", NQ="by-content", MB="false", PZ="empty", PB="false", PQ="by-content", TZ="empty")


def default(f):
    return dict(v=dict(t="int", v=0), c=dict(t="none"), c2=dict(t="none"), l=dict(t="list", v=[]),
                d=dict(t="dict", v=[]), ll=dict(t="list", v=[]))[f]


# ------------------------------------------------------------------ generator
def gen_case(rng):
    n_free = rng.choice([0, 1, 2, 3, 4, 5, 6, 8, 10, 12])
    # how often a class is replaced by a disguised one (objects falsy / equal by content)
    odd = rng.choice([0.0, 0.0, 0.25, 0.5, 1.0])

    def pick(base):
        return rng.choice(VARIANTS[base]) if rng.random() < odd else base

    nodes = [dict(cls=pick("T"), fields=[], pre=[], init=[])]
    for _ in range(n_free):
        nodes.append(dict(cls=pick(rng.choices(["N", "M", "P"], [5, 2, 3])[0]), fields=[], pre=[], init=[]))
    n = len(nodes)
    pres = [i for i in range(n) if BASE[nodes[i]["cls"]] == "P"]
    back = rng.choice([0.0, 0.0, 0.05, 0.15, 0.4])       # probability of an arbitrary (possibly backward) reference

    def ref(i):
        if n == 1:
            return dict(t="none")
        if rng.random() < back:
            # never the root: since 0cc66af a task that has not been submitted is refused as a value
            return dict(t="ref", n=rng.randrange(1, n))
        fwd = list(range(i + 1, n))
        return dict(t="ref", n=rng.choice(fwd)) if fwd else dict(t="none")

    def reflist(i):
        return dict(t="list", v=[r for r in (ref(i) for _ in range(rng.choice([0, 1, 1, 2, 3]))) if r["t"] == "ref"])

    for i, nd in enumerate(nodes):
        for f in SHAPE[BASE[nd["cls"]]]:
            val = default(f)
            if rng.random() < (0.8 if i == 0 else 0.55):
                if f == "v":
                    val = dict(t="int", v=rng.randrange(1, 100))
                elif f in ("c", "c2"):
                    val = ref(i)
                elif f == "l":
                    val = reflist(i)
                elif f == "d":
                    d = {}
                    for _ in range(rng.choice([0, 1, 2, 3])):
                        r = ref(i)
                        if r["t"] == "ref":
                            d[rng.choice(KEYS)] = r
                    val = dict(t="dict", v=[[k, x] for k, x in d.items()])
                elif f == "ll":
                    val = dict(t="list", v=[reflist(i) for _ in range(rng.choice([0, 1, 2]))])
            nd["fields"].append([f, val])
        cands = [p for p in pres if p > i] if rng.random() > back else pres
        if cands and rng.random() < (0.6 if i == 0 else 0.35):
            nd["pre"] = [rng.choice(cands) for _ in range(rng.choice([1, 1, 2, 3]))]
        nd["order"] = rng.sample(range(len(nd["fields"])), len(nd["fields"]))
    if pres and rng.random() < 0.5:
        k = rng.choice([1, 1, 2, 3])
        # mostly pairwise distinct, sometimes a repeated init task / one that is also a pre-task
        nodes[0]["init"] = (rng.sample(pres, min(k, len(pres))) if rng.random() < 0.85
                            else [rng.choice(pres) for _ in range(k)])
    first = None
    if n > 1 and rng.random() < 0.3:
        first = rng.randrange(1, n)
    # which of the other public loaders (as_instance=True) the graph also goes through
    return dict(root=0, first=first, nodes=nodes, loader=rng.choice(["state", "load", "taskdir"]))


def values_in(v):
    if v["t"] == "list":
        for x in v["v"]:
            yield from values_in(x)
    elif v["t"] == "dict":
        for _, x in v["v"]:
            yield from values_in(x)
    else:
        yield v


def succ(nd, with_init):
    out = [x["n"] for _, v in nd["fields"] for x in values_in(v) if x["t"] == "ref"]
    return out + list(nd["pre"]) + (list(nd["init"]) if with_init else [])


def reachable(nodes, root, with_init, stop=()):
    seen, todo = [], [root]
    while todo:
        i = todo.pop()
        if i in seen or i in stop:
            continue
        seen.append(i)
        todo.extend(succ(nodes[i], with_init))
    return set(seen)


def cyclic(nodes, root):
    color = {}

    def dfs(i):
        color[i] = 1
        for j in succ(nodes[i], True):
            if color.get(j) == 1 or (j not in color and dfs(j)):
                return True
        color[i] = 2
        return False
    return dfs(root)


# ------------------------------------------------------------------ Gallina rendering
def gstr(s):
    b = s.encode("utf-8")
    if all(32 <= x < 127 for x in b):
        return '(s "' + s.replace('"', '""') + '")'
    return "[" + ";".join(f"{x}%N" for x in b) + "]"


def gvalue(v):
    t = v["t"]
    if t == "none":
        return "VNone"
    if t == "int":
        return f"(VScalar {gz(v['v'])}%Z)"
    if t == "ref":
        return f"(VRef {gnat(v['n'])})"
    if t == "list":
        return "(VList " + glist(gvalue(x) for x in v["v"]) + ")"
    if t == "dict":
        return "(VDict " + glist(f"(F {gstr(k)} {gvalue(x)})" for k, x in v["v"]) + ")"
    raise ValueError(t)


def govalue(v):
    t = v["t"]
    if t == "none":
        return "ONone"
    if t == "int":
        return f"(OScalar {gz(v['v'])}%Z)"
    if t == "obj":
        return f"(OObj {gnat(max(v['n'], 0))})" if v["n"] >= 0 else "(OStr [])"
    if t == "list":
        return "(OList " + glist(govalue(x) for x in v["v"]) + ")"
    if t == "dict":
        return "(ODict " + glist(f"(A2 {gstr(k)} {govalue(x)})" for k, x in v["v"]) + ")"
    return "(OStr [])"      # something that is not one of the objects: never equal to the model's answer


def gnode(nd):
    return "(Build_node %s %s %s %s None false)" % (
        gnat(CLASS_ORDER.index(nd["cls"])), glist(f"(F {gstr(k)} {gvalue(v)})" for k, v in nd["fields"]),
        glist(gnat(x) for x in nd["pre"]), glist(gnat(x) for x in nd["init"]))


def gcall(e):
    if e["obj"] < 0:
        return "(Execute 999%nat)"      # an object that stands for no configuration: never in the model's log
    if e["k"] == "post":
        return f"(PostInit {gnat(e['obj'])} {glist(gstr(x) for x in e['set'])})"
    if e["k"] == "exec":
        return f"(Execute {gnat(e['obj'])})"
    return f"(Body {gnat(e['obj'])})"


def gobjs(objs):
    return glist("(Obs %s %s %s)" % (gnat(o["node"]), gnat(o["name"]),
                                    glist(f"(A2 {gstr(k)} {govalue(v)})" for k, v in o["attrs"])) for o in objs)


def g_case(c):
    a, b = c["raw"]["instance"], c["raw"]["params"]
    heap = glist(gnode(nd) for nd in c["nodes"])
    l = c["raw"]["loader"]
    ans = "(Build_answer %s %s %s %s %s %s %s %s %s)" % (
        gobjs(a["objects"]), glist(glist(gcall(e) for e in lg) for lg in a["logs"]),
        glist(gnat(max(x, 0)) for x in a["returned"]),
        gobjs(b["objects"]), glist(gcall(e) for e in b["log"]), glist(gnat(max(x, 0)) for x in b["order"]),
        gobjs(l["objects"]), glist(gcall(e) for e in l["log"]), "true" if l["with_init"] else "false")
    first = "None" if c.get("first") is None else f"(Some {gnat(c['first'])})"
    return f"(Case {heap} {gnat(c['root'])} {first} once sonce {ans})"


# ------------------------------------------------------------------ oracle (independent of the model)
def image(v):
    t = v["t"]
    if t == "ref":
        return dict(t="obj", n=v["n"])
    if t == "list":
        return dict(t="list", v=[image(x) for x in v["v"]])
    if t == "dict":
        return dict(t="dict", v=[[k, image(x)] for k, x in v["v"]])
    return v


def check_objects(tag, nodes, expected, objects, out, data):
    """exactly one object per expected configuration, wired like the graph"""
    got = {o["node"]: o for o in objects}
    if set(got) != set(expected) or len(objects) != len(got) or any(o["name"] != o["node"] for o in objects):
        out.append(dict(key=f"C13:{tag}:objects", what="not exactly one object per distinct configuration",
                        data=dict(data, expected=sorted(expected), objects=[(o["node"], o["name"]) for o in objects])))
        return
    for n in expected:
        want = [[k, image(v)] for k, v in nodes[n]["fields"]]
        if got[n]["attrs"] != want:
            out.append(dict(key=f"C13:{tag}:wiring", what="an object is not wired like its configuration",
                            data=dict(data, node=n, attrs=got[n]["attrs"], expected=want)))
            return


def check_posts(tag, nodes, expected, log, out, data):
    posts = [e for e in log if e["k"] == "post"]
    ids = [e["obj"] for e in posts]
    if sorted(ids) != sorted(expected):
        out.append(dict(key=f"C13:{tag}:post-init-once", what="__post_init__ not called exactly once per created object",
                        data=dict(data, posts=ids, expected=sorted(expected))))
        return
    for e in posts:
        if e["set"] != [k for k, _ in nodes[e["obj"]]["fields"]]:
            out.append(dict(key=f"C13:{tag}:post-init-early", what="__post_init__ called before all parameters of the object were set",
                            data=dict(data, node=e["obj"], set=e["set"])))
            return


def check_ran(tag, nodes, log, out, data):
    """a lightweight task / the task body runs on the object built from its configuration: every parameter set"""
    for e in log:
        if e["k"] != "post" and e["obj"] >= 0 and e["set"] != [k for k, _ in nodes[e["obj"]]["fields"]]:
            out.append(dict(key=f"C13:{tag}:task-ran-blank",
                            what="a task ran on an object whose parameters were not (all) set",
                            data=dict(data, node=e["obj"], kind=e["k"], set=e["set"])))
            return


def init_findings(tag, log, objects):
    """the parameter-less __init__ of the runtime objects: exactly one per object, before the __post_init__ of
    that object, and before the __post_init__ of any object one of whose attributes names it"""
    out = []
    pos_init, pos_post = {}, {}
    for i, e in enumerate(log):
        if e["obj"] < 0:
            continue
        if e["k"] == "init":
            pos_init.setdefault(e["obj"], []).append(i)
        elif e["k"] == "post":
            pos_post.setdefault(e["obj"], i)
    names = {}
    for o in objects:
        refs = []

        def walk(v):
            if v["t"] == "obj":
                refs.append(v["n"])
            elif v["t"] == "list":
                for x in v["v"]:
                    walk(x)
            elif v["t"] == "dict":
                for _, x in v["v"]:
                    walk(x)
        for _, v in o["attrs"]:
            walk(v)
        names[o["node"]] = refs
    for n, i in pos_post.items():
        if len(pos_init.get(n, [])) != 1 or pos_init[n][0] > i:
            out.append(dict(key=f"C13:{tag}:init-count", what="a runtime object was not initialised (__init__) exactly once "
                            "before its __post_init__", node=n, inits=pos_init.get(n, []), post=i))
            break
    for n, i in pos_post.items():
        late = [m for m in names.get(n, []) if m in pos_post and pos_init.get(m) and pos_init[m][-1] > i]
        if late:
            out.append(dict(key=f"C13:{tag}:init-after-use", what="__post_init__ of an object ran before the __init__ of an "
                            "object it refers to (whatever it did to that object is wiped by the later __init__)",
                            node=n, refers_to=late))
            break
    return out


def split_inits(raw):
    """takes the __init__ events out of the logs (the model has none) and keeps what the oracle says about them"""
    found = []
    a, b, l = raw["instance"], raw["params"], raw["loader"]
    for lg in a["logs"]:
        found += init_findings("instance", lg, a["objects"])
    found += init_findings("params", b["log"], b["objects"])
    found += init_findings("loader", l["log"], l["objects"])
    a["logs"] = [[e for e in lg if e["k"] != "init"] for lg in a["logs"]]
    b["log"] = [e for e in b["log"] if e["k"] != "init"]
    l["log"] = [e for e in l["log"] if e["k"] != "init"]
    raw["init_findings"] = found


def oracle(case):
    out = []
    nodes = case["nodes"]
    small = dict(root=case["root"], first=case.get("first"), nodes=nodes, loader=case.get("loader"))
    a, b = case["raw"]["instance"], case["raw"]["params"]
    nodes_a = [dict(nd, init=[]) for nd in nodes]        # instance() without submit: no init task attached
    # ---- instance(): one call after the other on one store
    roots = ([case["first"]] if case.get("first") is not None else []) + [case["root"]]
    done, executed = set(), set()
    for r, log, ret in zip(roots, a["logs"], a["returned"]):
        data = dict(case=small, call=r)
        created = reachable(nodes_a, r, False, stop=done)
        check_posts("instance", nodes_a, created, log, out, data)
        want_all = set()
        for n in created:
            want_all.update(nodes_a[n]["pre"])
        # exactly once for the store: what an earlier call on the same store executed is not executed again
        want = want_all - executed
        execs = [e["obj"] for e in log if e["k"] == "exec"]
        if sorted(execs) == sorted(want):
            pass
        elif sorted(execs) == sorted(want_all):
            out.append(dict(key="C13:instance:pretask-twice-shared-store",
                            what="with one ObjectStore given to two instance() calls, a pre-task attached to configurations "
                                 "created by both calls was executed by both (one runtime object, execute() twice)",
                            data=dict(data, executed=execs, already_executed=sorted(want_all & executed))))
        else:
            out.append(dict(key="C13:instance:pretasks-once", what="pre-tasks not executed exactly once each",
                            data=dict(data, executed=execs, expected=sorted(want))))
        executed |= set(execs)
        check_ran("instance", nodes_a, log, out, data)
        kinds = [e["k"] for e in log]
        if "exec" in kinds and "post" in kinds[kinds.index("exec"):]:
            out.append(dict(key="C13:instance:order", what="a pre-task ran before an object was initialised", data=data))
        if ret != r:
            out.append(dict(key="C13:instance:returned", what="instance() did not return the object of its configuration", data=data))
        done |= created
    check_objects("instance", nodes_a, done, a["objects"], out, dict(case=small))
    # ---- parameter file
    data = dict(case=small, how=b["how"])
    expected = reachable(nodes, case["root"], True)
    check_objects("params", nodes, expected, b["objects"], out, data)
    check_posts("params", nodes, expected, b["log"], out, data)
    check_ran("params", nodes, b["log"], out, data)
    pre = set()
    for n in expected:
        pre.update(nodes[n]["pre"])
    init = nodes[case["root"]]["init"]
    seq = [(e["k"], e["obj"]) for e in b["log"] if e["k"] != "post"]
    execs = [o for k, o in seq if k == "exec"]
    kinds = [e["k"] for e in b["log"]]
    ok_order = (seq[-1:] == [("body", case["root"])] and [k for k, _ in seq].count("body") == 1
                and "post" not in kinds[len([k for k in kinds if k == "post"]):])
    # every lightweight task exactly once: the pre-tasks (any order), then the init tasks that have not run yet,
    # in the order they are first listed, then the body
    want_init = []
    for x in init:
        if x not in pre and x not in want_init:
            want_init.append(x)
    npre = len(pre)
    if ok_order and sorted(execs[:npre]) == sorted(pre) and execs[npre:] == want_init:
        pass
    elif ok_order and sorted(execs[:npre]) == sorted(pre) and execs[npre:] == init:
        # every entry of the init-task list was executed: some lightweight task ran twice
        out.append(dict(key="C13:params:init-task-twice",
                        what="a lightweight task listed twice as init task, or both attached as pre-task and given as "
                             "init task, was executed twice when the task was loaded from its parameter file",
                        data=dict(data, executed=seq, pretasks=sorted(pre), init=init)))
    else:
        out.append(dict(key="C13:params:sequence",
                        what="not: every pre-task once, then the init tasks in order, then the body",
                        data=dict(data, executed=seq, pretasks=sorted(pre), init=init)))
    # ---- the other loaders that return runtime objects: from_state_dict / load / from_task_dir (as_instance=True)
    l = case["raw"]["loader"]
    data = dict(case=small, loader=l["how"])
    nodes_l = nodes if l["with_init"] else nodes_a
    expected = reachable(nodes_l, case["root"], True)
    check_objects("loader", nodes_l, expected, l["objects"], out, data)
    check_posts("loader", nodes_l, expected, l["log"], out, data)
    check_ran("loader", nodes_l, l["log"], out, data)
    if l["returned"] != case["root"]:
        out.append(dict(key="C13:loader:returned", what="the loader did not return the object of the configuration", data=data))
    pre_l = set()
    for n in expected:
        pre_l.update(nodes_l[n]["pre"])
    ran = [e["obj"] for e in l["log"] if e["k"] in ("exec", "body")]
    if len(set(ran)) != len(ran) or "body" in [e["k"] for e in l["log"]]:
        out.append(dict(key="C13:loader:sequence", what="a lightweight task ran twice, or the task body ran, while loading",
                        data=dict(data, executed=ran)))
    elif pre_l and not ran:
        out.append(dict(key="C13:loaders:pre-tasks-not-run",
                        what="from_state_dict / load / from_task_dir with as_instance=True return runtime objects whose "
                             "pre-tasks were never executed (from_task_dir: nor the init tasks of the task)",
                        data=dict(data, pretasks=sorted(pre_l), init=nodes_l[case["root"]]["init"])))
    for f in case["raw"].get("init_findings", []):
        out.append(dict(key=f["key"], what=f["what"], data=dict(case=small, detail={k: v for k, v in f.items()
                                                                                       if k not in ("key", "what")})))
    return out


# ------------------------------------------------------------------ shrinking
def reductions(case):
    res = []

    def emit(mut):
        c2 = copy.deepcopy(dict(root=case["root"], first=case.get("first"), nodes=case["nodes"], loader=case.get("loader")))
        mut(c2)
        for nd in c2["nodes"]:
            nd.pop("order", None)
        res.append(c2)

    if case.get("first") is not None:
        emit(lambda c: c.update(first=None))
    for i, nd in enumerate(case["nodes"]):
        for f, (name, v) in enumerate(nd["fields"]):
            if v != default(name):
                emit(lambda c, i=i, f=f, name=name: c["nodes"][i]["fields"].__setitem__(f, [name, default(name)]))
            if v["t"] in ("list", "dict"):
                for k in range(len(v["v"])):
                    emit(lambda c, i=i, f=f, k=k: c["nodes"][i]["fields"][f][1]["v"].pop(k))
        for which in ("pre", "init"):
            for k in range(len(nd[which])):
                emit(lambda c, i=i, which=which, k=k: c["nodes"][i][which].pop(k))
    return res


def shrink(c, case, key):
    cur = case
    for _ in range(12):
        cands = reductions(cur)
        if not cands:
            break
        r = run_impl("drive_c13.py", dict(workdir=str(c.scratch() / "shrink"), cases=cands), timeout=600)
        found = None
        for cand, a in zip(cands, r["answers"]):
            if "error" in a:
                continue
            split_inits(a)
            cand["raw"] = a
            if any(v["key"] == key for v in oracle(cand)):
                found = cand
                break
        if found is None:
            break
        cur = found
    return cur


# ------------------------------------------------------------------ driver runs
def run_cases(c, cases):
    nproc = 12
    chunks = [cases[i::nproc] for i in range(nproc)]
    wd = c.scratch()

    def one(k):
        if not chunks[k]:
            return dict(answers=[])
        return run_impl("drive_c13.py", dict(workdir=str(wd / f"w{k}"), cases=chunks[k]), timeout=3000)

    with ThreadPoolExecutor(max_workers=nproc) as ex:
        res = list(ex.map(one, range(nproc)))
    for k, r in enumerate(res):
        for case, a in zip(chunks[k], r["answers"]):
            case["raw"] = a
    return next(r["probe"] for r in res if r.get("probe") is not None)


HEADER = ("From Coq Require Import ZArith NArith List Bool String.\n"
          "From XV Require Import model.Walk model.Instance corr.InstanceCorr.\n"
          "Import ListNotations.\nOpen Scope string_scope.\n")


def run(c: Check):
    c.rule = ("random heaps (root task + up to 12 configurations / lightweight tasks) over vpk_c13: references "
              "shared at random, back edges with probability 0-0.4 per reference (cycles), lists, dicts, nested "
              "lists, pre-tasks at any node (shared, repeated), init tasks at the root (15% with repetitions / "
              "overlap with pre-tasks), 30% with a first instance() call on another node sharing the ObjectStore; "
              "classes replaced with probability 0/0.25/0.5/1 per case by disguised ones whose objects are falsy "
              "(__len__ 0, __bool__ False) or equal/hashed by content (NZ NQ MB PZ PB PQ TZ); "
              "a directed probe (init_tasks=[p, p]) tells whether the loader runs each lightweight task once, one whether "
              "an ObjectStore runs a pre-task once, one creates and drops 300 configurations on one store; each case also "
              "goes through one of from_state_dict / load / from_task_dir (as_instance=True); "
              "each case goes through instance() and through the parameter file; non-trivial = a shared "
              "configuration or a cycle, and at least one pre-task; distinct by heap")
    c.build()
    c.props()
    n = 1500 if c.quick else 12000
    cases = []
    if c.replay:
        rp = json.load(open(c.replay))["replay"]
        if "case" in rp:
            cases.append(rp["case"])
        n = 0
    gold = ROOT / "golden" / "c13.json"
    if gold.exists():
        cases.extend(json.load(open(gold)))
    for _ in range(n):
        cases.append(gen_case(c.rng))
    probe = run_cases(c, cases)
    once = bool(probe["once"])
    c.count("tree:loader-runs-" + ("each-lightweight-task-once" if once else "every-init-task-entry"))
    c.extra["probe"] = probe
    sonce = bool(probe["store_once"])
    c.count("tree:store-runs-a-pre-task-" + ("once" if sonce else "once-per-call"))
    header = (HEADER + "Definition once := %s.\n" % ("true" if once else "false")
              + "Definition sonce := %s.\n" % ("true" if sonce else "false"))
    if probe.get("id_reuse"):
        c.violation("C13:instance:store-returns-object-of-dead-configuration",
                    "an ObjectStore is keyed by id(config) and does not keep the configuration alive: a new configuration "
                    "that gets the address of a dead one receives its runtime object (two configurations, one object; no "
                    "__post_init__, parameters of the dead one)",
                    dict(scenario="store = ObjectStore(); for i: M(v=i+1).instance(objects=store)", observed=probe["id_reuse"]))
    known_open = {k["key"] for k in c.known() if k.get("property") == "C13" and k.get("status") == "open"}
    good = []
    for case in cases:
        a = case["raw"]
        c.evaluations += 1
        if "error" in a:
            c.count("driver-error")
            c.obligations.append(dict(name=f"driver:case{len(good)}", kind="corr", ok=False,
                                      detail=a["error"] + " " + json.dumps(dict(nodes=case["nodes"]))[:300]))
            continue
        split_inits(a)
        good.append(case)
        c.count("loader:" + a["loader"]["how"])
        nodes = case["nodes"]
        reach = reachable(nodes, case["root"], True)
        indeg = {}
        for i in reach:
            for j in set(succ(nodes[i], True)):
                indeg[j] = indeg.get(j, 0) + 1
        shared = any(v > 1 for v in indeg.values())
        cyc = cyclic(nodes, case["root"])
        haspre = any(nodes[i]["pre"] for i in reach)
        c.count(f"nodes={len(nodes)}")
        c.count(f"reachable={len(reach)}")
        c.count("cyclic" if cyc else "acyclic")
        c.count("shared" if shared else "tree")
        c.count("params-via:" + a["params"]["how"])
        c.count(f"init={len(nodes[case['root']]['init'])}")
        c.count("first-call" if case.get("first") is not None else "single-call")
        c.count(f"pretask-holders={sum(1 for i in reach if nodes[i]['pre'])}")
        kinds = {DISGUISE.get(nodes[i]["cls"], "plain") for i in reach}
        c.count("objects:" + ("plain-only" if kinds == {"plain"} else "some-disguised"))
        for i in reach:
            c.count("cls:" + nodes[i]["cls"])
        reach_a = reachable(nodes, case["root"], False)
        pre_a = {p for i in reach_a for p in nodes[i]["pre"]}
        if any(DISGUISE.get(nodes[p]["cls"]) in ("empty", "false") for p in pre_a):
            c.count("falsy-pretask")
        if case.get("first") is not None and any(
                DISGUISE.get(nodes[i]["cls"]) in ("empty", "false")
                for i in reach_a & reachable(nodes, case["first"], False)):
            c.count("falsy-object-met-by-two-instance-calls")
        if (shared or cyc) and haspre:
            c.nontrivial.add(json.dumps(nodes, sort_keys=True))
        for v in oracle(case):
            if not any(x["key"] == v["key"] for x in c.violations):
                if not c.replay and v["key"] not in known_open:
                    small = shrink(c, case, v["key"])
                    v = next(x for x in oracle(small) if x["key"] == v["key"])
                c.violation(v["key"], v["what"], v["data"])
    c.samples = [dict(nodes=x["nodes"], first=x.get("first"), instance_logs=x["raw"]["instance"]["logs"],
                      params_log=x["raw"]["params"]["log"]) for x in good[:2]]
    bad = c.corr_shards("corr", header, good, g_case, "check_case", shard=100)
    if bad:
        # diagnosis: do the disagreeing cases match the variant that calls __post_init__ before the attribute copy?
        sub = [good[i] for i in bad[:200]]
        saved = list(c.obligations)
        bad_pf = c.corr_shards("diag", header, sub, g_case, "check_case_post_first", shard=100)
        c.obligations = saved
        c.extra["disagreeing_total"] = len(bad)
        c.extra["disagreeing_cases_match_post_init_before_copy"] = len(sub) - len(bad_pf)
    c.extra["disagreeing_cases"] = [dict(nodes=good[i]["nodes"], first=good[i].get("first"), raw=good[i]["raw"])
                                    for i in bad[:3]]
    c.level_assumptions = [
        "object identity is observed through id() of live objects; the ObjectStore given to instance() and the "
        "dictionary returned by load_objects (captured by a wrapper that does not alter it) name the objects",
        "cyclic graphs do not go through submit() (RecursionError in updatedependencies): their definitions are "
        "taken from __get_objects__ directly and loaded with the same loader; acyclic ones go through "
        "submit(run_mode=GENERATE_ONLY), params.json and experimaestro.run.run()",
        "an init task listed twice, or also attached as a pre-task, is executed twice (modelled; outside the "
        "hypotheses of C13_params_each_once); with a shared ObjectStore a pre-task attached to configurations "
        "created by two instance() calls runs in both calls"]


if __name__ == "__main__":
    main_wrapper("C13", run)
