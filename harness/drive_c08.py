"""Implementation driver for C08 (token capacity): see tokctl.py (shared with C09)."""
from tokctl import main

if __name__ == "__main__":
    main()
