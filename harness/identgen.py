"""Generators of configuration-graph descriptions over harness/vpk/schema.py and the
renderer of exported heaps to Gallina literals (shared by C01, C02, C03, C12, C14, C20).
Pure Python: no experimaestro import."""
import copy
import json
import struct

from vcommon import gz, gnat, glist, gopt, gbool, gbytes

INTS = [0, 1, -1, 2, 3, 7, 42, 255, 256, 2 ** 31, -2 ** 63, 2 ** 63 - 1]
FLOATS = [0.0, -0.0, 1.0, 1.5, 0.5, -2.25, 3.0, 1e300, 5e-324, float("inf")]
STRS = ["", "a", "b", "abc", "a b", "x:y", "é", "日本", "name", "k1", "0", "zz", "caf\u00e9", "cafe\u0301"]
KEYS = ["a", "b", "c", "k", "k1", "k2", "é", "0", "x", "aa", ""]
PATHS = ["/tmp/x", "rel/y", "/a/b/c.txt"]
COLORS = ["RED", "GREEN", "BLUE"]
SHAPES = ["DOT", "BOX"]

TASKS = {"TaskA", "TaskOut", "NewT", "OldT", "TaskSelf", "TaskSelfG"}
LIGHT = {"Pre", "Init"} | TASKS

# class -> {slot: kind}
SLOTS = {
    "Leaf": dict(i="int!", f="float", s="str", b="bool", oi="oint", os_="ostr", e="Color", sh="oShape", m="int",
                 op="str", mp="opath", od="oint"),
    "Inner": dict(x="int", name="str", c="ocfg", d="ocfg", mc="ocfg", oc="ocfg"),
    "Bag": dict(li="lint", lf="olfloat", ls="olstr", lc="lcfg", dc="dcfg", di="odint", ds="odstr", ll="ollint",
                dd="oddint", ld="oldint", dl="odlcfg", mlc="lcfg", lp="olpath", le="olColor", ddd="odddint",
                llc="llcfg", dlc="dlcfg"),
    "Req": dict(a="int!", b="str!", c="cfg!"),
    "TaskA": dict(x="int", c="ocfg", l="lcfg"),
    "TaskOut": dict(x="int", c="ocfg"),
    "Pre": dict(v="int", c="ocfg"),
    "Init": dict(v="int", w="int"),
    "NewL": dict(i="int", c="ocfg"),
    "OldL": dict(i="int", c="ocfg"),
    "NewT": dict(x="int", c="ocfg"),
    "OldT": dict(x="int", c="ocfg"),
    "V1": dict(x="int!", c="ocfg"),
    "V2": dict(x="int!", c="ocfg", y="int", aa="str", z="str", oz="ocfg", n0="int", fl="bool", em="str", el="lint", fz="float", iz="int"),
    "K1": dict(x="int"), "K2": dict(x="int"),
    "W1": dict(x="int", c="ocfg"), "W2": dict(x="int", c="ocfg"),
    "S2": dict(a="str!", b="str"),
    "EH": dict(lv="Level", md="oMode", x="int", kd="oEHKind"),
    "GenC": dict(x="int"),
    "TaskSelf": dict(x="int", c="cfg!"),
    "TaskSelfG": dict(x="int", c="cfg!"),
    "Leaf2": dict(i="int!", s="str"),
    "GenV": dict(x="int"),                  # gs is generated (an int, not a path)       # vpk.schema2.Leaf: same class NAME as Leaf, another module
}
CLASS_WEIGHTS = [("Leaf", 6), ("Inner", 7), ("Bag", 5), ("Req", 1), ("TaskA", 2), ("TaskOut", 1), ("Pre", 1),
                 ("Init", 1), ("NewL", 1), ("OldL", 1), ("NewT", 1), ("OldT", 1), ("V1", 1), ("V2", 1), ("K1", 1), ("W1", 1), ("S2", 1), ("EH", 2), ("TaskSelf", 2), ("Leaf2", 3), ("GenV", 3), ("GenC", 2)]
# slots whose declaration is ignored (Meta/Option) -- used by the neutral-edit generator
IGNORED = {"Leaf": {"m", "op", "mp"}, "Inner": {"mc", "oc"}, "Bag": {"mlc", "lp"}, "Init": {"w"}, "V2": {"z"}}
DEFAULTS = {("Leaf", "f"): 1.5, ("Leaf", "s"): "a", ("Leaf", "b"): False, ("Leaf", "e"): "RED", ("Inner", "x"): 0,
            ("Inner", "name"): "", ("TaskA", "x"): 0, ("TaskOut", "x"): 0, ("Pre", "v"): 0, ("Init", "v"): 0,
            ("NewL", "i"): 0, ("OldL", "i"): 0, ("NewT", "x"): 0, ("OldT", "x"): 0, ("V2", "y"): 3, ("V2", "aa"): "dflt", ("V2", "n0"): 0, ("V2", "fl"): False, ("V2", "em"): "", ("Leaf", "od"): 5,
            ("K1", "x"): 0, ("K2", "x"): 0, ("W1", "x"): 0, ("W2", "x"): 0, ("S2", "b"): "", ("TaskSelf", "x"): 0, ("TaskSelfG", "x"): 0, ("EH", "x"): 0, ("Leaf2", "s"): "a", ("GenV", "x"): 0, ("GenC", "x"): 0, ("V2", "fz"): 1.0, ("V2", "iz"): 2}


def vint(v):
    return {"t": "int", "v": v}


def vfloat(f):
    return {"t": "float", "hex": float(f).hex()}


def vstr(s):
    return {"t": "str", "v": s}


def vref(n):
    return {"t": "ref", "n": n}


NONE = {"t": "none"}


class Gen:
    def __init__(self, rng, malformed=False):
        self.rng = rng
        self.malformed = malformed

    def scalar(self, kind):
        r = self.rng
        if kind == "int":
            pool = INTS + ([2 ** 63, -2 ** 63 - 1] if self.malformed else [])
            return vint(r.choice(pool))
        if kind == "float":
            return vfloat(r.choice(FLOATS)) if r.random() < 0.8 else vint(r.choice([0, 1, 2, 3]))
        if kind == "str":
            pool = STRS + (["x\x03b\x05\x03y", "a\x00", "\x07"] if self.malformed else [])
            return vstr(r.choice(pool))
        if kind == "bool":
            return {"t": "bool", "v": r.random() < 0.5}
        if kind == "Color":
            return {"t": "enum", "e": "Color", "m": r.choice(COLORS)}
        if kind == "Shape":
            return {"t": "enum", "e": "Shape", "m": r.choice(SHAPES)}
        if kind == "Level":
            return {"t": "enum", "e": "Level", "m": r.choice(["LOW", "HIGH"])}
        if kind == "EHKind":
            return {"t": "enum", "e": "EHKind", "m": r.choice(["KA", "KB"])}
        if kind == "Mode":
            return {"t": "enum", "e": "Mode", "m": r.choice(["FAST", "SLOW"])}
        if kind == "path":
            return {"t": "path", "v": r.choice(PATHS)}
        raise ValueError(kind)

    def cfgref(self, avail):
        return vref(self.rng.choice(avail))

    def value(self, kind, avail):
        """avail: node indices that may be referenced; returns None to leave the slot unset"""
        r = self.rng
        req = kind.endswith("!")
        kind = kind.rstrip("!")
        if kind.startswith("o") and kind not in ("ocfg",) and not req:
            if r.random() < 0.35:
                return NONE if r.random() < 0.5 else None
            kind = kind[1:]
        if kind == "ocfg":
            if not avail or r.random() < 0.3:
                return NONE if r.random() < 0.3 else None
            return self.cfgref(avail)
        if kind == "cfg":
            return self.cfgref(avail) if avail else None
        if kind.startswith("l") and kind != "lcfg":
            inner = kind[1:]
            return {"t": "list", "v": [self.value(inner + "!", avail) for _ in range(r.choice([0, 1, 1, 2, 3]))]}
        if kind == "lcfg":
            if not avail:
                return {"t": "list", "v": []}
            return {"t": "list", "v": [self.cfgref(avail) for _ in range(r.choice([0, 1, 2, 2, 3]))]}
        if kind.startswith("d"):
            inner = kind[1:]
            keys = r.sample(KEYS, r.choice([0, 1, 2, 2, 3]))
            if inner == "cfg":
                if not avail:
                    return {"t": "dict", "v": []}
                return {"t": "dict", "v": [[k, self.cfgref(avail)] for k in keys]}
            return {"t": "dict", "v": [[k, self.value(inner + "!", avail)] for k in keys]}
        return self.scalar(kind)

    def node(self, cls, avail):
        kw = []
        names = list(SLOTS[cls].items())
        self.rng.shuffle(names)          # keyword order is part of what is varied
        for name, kind in names:
            if name == "ddd" and not self.malformed:
                continue            # three-level dicts are outside the claimed domain (C03)
            req = kind.endswith("!")
            if not req and self.rng.random() < 0.45:
                continue
            v = self.value(kind, avail)
            if v is None:
                if req:
                    return None
                continue
            kw.append([name, v])
        return dict(cls=cls, kw=kw)

    def graph(self, nmin=2, nmax=9, p_cycle=0.3, p_meta=0.25, p_pre=0.3, p_out=0.5, p_init=0.3):
        r = self.rng
        n = r.randint(nmin, nmax)
        classes = [c for c, w in CLASS_WEIGHTS for _ in range(w)]
        nodes, actions = [], []
        while len(nodes) < n:
            cls = r.choice(classes) if nodes else r.choice(["Leaf", "Leaf", "Inner", "Bag", "Pre"])
            # (a task that has not been submitted is refused as a value - /repo 0cc66af; submitted tasks and their
            # outputs enter the graphs through "out" values)
            nd = self.node(cls, [j for j in range(len(nodes)) if nodes[j]["cls"] not in TASKS])
            if nd is not None:
                nodes.append(nd)
        cfgslots = lambda c: [s for s, k in SLOTS[c].items() if k == "ocfg"]
        # back edges (cycles) and forward sharing through later assignments
        if r.random() < p_cycle:
            # genuine cycles first: a back edge i -> j (j later) closes a cycle when j already reaches i; cycles of
            # several nodes give cycle references at distance >= 2 (a self reference is at distance 1)
            def kwrefs(v):
                if v["t"] == "ref":
                    return [v["n"]]
                if v["t"] == "list":
                    return [m for x in v["v"] for m in kwrefs(x)]
                if v["t"] == "dict":
                    return [m for _, x in v["v"] for m in kwrefs(x)]
                return []
            succ = {i: [m for _, v in nodes[i]["kw"] for m in kwrefs(v)] for i in range(n)}

            def reach(j):
                seen, todo = set(), [j]
                while todo:
                    m = todo.pop()
                    if m not in seen:
                        seen.add(m)
                        todo.extend(succ[m])
                return seen
            closing = [(i, j) for j in range(n) for i in reach(j) if i < j and cfgslots(nodes[i]["cls"])
                       and nodes[j]["cls"] not in TASKS]
            for _ in range(r.choice([1, 1, 2, 3])):
                if closing and r.random() < 0.7:
                    i, j = r.choice(closing)
                    actions.append(dict(a="set", n=i, name=r.choice(cfgslots(nodes[i]["cls"])), v=vref(j)))
                    continue
                i = r.randrange(n)
                ss = cfgslots(nodes[i]["cls"])
                tgt = [j for j in range(i, n) if nodes[j]["cls"] not in TASKS]
                if ss and tgt:
                    actions.append(dict(a="set", n=i, name=r.choice(ss), v=vref(r.choice(tgt))))
        # meta flags
        for i in range(n):
            if r.random() < p_meta / 2:
                actions.append(dict(a="meta", n=i, flag=r.choice([True, True, False, None])))
        # pre-tasks
        light = [i for i in range(n) if nodes[i]["cls"] in LIGHT]
        if light and r.random() < p_pre:
            for _ in range(r.choice([1, 1, 2])):
                actions.append(dict(a="pre", n=r.randrange(n), ids=r.sample(light, min(len(light), r.choice([1, 1, 2])))))
        # tags (outside the signature)
        if r.random() < 0.2:
            # (falsy tag values are tags too)
            actions.append(dict(a="tag", n=r.randrange(n), k=r.choice(["t", "t", "u"]), v=r.choice([1, "x", 0, "", False, 0.0, 2.5])))
        # embedded task outputs: holder slot := output of a submitted task
        tasks = [i for i in range(n) if nodes[i]["cls"] in TASKS]
        for t in tasks:
            if r.random() < p_out:
                holders = [i for i in range(t + 1, n) if cfgslots(nodes[i]["cls"])]
                if holders:
                    i = r.choice(holders)
                    actions.append(dict(a="set", n=i, name=r.choice(cfgslots(nodes[i]["cls"])), v={"t": "out", "n": t}))
        # explicit submits (with init tasks)
        for t in tasks:
            if r.random() < 0.5:
                init = r.sample(light, min(len(light), r.choice([0, 1, 2]))) if (light and r.random() < p_init) else []
                init = [i for i in init if i != t]
                actions.append(dict(a="submit", n=t, init=init))
        return dict(nodes=nodes, actions=actions)

    def history(self, nnodes, length=None, seal=True):
        r = self.rng
        ops = []
        for _ in range(length or r.randint(2, 7)):
            k = r.choices(["full", "raw", "seal"], [5, 3, 2 if seal else 0])[0]
            ops.append(dict(op=k, n=r.randrange(nnodes)))
        return ops


def permute_desc(rng, desc):
    """Same abstract graph, other keyword order and dict insertion order."""
    d = copy.deepcopy(desc)

    def pv(v):
        if v["t"] == "dict":
            rng.shuffle(v["v"])
            for _, x in v["v"]:
                pv(x)
        elif v["t"] == "list":
            for x in v["v"]:
                pv(x)

    for nd in d["nodes"]:
        rng.shuffle(nd["kw"])
        for _, v in nd["kw"]:
            pv(v)
    for a in d["actions"]:
        if a["a"] == "set":
            pv(a["v"])
    return d


# ------------------------------------------------------------------ Gallina
def g_value(v):
    t = v["t"]
    if t == "none":
        return "VNone"
    if t == "int":
        return f"(VInt {gz(v['v'])})"
    if t == "bool":
        return f"(VBool {gbool(v['v'])})"
    if t == "float":
        return f"(VFloat {v['bits']}%N)"
    if t == "str":
        return f"(VStr {gbytes(v['b'])}%N)"
    if t == "path":
        return f"(VPath {gbytes(v['b'])}%N)"
    if t == "enum":
        return f"(VEnum {gbytes(v['b'])}%N)"
    if t == "list":
        return "(VList " + glist(g_value(x) for x in v["v"]) + ")"
    if t == "dict":
        return "(VDict " + glist(f"({gbytes(k)}%N, {g_value(x)})" for k, x in v["v"]) + ")"
    if t == "ref":
        return f"(VRef {gnat(v['n'])})"
    raise ValueError("value outside the model: %s" % t)


def g_classes(classes):
    out = []
    for c in classes:
        args = glist(
            f"{{| a_name := {gbytes(a['name'])}%N; a_ignored := {gbool(a['ignored'])}; a_gen := {gbool(a['gen'])}; "
            f"a_const := {gbool(a['const'])}; a_required := {gbool(a['required'])}; "
            f"a_default := {gopt(a['default'], g_value)} |}}" for a in c["args"])
        out.append(f"{{| c_tid := {gbytes(c['tid'])}%N; c_args := {args} |}}")
    return glist(out)


def g_heap(nodes):
    out = []
    for x in nodes:
        fields = glist(f"({gbytes(k)}%N, {g_value(v)})" for k, v in x["fields"])
        out.append(f"{{| n_cls := {gnat(x['cls'])}; n_fields := {fields}; n_meta := {gopt(x['meta'], gbool)}; "
                   f"n_task := {gopt(x['task'], gnat)}; n_pre := {glist(gnat(p) for p in x['pre'])}; "
                   f"n_init := {glist(gnat(p) for p in x['init'])} |}}")
    return glist(out)


def g_op(o):
    return {"full": "OpFull", "raw": "OpRaw", "seal": "OpSeal"}[o["op"]] + " " + gnat(o["n"])


def g_expect(a):
    if a == "ok":
        return "XSealed"
    if a.startswith("exc:"):
        return "XErr"
    return f"(XDigest {gbytes(bytes.fromhex(a))}%N)"


def g_cache(nodes):
    def ent(x):
        raw = "None" if not x.get("craw") else f"(Some ({gbytes(bytes.fromhex(x['craw'][0]))}%N, {gbool(x['craw'][1])}))"
        full = "None" if not x.get("cfull") else f"(Some {gbytes(bytes.fromhex(x['cfull']))}%N)"
        return f"{{| k_sealed := {gbool(x['sealed'])}; k_raw := {raw}; k_full := {full} |}}"
    return glist(ent(x) for x in nodes)


def g_icase(export, ops, answers):
    return (f"{{| i_classes := {g_classes(export['classes'])}; i_heap := {g_heap(export['nodes'])}; "
            f"i_cache := {g_cache(export['nodes'])}; "
            f"i_ops := {glist(g_op(o) for o in ops)}; i_expect := {glist(g_expect(a) for a in answers)} |}}")


def in_model(export):
    """False when the exported heap holds a value the model does not represent."""
    def ok(v):
        if v["t"] in ("baddict", "unknown"):
            return False
        if v["t"] == "list":
            return all(ok(x) for x in v["v"])
        if v["t"] == "dict":
            return all(ok(x) for _, x in v["v"])
        return True
    def noref(v):           # configuration-valued defaults are outside the model (compared through __eq__)
        if v["t"] == "ref":
            return False
        if v["t"] == "list":
            return all(noref(x) for x in v["v"])
        if v["t"] == "dict":
            return all(noref(x) for _, x in v["v"])
        return True
    return all(ok(v) for x in export["nodes"] for _, v in x["fields"]) and all(
        a["default"] is None or (ok(a["default"]) and noref(a["default"])) for c in export["classes"] for a in c["args"])


# ------------------------------------------------------------------ signature-neutral edits (C02)
def _kwd(nd):
    return {k: v for k, v in nd["kw"]}


def _meta_of(desc, i):
    """last meta flag set on node i by the build actions"""
    f = None
    for a in desc["actions"]:
        if a["a"] == "meta" and a["n"] == i:
            f = a["flag"]
    return f


def _is_task_of_someone(desc, i):
    return desc["nodes"][i]["cls"] in TASKS


def neutral_edit(rng, desc, g):
    """Returns (edited description, kind) for one random documented-neutral edit, or None.
    Node indices of the original are preserved (new nodes are appended)."""
    d = copy.deepcopy(desc)
    n = len(d["nodes"])
    kinds = ["ignored-scalar", "ignored-config", "explicit-default", "tag", "inside-meta", "class-extension",
             "meta-member", "optional-none", "tagged-kw", "tagged-kw", "meta-direct", "meta-direct"]
    rng.shuffle(kinds)
    for kind in kinds:
        cands = list(range(n))
        rng.shuffle(cands)
        for i in cands:
            nd = d["nodes"][i]
            cls = nd["cls"]
            kw = _kwd(nd)
            if kind == "ignored-scalar":
                slots = [s for s in IGNORED.get(cls, ()) if SLOTS[cls][s] in ("int", "str", "opath", "olpath")]
                if not slots:
                    continue
                s = rng.choice(slots)
                k = SLOTS[cls][s]
                if k == "int":
                    v = vint(rng.choice([x for x in [0, 1, 5, 9, -4] if kw.get(s) != vint(x)]))
                elif k == "str":
                    v = vstr(rng.choice([x for x in ["q", "meta2", ""] if kw.get(s) != vstr(x)]))
                elif k == "opath":
                    v = {"t": "path", "v": rng.choice(["/other/p", "q/r"])}
                else:
                    v = {"t": "list", "v": [{"t": "path", "v": "/l/p"}]}
                nd["kw"] = [[a, b] for a, b in nd["kw"] if a != s] + [[s, v]]
                return d, kind
            if kind == "ignored-config":
                slots = [s for s in IGNORED.get(cls, ()) if SLOTS[cls][s] in ("ocfg", "lcfg")]
                if not slots:
                    continue
                # pre-tasks reachable through ANY parameter are part of the full identifier, so the slot must
                # not currently hold a configuration (removing it could remove a reachable pre-task)
                assigned = {a["name"] for a in d["actions"] if a["a"] == "set" and a["n"] == i}
                slots = [s for s in slots if s not in assigned and kw.get(s, NONE) in (NONE, {"t": "list", "v": []})]
                if not slots:
                    continue
                s = rng.choice(slots)
                # a fresh leaf (no pre-task below it), appended after the original nodes
                d["nodes"].append(dict(cls="Leaf", kw=[["i", vint(rng.choice([11, 12, 13]))]]))
                newv = vref(len(d["nodes"]) - 1)
                if SLOTS[cls][s] == "lcfg":
                    newv = {"t": "list", "v": [newv]}
                # assigned after construction (the new node has a larger index)
                d["actions"].insert(0, dict(a="set", n=i, name=s, v=newv))
                return d, kind
            if kind == "explicit-default":
                slots = [s for (c2, s) in DEFAULTS if c2 == cls]
                if not slots:
                    continue
                s = rng.choice(slots)
                dv = DEFAULTS[(cls, s)]
                k = SLOTS[cls][s]
                val = (vint(dv) if k == "int" else vfloat(dv) if k == "float" else vstr(dv) if k == "str"
                       else {"t": "bool", "v": dv} if k == "bool" else {"t": "enum", "e": "Color", "m": dv})
                if s in kw:
                    if kw[s] != val:
                        continue
                    nd["kw"] = [[a, b] for a, b in nd["kw"] if a != s]       # leave it unset
                else:
                    nd["kw"].append([s, val])                                   # set it to its default
                return d, kind
            if kind == "optional-none":
                # "an optional left unset": only optionals WITHOUT a default (for an optional with a default,
                # None is a value different from the default and is part of the signature)
                slots = [s for s, k in SLOTS[cls].items() if k.startswith("o") and s not in IGNORED.get(cls, ())
                         and (cls, s) not in DEFAULTS]
                slots = [s for s in slots if s not in kw or kw[s] == NONE]
                if not slots:
                    continue
                s = rng.choice(slots)
                if s in kw:
                    nd["kw"] = [[a, b] for a, b in nd["kw"] if a != s]
                else:
                    nd["kw"].append([s, NONE])
                return d, kind
            if kind == "tag":
                d["actions"].insert(0, dict(a="tag", n=i, k=rng.choice(["t1", "lr"]), v=rng.choice([1, 2, "v"])))
                return d, kind
            if kind == "inside-meta":
                if _meta_of(d, i) is not True or cls in TASKS or cls in LIGHT:
                    continue
                ints = [s for s, k in SLOTS[cls].items() if k in ("int", "int!")]
                if not ints:
                    continue
                s = rng.choice(ints)
                old = kw.get(s, vint(0))
                v = vint(rng.choice([x for x in [21, 22, 23] if vint(x) != old]))
                nd["kw"] = [[a, b] for a, b in nd["kw"] if a != s] + [[s, v]]
                return d, kind + ":%d" % i
            if kind == "class-extension":
                if cls == "TaskSelf":
                    # a task class extended with a generated-path parameter (its generator asks for the task
                    # identifier while the graph is being sealed)
                    nd["cls"] = "TaskSelfG"
                    return d, kind + ":task-generated-path"
                if cls != "V1":
                    continue
                nd["cls"] = "V2"
                if rng.random() < 0.5:
                    nd["kw"].append(["z", vstr(rng.choice(["m1", "m2"]))])
                if rng.random() < 0.3:
                    nd["kw"].append(["y", vint(3)])
                if rng.random() < 0.3:
                    nd["kw"].append(["n0", vint(0)])
                if rng.random() < 0.3:
                    nd["kw"].append(["fl", {"t": "bool", "v": False}])
                return d, kind
            if kind == "tagged-kw":
                # the same value given as tag(value) to the constructor - also written in another accepted Python
                # type (an int where a float is declared): tags are outside the signature, the stored value is the same
                slots = [(s_, k.rstrip("!").lstrip("o")) for s_, k in SLOTS[cls].items()
                         if k.rstrip("!").lstrip("o") in ("int", "float", "str") and s_ in kw and kw[s_] != NONE
                         and kw[s_]["t"] in ("int", "float", "str")]
                if not slots:
                    continue
                s_, k = rng.choice(slots)
                v = kw[s_]
                if k == "float" and v["t"] == "float" and float.fromhex(v["hex"]).is_integer() and abs(float.fromhex(v["hex"])) < 2 ** 40 \
                        and not str(float.fromhex(v["hex"])).startswith("-0") and rng.random() < 0.8:
                    v = {"t": "pyint", "v": int(float.fromhex(v["hex"]))}
                nd["kw"] = [[a, (b if a != s_ else {"t": "tagged", "v": v})] for a, b in nd["kw"]]
                return d, kind
            if kind == "meta-direct":
                # a configuration flagged meta held DIRECTLY by an optional parameter that was unset: same as unset
                slots = [s_ for s_, k in SLOTS[cls].items() if k == "ocfg" and s_ not in IGNORED.get(cls, ())
                         and kw.get(s_, NONE) == NONE
                         and not any(a["a"] == "set" and a["n"] == i and a["name"] == s_ for a in d["actions"])]
                if not slots:
                    continue
                s_ = rng.choice(slots)
                d["nodes"].append(dict(cls="Leaf", kw=[["i", vint(rng.choice([41, 42]))]]))
                j = len(d["nodes"]) - 1
                d["actions"].insert(0, dict(a="meta", n=j, flag=True))
                d["actions"].insert(1, dict(a="set", n=i, name=s_, v=vref(j)))
                return d, kind
            if kind == "meta-member":
                if cls != "Bag":
                    continue
                # a new configuration flagged meta, added as list element / dict value
                where = rng.choice(["lc", "dc", "llc", "llc", "dlc", "dlc"])
                if where in ("llc", "dlc") and where in kw and not kw[where]["v"]:
                    continue            # explicitly empty: there is no inner list to add the member to
                d["nodes"].append(dict(cls="Leaf", kw=[["i", vint(rng.choice([31, 32]))]]))
                j = len(d["nodes"]) - 1
                d["actions"].insert(0, dict(a="meta", n=j, flag=True))
                if where == "lc":
                    cur = copy.deepcopy(kw.get("lc", {"t": "list", "v": []}))
                    cur["v"].insert(rng.randrange(len(cur["v"]) + 1), vref(j))
                elif where == "dc":
                    cur = copy.deepcopy(kw.get("dc", {"t": "dict", "v": []}))
                    key = rng.choice([k for k in ["m", "mm", "b2"] if k not in [x[0] for x in cur["v"]]])
                    cur["v"].insert(rng.randrange(len(cur["v"]) + 1), [key, vref(j)])
                elif where == "llc":
                    # two levels down; when the slot is unset its default [[]] is what the member is added to
                    cur = copy.deepcopy(kw.get("llc", {"t": "list", "v": [{"t": "list", "v": []}]}))
                    inner = rng.choice(cur["v"])
                    inner["v"].insert(rng.randrange(len(inner["v"]) + 1), vref(j))
                else:
                    cur = copy.deepcopy(kw.get("dlc", {"t": "dict", "v": [["a", {"t": "list", "v": []}]]}))
                    inner = rng.choice(cur["v"])[1]
                    inner["v"].insert(rng.randrange(len(inner["v"]) + 1), vref(j))
                d["actions"].insert(1, dict(a="set", n=i, name=where, v=cur))
                return d, kind
    return None


# ------------------------------------------------------------------ signature-changing near edits (C03)
def _scalar_different(rng, kind, old):
    pools = {"int": [vint(x) for x in [0, 1, 2, 3, 5, 256, -1]], "str": [vstr(x) for x in ["", "a", "b", "ab", "ba", "a b", "caf\u00e9", "cafe\u0301", "\u212b", "\u00c5"]],
             "float": [vfloat(x) for x in [0.0, 1.0, 1.5, 2.5, -1.5]],
             "bool": [{"t": "bool", "v": True}, {"t": "bool", "v": False}],
             "Color": [{"t": "enum", "e": "Color", "m": m} for m in COLORS],
             "Shape": [{"t": "enum", "e": "Shape", "m": m} for m in SHAPES]}
    cand = [v for v in pools[kind] if v != old]
    return rng.choice(cand)


def _pyval(v):
    """python-level value of a scalar description (for default comparisons)"""
    if v["t"] == "float":
        return float.fromhex(v["hex"])
    if v["t"] == "enum":
        return v["m"]
    return v.get("v")


def signature_edit(rng, desc, prefer=None):
    """One small structural edit that changes the canonical signature of node i.
    Returns (edited description, kind, i, which) where which is 'raw' (raw and full identifiers of i must
    change) or 'full' (only the full identifier must change), or None."""
    d = copy.deepcopy(desc)
    n = len(d["nodes"])
    kinds = ["scalar", "list-swap", "list-move", "dict-rename", "dict-move", "sibling-move", "list-len", "constant",
             "type-identifier", "pre-task", "init-order", "enum-member", "dict-swap-values", "nested-move",
             "optional-none-vs-default", "listdict-move", "listdict-empty-swap", "upstream-task", "upstream-task",
             "pre-to-init", "pre-to-init", "cycle-target", "cycle-target"]
    rng.shuffle(kinds)
    if prefer:
        kinds = [prefer] + [k for k in kinds if k != prefer]
    assigned = {(a["n"], a["name"]) for a in d["actions"] if a["a"] == "set"}
    for kind in kinds:
        cands = list(range(n))
        rng.shuffle(cands)
        for i in cands:
            nd = d["nodes"][i]
            cls = nd["cls"]
            kw = _kwd(nd)
            ign = IGNORED.get(cls, set())

            def put(s, v):
                nd["kw"] = [[a, b] for a, b in nd["kw"] if a != s] + [[s, v]]

            if kind in ("scalar", "enum-member"):
                want = ("Color", "Shape") if kind == "enum-member" else ("int", "str", "float", "bool")
                slots = [(s, k.rstrip("!").lstrip("o")) for s, k in SLOTS[cls].items()
                         if k.rstrip("!").lstrip("o") in want and s not in ign and (i, s) not in assigned]
                if not slots:
                    continue
                s, k = rng.choice(slots)
                old = kw.get(s)
                dflt = DEFAULTS.get((cls, s))
                if old is None and dflt is None and not SLOTS[cls][s].endswith("!"):
                    oldp = None
                else:
                    oldp = _pyval(old) if old is not None and old != NONE else dflt
                for _ in range(6):
                    v = _scalar_different(rng, k, old)
                    if _pyval(v) != oldp and not (oldp is None and False):
                        put(s, v)
                        return d, kind, i, "raw"
                continue
            if kind in ("list-swap", "list-len", "list-move", "nested-move"):
                slots = [s for s, k in SLOTS[cls].items() if k in ("lint", "olstr", "olfloat", "olColor") and s not in ign
                         and kw.get(s, NONE) != NONE and (i, s) not in assigned]
                if kind == "nested-move":
                    v = kw.get("ll")
                    if cls != "Bag" or not v or v == NONE or len(v["v"]) < 2 or not v["v"][0]["v"]:
                        continue
                    v = copy.deepcopy(v)
                    el = v["v"][0]["v"].pop()          # last element of the first inner list
                    v["v"][1]["v"].insert(0, el)       # becomes first element of the next inner list
                    put("ll", v)
                    return d, kind, i, "raw"
                if not slots:
                    continue
                s = rng.choice(slots)
                v = copy.deepcopy(kw[s])
                if kind == "list-swap":
                    idx = [(a, b) for a in range(len(v["v"])) for b in range(a + 1, len(v["v"])) if v["v"][a] != v["v"][b]]
                    if not idx:
                        continue
                    a, b = rng.choice(idx)
                    v["v"][a], v["v"][b] = v["v"][b], v["v"][a]
                elif kind == "list-len":
                    if v["v"] and rng.random() < 0.5:
                        v["v"].pop(rng.randrange(len(v["v"])))
                    else:
                        base = SLOTS[cls][s].lstrip("o")[1:]
                        v["v"].append(_scalar_different(rng, base, None))
                else:
                    continue
                if s == "li" and v["v"] == []:      # default [] : equal to default would still differ from non-empty
                    pass
                put(s, v)
                return d, kind, i, "raw"
            if kind in ("dict-rename", "dict-move", "dict-swap-values"):
                slots = [s for s in ("di", "ds") if cls == "Bag" and kw.get(s, NONE) != NONE and kw[s]["v"] and (i, s) not in assigned]
                if kind == "dict-move":
                    v = kw.get("dd")
                    if cls != "Bag" or not v or v == NONE or len(v["v"]) < 2:
                        continue
                    v = copy.deepcopy(v)
                    src = [e for e in v["v"] if e[1]["v"]]
                    if not src:
                        continue
                    a = rng.choice(src)
                    b = rng.choice([e for e in v["v"] if e is not a])
                    item = a[1]["v"].pop()
                    if item[0] in [x[0] for x in b[1]["v"]]:
                        continue
                    b[1]["v"].append(item)
                    put("dd", v)
                    return d, kind, i, "raw"
                if not slots:
                    continue
                s = rng.choice(slots)
                v = copy.deepcopy(kw[s])
                if kind == "dict-rename":
                    e = rng.choice(v["v"])
                    new = rng.choice([k for k in KEYS + ["q", "zz"] if k not in [x[0] for x in v["v"]]])
                    e[0] = new
                else:
                    idx = [(a, b) for a in range(len(v["v"])) for b in range(a + 1, len(v["v"])) if v["v"][a][1] != v["v"][b][1]]
                    if not idx:
                        continue
                    a, b = rng.choice(idx)
                    v["v"][a][1], v["v"][b][1] = v["v"][b][1], v["v"][a][1]
                put(s, v)
                return d, kind, i, "raw"
            if kind == "sibling-move":
                if cls == "Inner" and not ({(i, "c"), (i, "d")} & assigned):
                    c, dd = kw.get("c", NONE), kw.get("d", NONE)
                    if c == dd:
                        continue
                    # a meta-flagged configuration is outside the signature wherever it sits: not a signature edit
                    if any(v["t"] == "ref" and _meta_of(d, v["n"]) is True for v in (c, dd)):
                        continue
                    put("c", dd)
                    put("d", c)
                    return d, kind, i, "raw"
                if cls == "Leaf":
                    a, b = kw.get("oi", NONE), kw.get("os_", NONE)
                    if a != NONE and b == NONE:
                        # an int moved to ... nothing comparable; use s <-> os_
                        pass
                    s1, s2 = kw.get("s", vstr("a")), kw.get("os_", NONE)
                    if s2 == NONE or s1 == s2:
                        continue
                    put("s", s2)
                    put("os_", s1)
                    return d, kind, i, "raw"
                continue
            if kind == "optional-none-vs-default":
                # an optional parameter with a non-None default: None is a different value than the default
                if cls != "Leaf" or (i, "od") in assigned:
                    continue
                cur = kw.get("od")
                if cur is None or cur == vint(5):
                    put("od", NONE)
                elif cur == NONE:
                    nd["kw"] = [[a, b] for a, b in nd["kw"] if a != "od"]
                else:
                    continue
                return d, kind, i, "raw"
            if kind in ("listdict-move", "listdict-empty-swap"):
                v = kw.get("ld")
                if cls != "Bag" or not v or v == NONE or (i, "ld") in assigned:
                    if cls == "Bag" and (i, "ld") not in assigned and kind == "listdict-move":
                        v = {"t": "list", "v": [{"t": "dict", "v": [["batch", vint(1)], ["epochs", vint(2)]]},
                                                {"t": "dict", "v": [["lr", vint(3)]]}]}
                    elif cls == "Bag" and (i, "ld") not in assigned:
                        v = {"t": "list", "v": [{"t": "dict", "v": []}, {"t": "dict", "v": [["batch", vint(1)]]}]}
                    else:
                        continue
                    put("ld", v)
                    d0 = copy.deepcopy(d)      # the pair starts from this value
                else:
                    d0 = None
                v = copy.deepcopy(_kwd(nd)["ld"])
                if len(v["v"]) < 2:
                    continue
                if kind == "listdict-move":
                    src = [k for k in range(len(v["v"]) - 1) if v["v"][k]["v"]]
                    if not src:
                        continue
                    k = rng.choice(src)
                    item = v["v"][k]["v"].pop()
                    if item[0] in [x[0] for x in v["v"][k + 1]["v"]]:
                        continue
                    v["v"][k + 1]["v"].append(item)
                else:
                    k = rng.randrange(len(v["v"]) - 1)
                    if v["v"][k] == v["v"][k + 1]:
                        continue
                    v["v"][k], v["v"][k + 1] = v["v"][k + 1], v["v"][k]
                put("ld", v)
                if d0 is not None:
                    desc["nodes"][i] = d0["nodes"][i]          # make the original the starting point of the pair
                return d, kind, i, "raw"
            if kind == "constant":
                if cls not in ("K1", "K2"):
                    continue
                nd["cls"] = "K2" if cls == "K1" else "K1"
                return d, kind, i, "raw"
            if kind == "type-identifier":
                if cls not in ("W1", "W2"):
                    continue
                nd["cls"] = "W2" if cls == "W1" else "W1"
                return d, kind, i, "raw"
            if kind == "pre-task":
                light = [j for j in range(n) if d["nodes"][j]["cls"] in LIGHT and j != i]
                if not light or cls in TASKS:
                    continue
                # a new pre-task object with a value no other pre-task has
                d["nodes"].append(dict(cls="Pre", kw=[["v", vint(rng.choice([901, 902, 903]))]]))
                d["actions"].insert(0, dict(a="pre", n=i, ids=[len(d["nodes"]) - 1]))
                return d, kind, i, "full"
            if kind == "cycle-target" and prefer == "cycle-target" and rng.random() < 0.8:
                # constructive form: R -> S -> T and a back reference from T to R (side a) or to S (side b): same nodes,
                # same values, the cycle reference points at another ancestor; compared at R
                base = copy.deepcopy(d)
                x = rng.choice([0, 1, 5])
                for g_ in (base, d):
                    g_["nodes"].append(dict(cls="Inner", kw=[["x", vint(x)], ["name", vstr("t")]]))
                    T = len(g_["nodes"]) - 1
                    g_["nodes"].append(dict(cls="Inner", kw=[["c", vref(T)], ["name", vstr("s")]]))
                    g_["nodes"].append(dict(cls="Inner", kw=[["c", vref(T + 1)], ["name", vstr("r")]]))
                T = len(d["nodes"]) - 3
                slot = rng.choice(["d", "c"])
                base["actions"].append(dict(a="set", n=T, name=slot, v=vref(T + 2)))
                d["actions"].append(dict(a="set", n=T, name=slot, v=vref(T + 1)))
                d["base"] = base
                d["edited_node"] = T
                return d, kind, T + 2, "raw"
            if kind == "cycle-target":
                continue            # only the constructive form above (asked for by the caller's quota)
            if kind == "upstream-task":
                # node i holds the OUTPUT of a task T (a "set" action or a keyword whose value is out(T)): a different
                # parameter of T must change the identifier of i (the producing task is part of the signature)
                outs = [a["v"]["n"] for a in d["actions"] if a["a"] == "set" and a["n"] == i and a["v"]["t"] == "out"]
                outs += [v["n"] for _, v in nd["kw"] if v["t"] == "out"]
                outs = [t for t in outs if t != i and t < n]
                if not outs:
                    continue
                t = rng.choice(outs)
                tnd = d["nodes"][t]
                tkw = _kwd(tnd)
                slots = [(s_, k.rstrip("!").lstrip("o")) for s_, k in SLOTS[tnd["cls"]].items()
                         if k.rstrip("!").lstrip("o") in ("int", "str") and s_ not in IGNORED.get(tnd["cls"], set())
                         and (t, s_) not in assigned]
                if not slots:
                    continue
                s_, k = rng.choice(slots)
                old = tkw.get(s_)
                dflt = DEFAULTS.get((tnd["cls"], s_))
                oldp = _pyval(old) if old is not None and old != NONE else dflt
                for _ in range(6):
                    v = _scalar_different(rng, k, old)
                    if _pyval(v) != oldp:
                        tnd["kw"] = [[a, b] for a, b in tnd["kw"] if a != s_] + [[s_, v]]
                        d["edited_node"] = t
                        return d, kind, i, "raw"
                continue
            if kind == "pre-to-init" and cls in ("TaskA", "TaskOut", "NewT") and rng.random() < 0.8:
                # constructive form: two fresh lightweight tasks P, Q.  a: pre-tasks {P}, init [Q] + I;
                # b: pre-tasks {}, init [P, Q] + I (the caller takes the returned `base` as side a)
                used = any(v_.get("t") == "out" and v_.get("n") == i for nd_ in d["nodes"] for _, v_ in nd_["kw"]) or \
                    any(a["a"] == "set" and a["v"].get("t") == "out" and a["v"].get("n") == i for a in d["actions"])
                if used:
                    continue            # submitted implicitly by an out(...) reference earlier in the build
                base = copy.deepcopy(d)
                for g_ in (base, d):
                    g_["nodes"].append(dict(cls="Pre", kw=[["v", vint(911)]]))
                    g_["nodes"].append(dict(cls="Init", kw=[["v", vint(912)]]))
                P, Q = len(d["nodes"]) - 2, len(d["nodes"]) - 1
                for g_, pre_, head in ((base, [P], [Q]), (d, [], [P, Q])):
                    subs_ = [a for a in g_["actions"] if a["a"] == "submit" and a["n"] == i]
                    if subs_:
                        sub_ = subs_[0]
                        sub_["init"] = head + list(sub_.get("init", []))
                    else:
                        sub_ = dict(a="submit", n=i, init=head)
                        g_["actions"].append(sub_)
                    if pre_:
                        g_["actions"].insert(g_["actions"].index(sub_), dict(a="pre", n=i, ids=pre_))
                d["base"] = base
                return d, kind, i, "full"
            if kind == "pre-to-init":
                # a lightweight pre-task of a submitted task becomes the head of its init tasks: the sets differ
                # (pre-tasks {P}, init [Q..] vs pre-tasks {}, init [P, Q..]) and so must the full identifier
                subs = [a for a in d["actions"] if a["a"] == "submit" and a["n"] == i]
                pres = [a for a in d["actions"] if a["a"] == "pre" and a["n"] == i]
                if subs and len(subs[0].get("init", [])) >= 2 and (not pres or rng.random() < 0.5):
                    # the reverse move: the head of the init tasks becomes a pre-task
                    sub = subs[0]
                    p = sub["init"][0]
                    allpre = [q for a in d["actions"] if a["a"] == "pre" for q in a["ids"]]
                    if p in allpre or p in sub["init"][1:] or d["nodes"][p]["cls"] not in ("Pre", "Init"):
                        continue
                    sub["init"] = sub["init"][1:]
                    d["actions"].insert(d["actions"].index(sub), dict(a="pre", n=i, ids=[p]))
                    return d, kind, i, "full"
                if not subs or not pres:
                    continue
                sub, pre = subs[0], rng.choice(pres)
                if not sub.get("init"):
                    continue            # with no other init task the two streams differ by the marker alone
                cand = [p for p in pre["ids"] if d["nodes"][p]["cls"] in ("Pre", "Init") and p not in sub.get("init", [])]
                # the same object must not stay reachable as a pre-task through another path
                other = [p for a in d["actions"] if a["a"] == "pre" and a is not pre for p in a["ids"]]
                cand = [p for p in cand if p not in other and pre["ids"].count(p) == 1]
                if not cand:
                    continue
                p = rng.choice(cand)
                pre["ids"] = [q for q in pre["ids"] if q != p]
                if not pre["ids"]:
                    d["actions"].remove(pre)
                sub["init"] = [p] + list(sub.get("init", []))
                return d, kind, i, "full"
            if kind == "init-order":
                for a in d["actions"]:
                    if a["a"] == "submit" and len(a.get("init", [])) >= 2 and a["n"] == i:
                        a["init"] = a["init"][1:] + a["init"][:1]
                        return d, kind, i, "full"
                continue
    return None


def collision_pairs():
    """The two families outside the claimed domain (control characters; 3-level dicts): the model must
    collide exactly where the implementation does."""
    a = dict(nodes=[dict(cls="S2", kw=[["a", vstr("x")], ["b", vstr("y")]])], actions=[])
    b = dict(nodes=[dict(cls="S2", kw=[["a", vstr("x\x03b\x05\x03y")]])], actions=[])
    d3 = lambda v: dict(nodes=[dict(cls="Bag", kw=[["ddd", v]])], actions=[])
    i1 = {"t": "dict", "v": [["x", vint(1)]]}
    e = {"t": "dict", "v": []}
    c = d3({"t": "dict", "v": [["a", {"t": "dict", "v": [["b", i1]]}], ["c", e]]})
    dd = d3({"t": "dict", "v": [["a", {"t": "dict", "v": [["b", i1], ["c", e]]}]]})
    # (a, b, family, a in the typed domain?, b in the typed domain?)
    return [(a, b, "string-control-characters", True, False), (c, dd, "dict-three-levels", False, False)]


# ------------------------------------------------------------------ declared types (C03 domain)
def g_sty(t):
    if isinstance(t, list):
        return "(%s %s)" % ({"list": "TList", "dict": "TDict", "opt": "TOpt"}[t[0]], g_sty(t[1]))
    return {"int": "TInt", "float": "TFloat", "str": "TStr", "enum": "TEnum", "obj": "TObj", "other": "TObj"}[t]


def g_types(classes):
    return glist(glist(f"({gbytes(a['name'])}%N, {g_sty(a['ty'])})" for a in c["args"]) for c in classes)


def g_scase(export, node, expect_wf):
    return (f"{{| s_classes := {g_classes(export['classes'])}; s_heap := {g_heap(export['nodes'])}; "
            f"s_types := {g_types(export['classes'])}; s_node := {gnat(node)}; s_expect_wf := {gbool(expect_wf)} |}}")


DIAG = {1: "sealed configuration with an unsealed successor", 2: "identifier cached on an unsealed configuration",
        3: "cached raw identifier (or its loop flag) differs from the one computed afresh",
        4: "cached full identifier differs from the one computed afresh", 5: "dangling reference / sizes"}


def diag_text(pairs):
    return "; ".join(f"node {n}: {DIAG.get(k, k)}" for n, k in pairs[:6])


def _export_succs(node):
    out = []

    def refs(v):
        if v["t"] == "ref":
            out.append(v["n"])
        elif v["t"] == "list":
            for x in v["v"]:
                refs(x)
        elif v["t"] == "dict":
            for _, x in v["v"]:
                refs(x)

    for _, v in node["fields"]:
        refs(v)
    out.extend(node.get("pre", []))
    out.extend(node.get("init", []))
    if node.get("task") is not None:
        out.append(node["task"])
    return out


def _desc_succs(desc, n):
    """successors of node n in the DESCRIBED graph (constructor values, set / pre actions, init tasks of submissions)"""
    out = []

    def refs(v):
        if v.get("t") in ("ref", "out"):
            out.append(v["n"])
        elif v.get("t") in ("list",):
            for x in v["v"]:
                refs(x)
        elif v.get("t") == "dict":
            for _, x in v["v"]:
                refs(x)
        elif v.get("t") == "tagged":
            refs(v["v"])

    for _, v in desc["nodes"][n]["kw"]:
        refs(v)
    for a in desc["actions"]:
        if a.get("n") != n:
            continue
        if a["a"] == "set":
            refs(a["v"])
        elif a["a"] == "pre":
            out.extend(a["ids"])
        elif a["a"] == "submit":
            out.extend(a.get("init", []))
    return out


def remarked(desc):
    """A configuration that was already identified as part of a submitted / sealed graph is marked as the output of a
    task afterwards (mark_output changes its identity in place): a task of class TaskSelf marks its parameter `c`
    while `c` is also reachable from ANOTHER submitted or sealed root (e.g. two such tasks share `c`), or while `c` is
    itself the output of a submitted task.  (The plain case - a task marks one of its own parameters that nothing else
    has identified - was repaired in /repo by 661195f and is no longer a recorded finding.)"""
    import re as _re
    nn = len(desc["nodes"])
    subs = {a["n"] for a in desc["actions"] if a["a"] == "submit"}
    subs |= {int(m) for m in _re.findall(r'"n": (\d+), "t": "out"', json.dumps(desc, sort_keys=True))}
    roots = subs | {a["n"] for a in desc["actions"] if a["a"] == "seal"}
    for s_ in sorted(subs):
        if s_ >= nn or desc["nodes"][s_]["cls"] not in ("TaskSelf", "TaskSelfG"):
            continue
        cvals = [v for k, v in desc["nodes"][s_]["kw"] if k == "c"]
        cvals += [a["v"] for a in desc["actions"] if a["a"] == "set" and a.get("n") == s_ and a.get("name") == "c"]
        for v in cvals:
            if v.get("t") != "ref":
                continue                # c = <output of another task>: the output is a copy since /repo e2f4b5e
            k = v["n"]
            # ... or `c` is also held by a pre-task / init task of the task itself: those are identified on their own
            # (outside the hash of the task), so they see the mark once it is set
            own_light = [q for a in desc["actions"] if a.get("n") == s_ and a["a"] in ("pre", "submit")
                         for q in (a.get("ids", []) + a.get("init", []))]
            for q in own_light:
                seen, todo = set(), [q]
                while todo:
                    m = todo.pop()
                    if m in seen or m >= nn or m == s_:
                        continue
                    seen.add(m)
                    todo.extend(_desc_succs(desc, m))
                if k in seen:
                    return True
            for r in roots:
                if r == s_ or r >= nn:
                    continue
                seen, todo = set(), [r]
                while todo:
                    m = todo.pop()
                    if m in seen or m >= nn or m == s_:
                        continue
                    seen.add(m)
                    todo.extend(_desc_succs(desc, m))
                if k in seen:
                    return True
    return False


SELFMARK = ":parameter-marked-by-two-tasks"


def selfmark_suffix(desc, pairs, nodes=None):
    """The recorded C12 finding seen through the cache invariant: a submitted task that marks one of its OWN
    parameters as its output (class TaskSelf); identifiers were cached at submission, before the mark.
    Only when EVERY configuration the diagnosis names reaches such a task in the exported graph `nodes`
    (its identifier then depends on the mark); anything else is reported as a new violation."""
    import re as _re
    subs = {a["n"] for a in desc["actions"] if a["a"] == "submit"}
    subs |= {int(m) for m in _re.findall(r'"n": (\d+), "t": "out"', json.dumps(desc, sort_keys=True))}
    selfsub = {n for n in subs if n < len(desc["nodes"]) and desc["nodes"][n]["cls"] in ("TaskSelf", "TaskSelfG")}
    if not (selfsub and pairs and all(k in (3, 4) for _, k in pairs) and remarked(desc)):
        return ""
    if nodes is not None:
        for n, _ in pairs:
            seen, todo = set(), [n]
            while todo:
                m = todo.pop()
                if m in seen or m >= len(nodes):
                    continue
                seen.add(m)
                todo.extend(_export_succs(nodes[m]))
            if not (seen & selfsub):
                return ""
    return SELFMARK
