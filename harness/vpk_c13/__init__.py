"""Schema library for C13: classes that log __post_init__ / execute with the identity of self and
the parameters of self that are set at that moment.

Besides the plain classes there are "disguised" ones whose objects (configuration and runtime object
alike) answer Python's generic protocols in an unusual way: empty containers (``__len__`` is 0: falsy),
``__bool__`` False, equality and hash by content (two distinct objects with the same ``v`` are ``==``).
What instance() / the parameter file build must not depend on any of that: objects are told apart by
identity only."""
from typing import Dict, List, Optional

from experimaestro import Config, LightweightTask, Param, Task

LOG = []


def _snap(o):
    """names of the declared parameters of o that are set on o (declaration order)"""
    return [k for k in type(o).__getxpmtype__().arguments if k in o.__dict__]


class _Logged:
    def __init__(self):
        # the parameter-less initialisation of the runtime object (never called for configuration objects)
        super().__init__()
        LOG.append(("init", id(self), _snap(self)))

    def __post_init__(self):
        LOG.append(("post", id(self), _snap(self)))


class N(_Logged, Config):
    v: Param[int] = 0
    c: Param[Optional[Config]] = None
    c2: Param[Optional[Config]] = None
    l: Param[List[Config]] = []
    d: Param[Dict[str, Config]] = {}
    ll: Param[List[List[Config]]] = []


class M(_Logged, Config):
    v: Param[int] = 0
    c: Param[Optional[Config]] = None


class P(_Logged, LightweightTask):
    v: Param[int] = 0
    c: Param[Optional[Config]] = None

    def execute(self):
        LOG.append(("exec", id(self), _snap(self)))


class T(_Logged, Task):
    v: Param[int] = 0
    c: Param[Optional[Config]] = None
    c2: Param[Optional[Config]] = None
    l: Param[List[Config]] = []
    d: Param[Dict[str, Config]] = {}

    def execute(self):
        LOG.append(("body", id(self), _snap(self)))


# ---- disguises ---------------------------------------------------------------------------------
class _Empty:
    """container-like: holds nothing yet (a vocabulary before it is loaded, a registry, ...)"""

    def __len__(self):
        return 0


class _Falsy:
    def __bool__(self):
        return False


class _ByContent:
    """equality / hash by the value of v (two distinct objects may be equal)"""

    def __eq__(self, other):
        return type(other) is type(self) and self.__dict__.get("v", 0) == other.__dict__.get("v", 0)

    def __ne__(self, other):
        return not self.__eq__(other)

    def __hash__(self):
        return hash(self.__dict__.get("v", 0))


class NZ(_Empty, N):
    pass


class NQ(_ByContent, N):
    pass


class MB(_Falsy, M):
    pass


class PZ(_Empty, P):
    pass


class PB(_Falsy, P):
    pass


class PQ(_ByContent, P):
    pass


class TZ(_Empty, T):
    pass


CLASSES = {c.__name__: c for c in (N, M, P, T, NZ, NQ, MB, PZ, PB, PQ, TZ)}
# the plain class a disguised one derives from (same parameters)
BASE = dict(N="N", M="M", P="P", T="T", NZ="N", NQ="N", MB="M", PZ="P", PB="P", PQ="P", TZ="T")
DISGUISE = dict(N="plain", M="plain", P="plain", T="plain", NZ="empty", NQ="by-content", MB="false",
                PZ="empty", PB="false", PQ="by-content", TZ="empty")
