"""Schema library for C13: classes that log __post_init__ / execute with the identity of self and
the parameters of self that are set at that moment."""
from typing import Dict, List, Optional

from experimaestro import Config, LightweightTask, Param, Task

LOG = []


def _snap(o):
    """names of the declared parameters of o that are set on o (declaration order)"""
    return [k for k in type(o).__getxpmtype__().arguments if k in o.__dict__]


class _Logged:
    def __post_init__(self):
        LOG.append(("post", id(self), _snap(self)))


class N(_Logged, Config):
    v: Param[int] = 0
    c: Param[Optional[Config]] = None
    c2: Param[Optional[Config]] = None
    l: Param[List[Config]] = []
    d: Param[Dict[str, Config]] = {}
    ll: Param[List[List[Config]]] = []


class M(_Logged, Config):
    v: Param[int] = 0
    c: Param[Optional[Config]] = None


class P(_Logged, LightweightTask):
    v: Param[int] = 0
    c: Param[Optional[Config]] = None

    def execute(self):
        LOG.append(("exec", id(self), _snap(self)))


class T(_Logged, Task):
    v: Param[int] = 0
    c: Param[Optional[Config]] = None
    c2: Param[Optional[Config]] = None
    l: Param[List[Config]] = []
    d: Param[Dict[str, Config]] = {}

    def execute(self):
        LOG.append(("body", id(self), _snap(self)))


CLASSES = {c.__name__: c for c in (N, M, P, T)}
