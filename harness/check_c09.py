"""C09 - tokens are always given back and waiting jobs eventually run."""
import json
from vcommon import Check, main_wrapper, run_impl
import tokcheck as tc


def run(c: Check):
    c.rule = ("same schedules as C08 (1-3 emulated scheduler processes on one token directory, kills while tokens are "
              "held, events delivered late / out of order / inside the create window of a token file, watcher threads "
              "fired at random) with the C09 oracle after every step; plus a real watchdog observer on a scratch "
              "directory.  non-trivial = the schedule contains a release, ends quiescent and involves at least two "
              "processes, a kill or a watcher firing; distinct by (configuration, schedule)")
    from concurrent.futures import ThreadPoolExecutor
    early = {}
    if not c.replay:
        # the real-observer / real-scheduler scenarios run while the schedules are generated and checked
        ex = ThreadPoolExecutor(max_workers=3)
        for kind, to in (("realobs", 60), ("abortwake", 90), ("seqexp", 120)):
            sc0 = dict(kind=kind, scratch=str(c.scratch()))
            if kind == "realobs":
                sc0["total"] = 1
            early[kind] = ex.submit(run_impl, "drive_c09.py", dict(scenarios=[sc0], timeout=to), to + 80)
    tc.run_check(c, "C09")
    if not c.replay or json.load(open(c.replay))["replay"].get("scenario", {}).get("kind") == "realobs":
        # end to end with the real observer thread (no shim)
        sc = dict(kind="realobs", total=1, scratch=str(c.scratch()))
        r = early["realobs"].result()[0] if "realobs" in early else run_impl("drive_c09.py", dict(scenarios=[sc], timeout=60), timeout=120)[0]
        c.extra["real_observer"] = r
        c.evaluations += 1
        if r.get("error"):
            c.count("realobs:error")
        elif not r["alive_after_empty_file"]:
            c.violation("C09:observer-dies:unparsable-token-file",
                        "real watchdog observer: after an empty *.token file appeared in the token directory "
                        "observer.is_alive() is False; a later release left the waiting job %s" % r["status_after_release"],
                        dict(scenario=dict(kind="realobs", total=1), observed=r))
        else:
            c.count("realobs:observer-alive")
    rk = json.load(open(c.replay))["replay"].get("scenario", {}).get("kind") if c.replay else None
    if not c.replay or rk == "abortwake":
        # the real scheduler loop (Scheduler.aio_submit / aio_start) around the token: a wake-up that arrives
        # while an aborted start unwinds must not be lost
        sc = dict(kind="abortwake", scratch=str(c.scratch()))
        r = early["abortwake"].result()[0] if "abortwake" in early else run_impl("drive_c09.py", dict(scenarios=[sc], timeout=90), timeout=150)[0]
        c.extra["aborted_start_wakeup"] = r
        c.evaluations += 1
        if r.get("error") or not r.get("aborted_start_seen"):
            c.count("abortwake:no-verdict")
        elif not r.get("job_ran"):
            sc.pop("scratch")
            c.violation("C09:ready-job-never-started-after-aborted-start",
                        "real scheduler: the start of the job was aborted (the token had been taken by another process), "
                        "the token was given back while the aborted start was releasing the job lock; the job is %s, "
                        "the token shows %s available with files %s, and the job is never started"
                        % (r.get("job_state"), r.get("available"), r.get("files")),
                        dict(scenario=sc, observed=r))
        else:
            c.count("abortwake:ok")
    if not c.replay or rk == "seqexp":
        # successive experiments of one process reuse the token object of a name; the second asks it with a larger
        # count; jobs wait at the first release
        sc = dict(kind="seqexp", scratch=str(c.scratch()))
        r = early["seqexp"].result()[0] if "seqexp" in early else run_impl("drive_c09.py", dict(scenarios=[sc], timeout=120), timeout=200)[0]
        sc.pop("scratch")
        c.extra["successive_experiments"] = r
        c.evaluations += 1
        if r.get("error") or "token_info_total" not in r:
            c.count("seqexp:no-verdict")
        else:
            c.count("seqexp:ok")
            if r["available_when_idle"] != r["token_info_total"] or not r["full_capacity_job_started"]:
                c.violation("C09:idle-token-differs-from-token-info",
                            "the token name asked again by a second experiment of the process: token.info says %d, the idle "
                            "token shows %d available; a job asking %d was %s"
                            % (r["token_info_total"], r["available_when_idle"], r["token_info_total"],
                               "started" if r["full_capacity_job_started"] else "never started"),
                            dict(scenario=sc, observed=r))
            elif not r.get("waiters_ran") or r.get("second_experiment_exception"):
                c.violation("C09:waiters-not-started-after-release:token-object-reused",
                            "second experiment of the process reusing the token object: after the release of the job that "
                            "held the whole token the two waiting jobs were not run (states %s, available %s, %s)"
                            % (r.get("states"), r.get("available_at_end"), r.get("second_experiment_exception")),
                            dict(scenario=sc, observed=r))
    c.level_assumptions = [
        "watchdog delivers each create/modify/delete event at most once, possibly late, in any order; an exception "
        "escaping a handler ends the observer thread (EventDispatcher.run only catches queue.Empty)",
        "fcntl/fasteners inter-process locks are exclusive and die with their process; psutil reports liveness truthfully",
        "'eventually' is proved as absence of stuck states: in a quiescent state no job waits on a token whose request "
        "fits (fair delivery of pending events and watcher threads is assumed)",
        "Token.aio_notify's posted checks are run at once (they read the state at the time they run)",
        "fairness (not proved): every pending event is eventually handled, every watcher thread eventually runs, every job "
        "process ends, every scheduler releases what it took - i.e. a quiescent state is reached; events are never lost",
        "a watcher thread's lock / wait / delete sequence is one step of the model; the create window of a token file is "
        "not interrupted by a kill of its creator; all requests are at least 1",
    ]


if __name__ == "__main__":
    main_wrapper("C09", run)
