"""Implementation driver for C16: runs real `experiment` blocks (one forked process per run) on
one workspace per case and records the job index after each run.

stdin : {"scratch": dir, "cases": [case, ...]}
stdout: last line = JSON list, one result per case.

every case may carry "name" (experiment name, default "e"; a name the implementation refuses at construction is logged
"refused") and "layout": "plain" | "jobs-link" (<workspace>/jobs is a symbolic link to a directory elsewhere) |
"task-link" (<workspace>/jobs/<task> is one) | "ws-link" (the workspace is given through a symbolic link)

case kind "hist": {"kind": "hist", "runs": [run, ...]}
  run = {"mk": [x..], "rm": [x..],           job directories created (with success marker) / deleted first
         "mode": "normal" | "generate" | "dry",   run mode of the experiment (RunMode.NORMAL / GENERATE_ONLY / DRY_RUN)
         "jobs": [x..],                      jobs the block submits, in order
         "end": "ok" | "exc" | "kill_in" | "kill_locked" | "kill_moving" | "kill_exit" | "kill_wait" | "fail_wait",
                                             kill_wait: dies when wait() is called; fail_wait: wait() waits, then raises
                                             (what it does when a job failed; logged "wait-raise"); kill_exit: dies at the
                                             k-th removal of __exit__'s rmtree, or, if the rmtree is over with fewer
                                             removals, after wait() returned (logged "waited" then "kill wait") -
                                             whichever order __exit__ calls rmtree and wait() in
         "via": "fall" | "return" | "break", ok: how the block is left without exception (default fall)
         "exc": kind,                        exc: what is raised inside the block, a key of EXC (default "error");
                                             the child logs "exc-class error" (an Exception) or "exc-class base"
                                             (a BaseException that is not an Exception) before "raise"
         "k": n,                             exc/kill_in: submits done before; kill_moving/kill_exit: fs ops done before
         "sync": bool,                       wait until the links of the submitted jobs exist before going on
         "sig": bool,                        die by SIGKILL instead of os._exit
         "flaky": bool}                      after the submits: a job that really runs is submitted and fails (its flag file
                                             is missing), the flag is created, the same job is submitted again and succeeds
                                             (logged "sub 7", "flaky-failed", "sub 7", "flaky-done")
case kind "reenter": {"kind": "reenter", "pre": [run..], "mk": [x..], "reuse": bool, "blocks": [{"jobs": [x..], "how": "ok"|"exc",
                      "exc": kind}..]}   one process runs the blocks one after the other, with one experiment object
                      entered again and again (reuse) or a new object each time; result in the format of "hist"
case kind "nested": {"kind": "nested", "pre": [run..], "mk": [x..], "a": [x..], "inner": [x..], "b": [x..], "wait": s}
                      A inside; A's process enters the same experiment again inside its block (a new object; the
                      implementation may refuse), leaves it; then a second process B tries to enter while A is still inside
case kind "excl": {"kind": "excl", "pre": [run..], "p1": [x..], "leave": "ok"|"exc"|"kill", "exc": kind, "p2": [x..], "wait": s}
case kind "excl3": {"kind": "excl3", "pre": [run..], "a": [x..], "b": [x..], "c": [x..], "leave": "ok"|"exc", "exc": kind,
                    "third": "new"|"relaunch", "mk": [x..], "wait": s}   lock hand-over A -> B while C contends

Observables are canonical: a link is [x_name, x_target] where x is the job number (-1: unknown
name, -2: target outside the workspace job folder), lists are sorted.
"""
import asyncio
import json
import logging
import os
import select
import shutil
import signal
import sys
import time
from pathlib import Path

logging.disable(logging.CRITICAL)

from click.testing import CliRunner  # noqa: E402
from experimaestro import experiment, RunMode  # noqa: E402
MODES = dict(normal=RunMode.NORMAL, generate=RunMode.GENERATE_ONLY, dry=RunMode.DRY_RUN)
from experimaestro.cli import cli  # noqa: E402
from vpk_c16 import IndexedJob, FlakyJob  # noqa: E402

NAME = "e"
NJOBS = 8
FLAKY = 7        # job number of FlakyJob(x=7), the one job of the harness that really runs
REAL = dict(mkdir=os.mkdir, rename=os.rename, unlink=os.unlink, rmdir=os.rmdir)


class Boom(Exception):
    pass


class Halt(BaseException):
    """A user-defined BaseException that is not an Exception."""


class Both(KeyboardInterrupt, Exception):
    """An Exception that is also a KeyboardInterrupt."""


def _sys_exit(code):
    def f():
        sys.exit(code)
    return f


def _raiser(make):
    def f():
        raise make()
    return f


# ways of leaving the block by raising: kind -> callable that raises.  "genexit" is special: the block
# runs inside a generator that is closed while suspended in the block (GeneratorExit thrown at the yield)
EXC = {
    "error": _raiser(Boom),
    "oserror": _raiser(lambda: FileNotFoundError(2, "no such file")),
    "both": _raiser(Both),
    "excgroup": _raiser(lambda: ExceptionGroup("g", [Boom()])),
    "sysexit0": _sys_exit(0),
    "sysexit1": _sys_exit(1),
    "sysexitmsg": _sys_exit("stop"),
    "kbint": _raiser(KeyboardInterrupt),
    "cancelled": _raiser(asyncio.CancelledError),
    "halt": _raiser(Halt),
    "basegroup": _raiser(lambda: BaseExceptionGroup("g", [KeyboardInterrupt()])),
    "genexit": None,
}


def exc_class(e):
    return "error" if isinstance(e, Exception) else "base"


def run_block(enter, body, log, tag="", genexit=False, raised=None):
    """`with enter() as xp: body(xp)` where body returns how to leave: ("ok", via) or ("exc", kind); with
    genexit the block is the body of a generator closed while suspended inside the block.
    Logs "<tag>endblock" + "<tag>exited" (left without exception), "<tag>exc-class C" + "<tag>raise" +
    "<tag>exc-out" (left through the exception raised here), "<tag>error ..." (anything else came out)."""
    raised = [] if raised is None else raised     # exception objects raised on purpose (by the block, by a hooked wait())

    def plain():
        for _ in (0,):
            with enter() as xp:
                how, arg = body(xp)
                if how == "exc":
                    try:
                        EXC[arg]()
                    except BaseException as e:  # noqa
                        raised.append(e)
                        log(f"{tag}exc-class {exc_class(e)}")
                        log(f"{tag}raise")
                        raise
                log(f"{tag}endblock")
                if arg == "return":
                    return
                if arg == "break":
                    break

    def gen():
        with enter() as xp:
            body(xp)
            log(f"{tag}exc-class {exc_class(GeneratorExit())}")
            log(f"{tag}raise")
            yield

    try:
        if genexit:
            g = gen()
            next(g)
            g.close()
            log(f"{tag}exc-out")
        else:
            plain()
            log(f"{tag}exited")
    except BaseException as e:  # noqa
        if any(e is r for r in raised):
            log(f"{tag}exc-out")
        else:
            log(f"{tag}error {type(e).__name__}: {e}")


# ---------------------------------------------------------------- calibration
def quiet():
    """The children write nothing to the driver's stdout/stderr (JSON protocol on the last line)."""
    fd = os.open(os.devnull, os.O_WRONLY)
    os.dup2(fd, 1)
    os.dup2(fd, 2)


def calibrate(scratch):
    """x -> (relative path of the job directory, name of its success marker), asked from the
    implementation itself (a dry-run submit creates the Job object without scheduling it)."""
    r, w = os.pipe()
    pid = os.fork()
    if pid == 0:
        try:
            os.close(r)
            quiet()
            table = {}
            ws = Path(scratch) / "calib"
            with experiment(ws, "calib", port=-1, run_mode=RunMode.DRY_RUN):
                for x in range(NJOBS):
                    t = FlakyJob(x=x) if x == FLAKY else IndexedJob(x=x)
                    t.submit(run_mode=RunMode.DRY_RUN)
                    job = t.__xpm__.job
                    table[x] = [str(job.relpath), str(job.donepath.relative_to(job.path))]
            os.write(w, json.dumps(table).encode())
        finally:
            os._exit(0)
    os.close(w)
    data = b""
    while True:
        chunk = os.read(r, 65536)
        if not chunk:
            break
        data += chunk
    os.waitpid(pid, 0)
    table = json.loads(data.decode())
    return {int(k): v for k, v in table.items()}


# ---------------------------------------------------------------- observation
def canon_links(ws, d, rel2x):
    if not d.is_dir():
        return None
    out = []
    # a link must lead to *the directory* <workspace>/jobs/<relpath>, however it is spelled (the workspace, jobs/ or
    # jobs/<task> may be symbolic links themselves)
    real2x = {os.path.realpath(ws / "jobs" / rel): x for rel, x in rel2x.items()}
    jobsroot = os.path.realpath(ws / "jobs")
    for p in d.glob("*/*"):
        if not p.is_symlink():
            out.append([-3, -3])      # something that is not a link
            continue
        name = rel2x.get(str(p.relative_to(d)), -1)
        try:
            target = os.readlink(p)
        except OSError:       # vanished under our feet (only possible if somebody is changing the index right now)
            continue
        if not os.path.isabs(target):
            target = os.path.join(os.path.dirname(p), target)
        target = os.path.realpath(target)
        if target in real2x:
            tx = real2x[target]
        elif target.startswith(jobsroot + os.sep):
            tx = -1
        else:
            tx = -2
        out.append([name, tx])
    return sorted(out)


def run_orphans(ws, rel2x):
    if not (ws / ".__experimaestro__").is_file():
        return None
    res = CliRunner().invoke(cli, ["orphans", str(ws)])
    if res.exit_code != 0:
        return dict(error=f"exit {res.exit_code}: {res.output[-300:]!r} {res.exception!r}")
    orph, found = [], None
    for line in res.output.splitlines():
        line = line.strip()
        if not line:
            continue
        if line.endswith("jobs are not orphans"):
            found = int(line.split()[0])
        else:
            orph.append(rel2x.get(line, -1))
    return dict(orphans=sorted(orph), found=found)


def snapshot(ws, rel2x):
    xp = ws / "xp" / NAME
    return dict(jobs=canon_links(ws, xp / "jobs", rel2x) or [],
                bak=canon_links(ws, xp / "jobs.bak", rel2x),
                orph=run_orphans(ws, rel2x))


# ---------------------------------------------------------------- job directories
def mk_jobdir(ws, table, x):
    rel, done = table[x]
    d = ws / "jobs" / rel
    d.mkdir(parents=True, exist_ok=True)
    (d / done).touch()


def rm_jobdir(ws, table, x):
    shutil.rmtree(ws / "jobs" / table[x][0], ignore_errors=True)


# ---------------------------------------------------------------- the child: one run
class Hooks:
    """Kill injection at filesystem operations (wrappers around os.mkdir/rename/unlink/rmdir)."""

    def __init__(self, ws, log, die):
        xpd = ws / "xp" / NAME
        self.jobs = tuple({str(xpd / "jobs") + os.sep, os.path.realpath(xpd / "jobs") + os.sep})
        self.bak = str(xpd / "jobs.bak")
        self.baks = tuple({self.bak, os.path.realpath(xpd / "jobs.bak")})
        self.log, self.die = log, die
        self.phase = "enter"
        self.kill_locked = False
        self.kill_moving = None
        self.kill_exit = None
        self.n_enter = 0
        self.n_exit = 0

    def install(self):
        os.mkdir = self.mkdir
        os.rename = self.rename
        os.unlink = self.unlink
        os.rmdir = self.rmdir

    def mkdir(self, path, *a, **kw):
        if self.phase == "enter" and os.fspath(path) in self.baks:
            if self.kill_locked:
                self.log("kill locked")
                self.die()
            self.log("mkbak")
        return REAL["mkdir"](path, *a, **kw)

    def _enter_op(self, path):
        if self.phase == "enter" and os.fspath(path).startswith(self.jobs):
            if self.kill_moving is not None and self.n_enter == self.kill_moving:
                self.log(f"kill moving {self.n_enter}")
                self.die()
            self.n_enter += 1

    def _exit_op(self, path, kw):
        if self.phase == "exit" and (kw.get("dir_fd") is not None or os.fspath(path).startswith(self.baks)):
            if self.kill_exit is not None and self.n_exit == self.kill_exit:
                self.log(f"kill exit {self.n_exit}")
                self.die()
            self.n_exit += 1

    def rename(self, src, dst, *a, **kw):
        self._enter_op(src)
        return REAL["rename"](src, dst, *a, **kw)

    def unlink(self, path, *a, **kw):
        self._enter_op(path)
        self._exit_op(path, kw)
        return REAL["unlink"](path, *a, **kw)

    def rmdir(self, path, *a, **kw):
        self._exit_op(path, kw)
        return REAL["rmdir"](path, *a, **kw)


def flaky_resubmit(ws, xp, log, tag=""):
    """Inside a block: a job fails, then the same job is submitted again and succeeds."""
    flag = str(ws / "c16-flag")
    if os.path.exists(flag):
        os.unlink(flag)
    xp.workspace.launcher.setenv("PYTHONPATH", os.environ.get("PYTHONPATH", ""))
    xp.workspace.launcher.setenv("C16_FLAG", flag)
    t = FlakyJob(x=FLAKY)
    t.submit()
    log(f"{tag}sub {FLAKY}")
    st = t.__xpm__.job.wait()
    log(f"{tag}flaky-failed" if "ERROR" in str(st).upper() else f"{tag}flaky-first-{st}")
    open(flag, "w").close()
    t = FlakyJob(x=FLAKY)
    t.submit()
    log(f"{tag}sub {FLAKY}")
    st = t.__xpm__.job.wait()
    log(f"{tag}flaky-done" if "DONE" in str(st).upper() else f"{tag}flaky-second-{st}")


def wait_links(ws, table, xs, timeout=10.0):
    t0 = time.time()
    paths = [ws / "xp" / NAME / "jobs" / table[x][0] for x in xs]
    while time.time() - t0 < timeout:
        if all(p.is_symlink() for p in paths):
            return True
        time.sleep(0.002)
    return False


def child_run(ws, table, run, logfd, ctl=None):
    """Body of the forked process.  ctl: (read fd) for the exclusivity probe."""
    def log(msg):
        os.write(logfd, (msg + "\n").encode())

    def die():
        if run.get("sig"):
            os.kill(os.getpid(), signal.SIGKILL)
            time.sleep(5)
        os._exit(137)

    quiet()
    end, k = run["end"], run.get("k", 0)
    hooks = Hooks(ws, log, die)
    hooks.kill_locked = end == "kill_locked"
    hooks.kill_moving = k if end == "kill_moving" else None
    hooks.kill_exit = k if end == "kill_exit" else None
    hooks.install()

    mode = run.get("mode", "normal")

    def enter():
        log("try")
        try:
            return experiment(ws, NAME, port=-1, run_mode=MODES[mode])
        except ValueError as e:       # the implementation refuses this experiment (e.g. its name)
            log(f"refused {e}"[:200])
            os._exit(0)

    def body(xp):
        hooks.phase = "in"
        log("entered")
        if end in ("kill_moving", "kill_locked"):
            log("kill in")        # the injection point was never reached
            die()
        if ctl is not None:
            os.read(ctl, 1)       # probe, second process: wait for the go
        submitted = []
        for i, x in enumerate(run["jobs"]):
            if end in ("exc", "kill_in") and i >= k:
                break
            IndexedJob(x=x).submit()
            submitted.append(x)
            log(f"sub {x}")
        if run.get("flaky") and mode == "normal":
            flaky_resubmit(ws, xp, log)
            submitted.append(FLAKY)
        if run.get("sync") and mode == "normal":
            log("synced" if wait_links(ws, table, submitted) else "sync-timeout")
        if run.get("hold") is not None:
            log("holding")
            os.read(run["hold"], 1)     # probe, first process: leaves (as its `end` says) when told to
        if end == "exc":
            return "exc", kind
        if end == "kill_in":
            log("kill in")
            die()
        if end in ("kill_exit", "kill_wait", "fail_wait"):
            real_wait = xp.wait

            def hooked_wait():
                if end == "kill_wait":
                    log("kill wait")
                    die()
                real_wait()
                if end == "fail_wait":
                    e = Boom("some jobs failed")
                    raised.append(e)
                    log("wait-raise")
                    raise e
                log("waited")
                if not os.path.isdir(hooks.bak):      # the rmtree is over and did not reach the k-th removal
                    log("kill wait")
                    die()
            xp.wait = hooked_wait
        hooks.phase = "exit"
        return "ok", run.get("via", "fall")

    kind = run.get("exc", "error")
    raised = []
    try:
        run_block(enter, body, log, genexit=(end == "exc" and kind == "genexit"), raised=raised)
    finally:
        os._exit(0)


def fork_run(ws, table, run, ctl=None):
    r, w = os.pipe()
    pid = os.fork()
    if pid == 0:
        os.close(r)
        child_run(ws, table, run, w, ctl)
        os._exit(0)
    os.close(w)
    return pid, r


def read_rest(fd):
    data = b""
    while True:
        chunk = os.read(fd, 65536)
        if not chunk:
            break
        data += chunk
    os.close(fd)
    return data


def read_all(fd):
    return read_rest(fd).decode().split("\n")[:-1]


def wait_child(pid, fd, timeout=60.0):
    """Wait for the child; returns (log lines, status string)."""
    t0 = time.time()
    status = None
    while time.time() - t0 < timeout:
        p, st = os.waitpid(pid, os.WNOHANG)
        if p:
            status = "signal" if os.WIFSIGNALED(st) else f"exit{os.WEXITSTATUS(st)}"
            break
        time.sleep(0.002)
    if status is None:
        os.kill(pid, signal.SIGKILL)
        os.waitpid(pid, 0)
        status = "timeout"
    return read_all(fd), status


def do_run(ws, table, rel2x, run):
    for x in run.get("rm", []):
        rm_jobdir(ws, table, x)
    for x in run.get("mk", []):
        mk_jobdir(ws, table, x)
    pid, fd = fork_run(ws, table, run)
    log, status = wait_child(pid, fd)
    return dict(log=log, status=status, snap=snapshot(ws, rel2x))


def wait_line(fd, buf, want, timeout):
    """Read the child's log until a line `want` shows up; returns True/False."""
    t0 = time.time()
    while True:
        if want in buf["lines"]:
            return True
        left = timeout - (time.time() - t0)
        if left <= 0:
            return False
        r, _, _ = select.select([fd], [], [], left)
        if not r:
            return False
        chunk = os.read(fd, 65536)
        if not chunk:
            return want in buf["lines"]
        buf["data"] += chunk
        buf["lines"] = buf["data"].decode().split("\n")[:-1]


def do_excl(ws, table, rel2x, case):
    out = dict(pre=[do_run(ws, table, rel2x, run) for run in case.get("pre", [])])
    for x in case.get("mk", []):
        mk_jobdir(ws, table, x)
    # first process: enters, links its jobs, holds the experiment
    h_r, h_w = os.pipe()
    run1 = dict(jobs=case["p1"], end="exc" if case["leave"] == "exc" else "ok", exc=case.get("exc", "error"),
                k=len(case["p1"]), sync=True, hold=h_r)
    t1 = time.time()
    pid1, fd1 = fork_run(ws, table, run1)
    os.close(h_r)
    b1 = dict(data=b"", lines=[])
    wait_line(fd1, b1, "entered", 30)
    t_enter = time.time() - t1          # how long getting in takes on this machine right now
    out["p1_in"] = wait_line(fd1, b1, "holding", 30)
    out["s_held"] = snapshot(ws, rel2x)
    # second process: tries to enter the same experiment
    c_r, c_w = os.pipe()
    run2 = dict(jobs=case["p2"], end="ok", sync=False)
    pid2, fd2 = fork_run(ws, table, run2, ctl=c_r)
    os.close(c_r)
    b2 = dict(data=b"", lines=[])
    out["p2_trying"] = wait_line(fd2, b2, "try", 10)
    out["p2_early"] = wait_line(fd2, b2, "entered", max(case.get("wait", 0.4), 3 * t_enter))
    out["s_waiting"] = snapshot(ws, rel2x)
    # the first one leaves
    if case["leave"] == "kill":
        os.kill(pid1, signal.SIGKILL)
    else:
        os.write(h_w, b"o" if case["leave"] == "ok" else b"x")
    os.close(h_w)
    t0 = time.time()
    while time.time() - t0 < 30:
        p, st = os.waitpid(pid1, os.WNOHANG)
        if p:
            break
        time.sleep(0.002)
    else:
        os.kill(pid1, signal.SIGKILL)
        os.waitpid(pid1, 0)
        out["p1_timeout"] = True
    out["p1_log"] = (b1["data"] + read_rest(fd1)).decode().split("\n")[:-1]
    # the second one must now get in
    out["p2_after"] = wait_line(fd2, b2, "entered", 30)
    out["s_p2in"] = snapshot(ws, rel2x)
    os.write(c_w, b"g")
    os.close(c_w)
    t0 = time.time()
    while time.time() - t0 < 30:
        p, st = os.waitpid(pid2, os.WNOHANG)
        if p:
            break
        time.sleep(0.002)
    else:
        os.kill(pid2, signal.SIGKILL)
        os.waitpid(pid2, 0)
        out["p2_timeout"] = True
    out["p2_log"] = (b2["data"] + read_rest(fd2)).decode().split("\n")[:-1]
    out["s_end"] = snapshot(ws, rel2x)
    return out


# ---------------------------------------------------------------- three-process probe (lock hand-over)
def child_actor(ws, table, logfd, cmdfd):
    """A process that runs experiment blocks on command (JSON lines on cmdfd):
    {"op": "run", "tag": T, "jobs": [..], "how": "ok"|"exc", "exc": kind} enters, submits, waits for the
    links, logs "T holding", then waits for a {"op": "leave"} line and leaves the block as the run command
    said; {"op": "quit"} ends the process."""
    quiet()
    cmds = os.fdopen(cmdfd, "r")
    kept = {}

    def log(msg):
        os.write(logfd, (msg + "\n").encode())

    try:
        while True:
            line = cmds.readline()
            if not line:
                break
            cmd = json.loads(line)
            if cmd["op"] == "quit":
                break
            tag = cmd["tag"]
            how, kind = cmd.get("how", "ok"), cmd.get("exc", "error")

            def enter():
                log(f"{tag} try")
                if cmd.get("reuse"):          # the same experiment object is entered again
                    if "xp" not in kept:
                        kept["xp"] = experiment(ws, NAME, port=-1)
                    return kept["xp"]
                return experiment(ws, NAME, port=-1)

            def body(xp):
                log(f"{tag} entered")
                subs = []
                for x in cmd["jobs"]:
                    IndexedJob(x=x).submit()
                    subs.append(x)
                    log(f"{tag} sub {x}")
                log(f"{tag} synced" if wait_links(ws, table, subs) else f"{tag} sync-timeout")
                log(f"{tag} holding")
                while True:                 # leaves (as the run command said) when told to
                    line = cmds.readline()
                    nxt = json.loads(line) if line else {}
                    if nxt.get("op") != "nested":
                        break
                    # the same experiment entered again, by this process, inside the block
                    try:
                        log(f"{tag} nested-try")
                        with experiment(ws, NAME, port=-1):
                            log(f"{tag} nested-entered")
                            for x in nxt["jobs"]:
                                IndexedJob(x=x).submit()
                                log(f"{tag} nested-sub {x}")
                            wait_links(ws, table, nxt["jobs"], timeout=3.0)
                        log(f"{tag} nested-exited")
                    except BaseException as e:  # noqa
                        log(f"{tag} nested-raised {type(e).__name__}")
                    log(f"{tag} nested-done")
                return ("exc", kind) if how == "exc" else ("ok", "fall")

            run_block(enter, body, log, tag=tag + " ", genexit=(how == "exc" and kind == "genexit"))
    finally:
        os._exit(0)


class Actor:
    def __init__(self, ws, table):
        l_r, l_w = os.pipe()
        c_r, c_w = os.pipe()
        self.pid = os.fork()
        if self.pid == 0:
            os.close(l_r)
            os.close(c_w)
            child_actor(ws, table, l_w, c_r)
            os._exit(0)
        os.close(l_w)
        os.close(c_r)
        self.fd, self.cmd = l_r, c_w
        self.buf = dict(data=b"", lines=[])

    def send(self, **kw):
        try:
            os.write(self.cmd, (json.dumps(kw) + "\n").encode())
        except OSError:
            pass

    def wait(self, line, timeout):
        return wait_line(self.fd, self.buf, line, timeout)

    def wait_end(self, tag, timeout, also=None):
        """Until the block `tag` is over (left normally, by its exception, or the context raised) or line `also` shows."""
        t0 = time.time()
        while time.time() - t0 < timeout:
            for l in self.buf["lines"]:
                if l in (f"{tag} exited", f"{tag} exc-out", also) or l.startswith(f"{tag} error"):
                    return True
            wait_line(self.fd, self.buf, "\0", 0.05)
        return False

    def finish(self):
        self.send(op="quit")
        try:
            os.close(self.cmd)
        except OSError:
            pass
        t0 = time.time()
        timed_out = True
        while time.time() - t0 < 15:
            p, st = os.waitpid(self.pid, os.WNOHANG)
            if p:
                timed_out = False
                break
            time.sleep(0.005)
        if timed_out:
            os.kill(self.pid, signal.SIGKILL)
            os.waitpid(self.pid, 0)
        log = (self.buf["data"] + read_rest(self.fd)).decode().split("\n")[:-1]
        return log, timed_out


def do_excl3(ws, table, rel2x, case):
    """A inside, B waiting, A leaves through __exit__, B inside, a third contender (a new process C or
    A's process again) tries to get in while B is inside."""
    out = dict(pre=[do_run(ws, table, rel2x, run) for run in case.get("pre", [])])
    for x in case.get("mk", []):
        mk_jobdir(ws, table, x)
    win = case.get("wait", 0.4)
    t0 = time.time()
    a = Actor(ws, table)
    a.send(op="run", tag="A", jobs=case["a"], how=case["leave"], exc=case.get("exc", "error"))
    a.wait("A entered", 30)
    t_enter = time.time() - t0
    out["a_in"] = a.wait("A holding", 30)
    out["s_a"] = snapshot(ws, rel2x)
    b = Actor(ws, table)
    b.send(op="run", tag="B", jobs=case["b"])
    out["b_trying"] = b.wait("B try", 10)
    out["b_early"] = b.wait("B entered", max(win, 3 * t_enter))
    out["s_bwait"] = snapshot(ws, rel2x)
    a.send(op="leave")
    out["a_left"] = a.wait("A exited" if case["leave"] == "ok" else "A exc-out", 30)
    out["b_after"] = b.wait("B entered", 30)
    out["b_holding"] = b.wait("B holding", 30)
    out["s_b"] = snapshot(ws, rel2x)
    if case["third"] == "new":
        c = Actor(ws, table)
    else:
        c = a
    c.send(op="run", tag="C", jobs=case["c"])
    out["c_trying"] = c.wait("C try", 10)
    out["c_early"] = c.wait("C entered", max(win, 3 * t_enter))
    out["s_cwait"] = snapshot(ws, rel2x)
    b.send(op="leave")
    out["b_left"] = b.wait("B exited", 30)
    out["c_after"] = c.wait("C entered", 30)
    out["c_holding"] = c.wait("C holding", 30)
    out["s_c"] = snapshot(ws, rel2x)
    c.send(op="leave")
    out["c_left"] = c.wait("C exited", 30)
    out["s_end"] = snapshot(ws, rel2x)
    logs, tos = {}, []
    for name, act in (("a", a), ("b", b)) + ((("c", c),) if c is not a else ()):
        logs[name], to = act.finish()
        tos.append(to)
    out["logs"] = logs
    out["timeouts"] = any(tos)
    return out


def do_reenter(ws, table, rel2x, case):
    """One process, several blocks one after the other; result in the format of a "hist" case."""
    runs = [do_run(ws, table, rel2x, run) for run in case.get("pre", [])]
    for x in case.get("mk", []):
        mk_jobdir(ws, table, x)
    a = Actor(ws, table)
    tags = []
    for i, b in enumerate(case["blocks"]):
        tag = f"B{i}"
        tags.append(tag)
        a.send(op="run", tag=tag, jobs=b["jobs"], how=b.get("how", "ok"), exc=b.get("exc", "error"), reuse=case.get("reuse", True))
        a.wait_end(tag, 30, also=f"{tag} holding")
        a.send(op="leave")
        a.wait_end(tag, 30)
        runs.append(dict(log=None, status="exit0", snap=snapshot(ws, rel2x)))
    log, timed_out = a.finish()
    n = len(case.get("pre", []))
    for i, tag in enumerate(tags):
        runs[n + i]["log"] = [l[len(tag) + 1:] for l in log if l.startswith(tag + " ")]
        if timed_out:
            runs[n + i]["status"] = "timeout"
    return dict(runs=runs)


def do_nested(ws, table, rel2x, case):
    out = dict(pre=[do_run(ws, table, rel2x, run) for run in case.get("pre", [])])
    for x in case.get("mk", []):
        mk_jobdir(ws, table, x)
    win = case.get("wait", 0.4)
    t0 = time.time()
    a = Actor(ws, table)
    a.send(op="run", tag="A", jobs=case["a"], how="ok")
    a.wait("A entered", 30)
    t_enter = time.time() - t0
    out["a_in"] = a.wait("A holding", 30)
    out["s_a"] = snapshot(ws, rel2x)
    a.send(op="nested", jobs=case["inner"])
    out["n_done"] = a.wait("A nested-done", 30)
    out["s_n"] = snapshot(ws, rel2x)
    b = Actor(ws, table)
    b.send(op="run", tag="B", jobs=case["b"], how="ok")
    out["b_trying"] = b.wait("B try", 10)
    out["b_early"] = b.wait("B entered", max(win, 3 * t_enter))
    out["s_bwait"] = snapshot(ws, rel2x)
    a.send(op="leave")
    out["a_left"] = a.wait("A exited", 30)
    out["s_aleft"] = snapshot(ws, rel2x) if not out["b_early"] else None
    out["b_after"] = b.wait("B entered", 30)
    out["b_holding"] = b.wait("B holding", 30)
    out["s_b"] = snapshot(ws, rel2x)
    b.send(op="leave")
    out["b_left"] = b.wait("B exited", 30)
    out["s_end"] = snapshot(ws, rel2x)
    logs, tos = {}, []
    for name, act in (("a", a), ("b", b)):
        logs[name], to = act.finish()
        tos.append(to)
    out["logs"] = logs
    out["timeouts"] = any(tos)
    return out


def main():
    payload = json.load(sys.stdin)
    scratch = Path(payload["scratch"])
    scratch.mkdir(parents=True, exist_ok=True)
    table = calibrate(scratch)
    rel2x = {v[0]: k for k, v in table.items()}
    results = []
    global NAME
    for i, case in enumerate(payload["cases"]):
        NAME = case.get("name", "e")
        ws = scratch / f"ws{i}"
        ext = scratch / f"ext{i}"
        for d in (ws, ext):
            if d.is_symlink():
                d.unlink()
            elif d.exists():
                shutil.rmtree(d)
        layout = case.get("layout", "plain")
        if layout == "ws-link":               # the workspace is reached through a symbolic link
            (ext / "ws").mkdir(parents=True)
            os.symlink(ext / "ws", ws)
        else:
            ws.mkdir(parents=True)
        if layout == "jobs-link":             # <workspace>/jobs lives elsewhere
            (ext / "jobs").mkdir(parents=True)
            os.symlink(ext / "jobs", ws / "jobs")
        elif layout == "task-link":           # every <workspace>/jobs/<task> lives elsewhere
            (ws / "jobs").mkdir()
            for task in sorted({v[0].split("/")[0] for v in table.values()}):
                (ext / task).mkdir(parents=True)
                os.symlink(ext / task, ws / "jobs" / task)
        if case["kind"] == "hist":
            res = dict(runs=[do_run(ws, table, rel2x, run) for run in case["runs"]])
        elif case["kind"] == "excl3":
            res = do_excl3(ws, table, rel2x, case)
        elif case["kind"] == "reenter":
            res = do_reenter(ws, table, rel2x, case)
        elif case["kind"] == "nested":
            res = do_nested(ws, table, rel2x, case)
        else:
            res = do_excl(ws, table, rel2x, case)
        results.append(res)
        if not os.environ.get("VERIF_KEEP"):
            if ws.is_symlink():
                ws.unlink()
            shutil.rmtree(ws, ignore_errors=True)
            shutil.rmtree(ext, ignore_errors=True)
    print(json.dumps(results))


if __name__ == "__main__":
    main()
